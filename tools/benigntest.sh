#!/bin/sh
# usage: tools/benigntest.sh <patch.diff>   -- all 20 quick checks against a patched COPY of /repo (a behaviour-preserving
# refactoring): every line printed is an alarm to look at (VIOLATION with a failing input = false alarm of the check;
# `no-failing-input-found` = a proof/correspondence that depends on the exact code shape, allowed by the brief).
patch=$(readlink -f "$1")
work=$(mktemp -d /var/tmp/benign.XXXXXX)
trap 'rm -rf "$work"; python3 tools/gen_tables.py /repo lean/CprocVerif/Gen >/dev/null 2>&1' EXIT
(cd /repo && git ls-files | tar -cf - -T - | tar -xf - -C "$work"; cp config.h config.mk "$work/")
(cd "$work" && patch -p1 -s < "$patch") || { echo "PATCH FAILED"; exit 3; }
make -s -C "$work" >/dev/null 2>&1 || { echo "BUILD FAILED"; exit 3; }
(cd "$work" && CCQBE=./cproc-qbe ./runtests 2>&1 | tail -1)
for p in C01 C02 C03 C04 C05 C06 C07 C08 C09 C10 C11 C12 C13 C14 C15 C16 C17 C18 C19 C20; do
  out=$(CPROC_REPO="$work" bin/check $p --tier quick 2>&1); rc=$?
  n=$(echo "$out" | grep -c "VIOLATION")
  nf=$(echo "$out" | grep -c "no-failing-input-found")
  [ $rc -ne 0 ] && echo "$p rc=$rc violations=$n nofail=$nf $(echo "$out" | grep -E 'VIOLATION|BROKEN' | head -2 | cut -c1-200)"
done
echo "done $1"

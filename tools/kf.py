#!/usr/bin/env python3
"""tools/kf.py add <property> <status known|fixed> <id> <commit|-> <what> <witness>  -- maintain known_findings.json (by hand, never at check time)"""
import json, os, sys
root = os.path.dirname(os.path.dirname(os.path.abspath(__file__)))
p = os.path.join(root, "known_findings.json")
F = json.load(open(p))
_, cmd, prop, status, fid, commit, what, wit = sys.argv
F = [f for f in F if not (f["property"] == prop and f["id"] == fid)]
e = {"property": prop, "status": status, "id": fid, "what": what, "witness": wit}
if status == "fixed":
    e["commit"] = commit
    e["line"] = "fixed: property=%s %s %s" % (prop, commit, what)
F.append(e)
json.dump(F, open(p, "w"), indent=1)

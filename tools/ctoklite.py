"""A small C tokenizer shared by the translator plugins (comments and white space dropped,
string/char literals kept as single tokens, so re-wrapping or re-commenting the source does not
change what is extracted)."""
import re

TOK = re.compile(r"""
    (?P<comment>/\*.*?\*/|//[^\n]*)
  | (?P<str>(?:u8|[uUL])?"(?:\\.|[^"\\\n])*")
  | (?P<chr>(?:u8|[uUL])?'(?:\\.|[^'\\\n])*')
  | (?P<num>\.?[0-9](?:[eEpP][+-]|[0-9A-Za-z_.])*)
  | (?P<id>[A-Za-z_][A-Za-z_0-9]*)
  | (?P<punct>->|\+\+|--|<<=|>>=|<<|>>|<=|>=|==|!=|&&|\|\||[-+*/%&|^]=|\.\.\.|\#\#|[-+*/%&|^~!<>=?:;,.()\[\]{}\#])
  | (?P<ws>\s+|\\\n)
  | (?P<other>.)
""", re.S | re.X)


def tokens(text):
    """list of (kind, text, line)"""
    out = []
    line = 1
    for m in TOK.finditer(text):
        k = m.lastgroup
        s = m.group()
        if k not in ("comment", "ws"):
            out.append((k, s, line))
        line += s.count("\n")
    return out


def functions(toks):
    """Very rough: yields (name, start_index, end_index) for top-level function bodies:
    an identifier followed by '(' ... ')' '{' at brace depth 0."""
    depth = 0
    i = 0
    n = len(toks)
    while i < n:
        k, s, _ = toks[i]
        if s == "{":
            depth += 1
        elif s == "}":
            depth -= 1
        elif depth == 0 and k == "id" and i + 1 < n and toks[i + 1][1] == "(":
            # find matching ')'
            j = i + 1
            d = 0
            while j < n:
                if toks[j][1] == "(":
                    d += 1
                elif toks[j][1] == ")":
                    d -= 1
                    if d == 0:
                        break
                j += 1
            if j + 1 < n and toks[j + 1][1] == "{":
                # body
                b = j + 1
                d = 0
                e = b
                while e < n:
                    if toks[e][1] == "{":
                        d += 1
                    elif toks[e][1] == "}":
                        d -= 1
                        if d == 0:
                            break
                    e += 1
                yield (s, b, e)
                i = e
                depth = 0
        i += 1


def lean_str(s):
    return '"' + s.replace("\\", "\\\\").replace('"', '\\"').replace("\n", "\\n") + '"'

#!/usr/bin/env python3
"""Regenerate MANIFEST.json from the META dict of every checks/cNN.py that is registered in
REGISTERED below (a property is registered only once its check is quiet on the clean tree)."""
import importlib, json, os, sys
root = os.path.dirname(os.path.dirname(os.path.abspath(__file__)))
sys.path.insert(0, root)
props = [json.loads(l) for l in open(os.path.join(root, "properties.jsonl"))]
NA = json.load(open(os.path.join(root, "tools", "not_applicable.json")))
REGISTERED = set(json.load(open(os.path.join(root, "tools", "registered.json"))))
checks = []
claimed = set()
for p in props:
    pid = p["id"]
    if pid not in REGISTERED:
        continue
    path = os.path.join(root, "checks", pid.lower() + ".py")
    if not os.path.exists(path):
        continue
    mod = importlib.import_module("checks." + pid.lower())
    m = getattr(mod, "META", None)
    if not m or m.get("disabled"):
        continue
    claimed.add(pid)
    checks.append({
        "property_id": pid,
        "quick_cmd": "bin/check %s --tier quick" % pid,
        "thorough_cmd": "bin/check %s --tier thorough" % pid,
        "evidence_file": "evidence/%s.json" % pid,
        "replay_cmd_template": "bin/check %s --replay {path}" % pid,
        "engine": "lean4+correspondence",
        "level_claimed": {"category": m["category"], "text": m["text"], "design_ref": m["design_ref"]},
        "level_note": m["note"],
        "technique": m["technique"],
    })
na = [{"property_id": p["id"], "reason": NA.get(p["id"], "check not yet built; see DESIGN.md section 4 for the plan")}
      for p in props if p["id"] not in claimed]
man = {
    "version": 1,
    "setup_cmd": "python3 tools/gen_tables.py /repo lean/CprocVerif/Gen; cd lean && lake build",
    "hooks": {"guard": "CPROC_VERIF", "enable": "no hooks are needed: harnesses link /repo's translation units unmodified",
              "baseline_off_cmd": "make -C /repo && cd /repo && CCQBE=./cproc-qbe ./runtests",
              "source_commits": [], "add_only": True},
    "engines": [{"name": "lean4+correspondence", "path": "lean/ + checks/ + harness/",
                 "serves_properties": sorted(claimed),
                 "kind_free_text": "Lean 4 model + theorems (lake build, axiom audit) and differential correspondence between the model's executable definitions and /repo's code built from the current working tree"}],
    "checks": checks,
    "not_applicable": na,
    "notes": "See DESIGN.md.  fix: commits in /repo are listed in known_findings.json with status 'fixed'.",
}
json.dump(man, open(os.path.join(root, "MANIFEST.json"), "w"), indent=1)
print("claimed:", sorted(claimed))

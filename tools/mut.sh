#!/bin/sh
# usage: tools/mut.sh 'sed-expr' file CNN...   -- apply a one-line mutation to /repo, run checks, revert
expr="$1"; file="$2"; shift 2
sed -i "$expr" /repo/$file
if git -C /repo diff --quiet; then echo "MUTATION DID NOT APPLY"; exit 3; fi
git -C /repo diff | grep '^[+-][^+-]' | head -6
for p in "$@"; do bin/check $p --tier quick 2>&1 | grep -E "VIOLATION|KNOWN|BROKEN" | head -3; echo "$p rc=$?"; done
git -C /repo checkout -- .

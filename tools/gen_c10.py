"""Translator plugin for C10: every diagnostic site of the compiler proper -> Gen/ErrorSites.lean,
catalogue/sites.json; and the site keys of catalogue/c10.json -> Gen/C10Catalogue.lean.

A *site* is a call of `error(`, `fatal(`, `usage(`, `tokencheck(` or `expect(` inside a function body
of one of the units of cproc-qbe.  Its key is (file, enclosing function, format) where format is
  error(loc, FMT, ...)        -> FMT
  fatal(FMT, ...)             -> FMT
  usage()                     -> "usage"
  tokencheck(t, KIND, MSG)    -> "expected KIND MSG"
  expect(KIND, MSG)           -> "expected KIND MSG"
FMT/MSG is the concatenation of the string literals of that argument (decoded); an argument without
a string literal is kept as `<expr: tokens>`.  Line numbers are NOT part of the key, so moving or
re-wrapping code changes nothing; adding, deleting or re-wording a diagnostic does.
Several calls with the same key in one function are one site (count kept in sites.json).
"""
import json
import os
import sys
sys.path.insert(0, os.path.dirname(os.path.abspath(__file__)))
import ctoklite as ctok
from gen_tables import write_if_changed

UNITS = ["attr", "decl", "eval", "expr", "init", "main", "map", "pp", "scan", "scope", "stmt", "targ",
         "token", "tree", "type", "utf", "util", "qbe"]
CALLS = {"error": 1, "fatal": 0, "usage": None, "tokencheck": 2, "expect": 1}   # index of the message argument
VERIF = os.path.dirname(os.path.dirname(os.path.abspath(__file__)))
CATALOGUE = os.path.join(VERIF, "catalogue", "c10.json")

_ESC = {"n": "\n", "t": "\t", "\\": "\\", '"': '"', "'": "'", "0": "\0", "r": "\r", "a": "\a", "?": "?"}


def decode_str(tok):
    s = tok[tok.index('"') + 1:-1]
    out, i = [], 0
    while i < len(s):
        if s[i] == "\\" and i + 1 < len(s):
            out.append(_ESC.get(s[i + 1], s[i + 1]))
            i += 2
        else:
            out.append(s[i])
            i += 1
    return "".join(out)


def split_args(toks, i):
    """toks[i] is '('; returns (list of argument token lists, index of matching ')')"""
    args, cur, d = [], [], 0
    j = i
    while j < len(toks):
        t = toks[j][1]
        if t in "([{" and toks[j][0] == "punct":
            d += 1
            if d > 1:
                cur.append(toks[j])
        elif t in ")]}" and toks[j][0] == "punct":
            d -= 1
            if d == 0:
                if cur or args:
                    args.append(cur)
                return args, j
            cur.append(toks[j])
        elif t == "," and d == 1:
            args.append(cur)
            cur = []
        else:
            cur.append(toks[j])
        j += 1
    raise RuntimeError("unbalanced call")


def msg_of(arg):
    lits = [decode_str(s) for k, s, _ in arg if k == "str"]
    if lits and all(k == "str" for k, _, _ in arg):
        return "".join(lits)
    if lits:   # e.g. cond ? "a" : "b"  -> keep both alternatives
        return "<expr: %s>" % " ".join(s for _, s, _ in arg)
    return "<expr: %s>" % " ".join(s for _, s, _ in arg)


def extract(repo):
    """list of dicts {file, func, fmt, call, lines}"""
    sites = {}
    order = []
    for u in UNITS:
        path = os.path.join(repo, u + ".c")
        if not os.path.exists(path):
            raise RuntimeError("unit %s.c not found" % u)
        toks = ctok.tokens(open(path, errors="replace").read())
        for fname, b, e in ctok.functions(toks):
            i = b
            while i < e:
                k, s, line = toks[i]
                if k == "id" and s in CALLS and toks[i + 1][1] == "(" and toks[i - 1][1] not in (".", "->"):
                    args, close = split_args(toks, i + 1)
                    idx = CALLS[s]
                    if idx is None:
                        fmt = "usage"
                    elif idx >= len(args):
                        raise RuntimeError("%s.c:%d: %s( with %d arguments" % (u, line, s, len(args)))
                    else:
                        fmt = msg_of(args[idx])
                        if s in ("tokencheck", "expect"):
                            fmt = "expected %s %s" % (" ".join(x[1] for x in args[idx - 1]), fmt)
                    key = (u + ".c", fname, fmt)
                    if key not in sites:
                        sites[key] = {"file": key[0], "func": fname, "fmt": fmt, "call": s, "lines": []}
                        order.append(key)
                    sites[key]["lines"].append(line)
                    # nested calls inside the arguments (none today) are found by continuing at i+1
                i += 1
    if len(order) < 50:
        raise RuntimeError("only %d diagnostic sites found: error()/fatal() changed shape" % len(order))
    return [sites[k] for k in order]


def key_str(s):
    return "%s|%s|%s" % (s["file"], s["func"], s["fmt"])


def lean_triple(k):
    return "(%s, %s, %s)" % tuple(ctok.lean_str(x) for x in k)


def key_code(k):
    """The site key as ONE natural number: the UTF-8 bytes of file, 0x1f, function, 0x1f, format read as a
    big-endian base-256 numeral behind a leading 0x01 byte (injective).  Kernel evaluation of `String`
    operations is pathologically slow in Lean 4.33 (strings are byte arrays, literals are expanded
    character by character), whereas `Nat` literals are compared by GMP: the coverage theorems of
    Props/C10.lean are therefore stated over these codes; `drv_c10 sites` re-computes them from the
    string tables (`CprocVerif.C10Tables.keyCode`) and checks/c10.py cross-checks both."""
    b = b"\x01" + "\x1f".join(k).encode("utf-8")
    return int.from_bytes(b, "big")


def lean_nat_list(name, doc, vals, fmt=str):
    out = ["/-- %s -/" % doc, "def %s := [" % name]
    out += ["  " + fmt(v) + ("," if i + 1 < len(vals) else "") for i, v in enumerate(vals)]
    out += ["]"]
    return out


def load_catalogue(path=CATALOGUE):
    if not os.path.exists(path):
        return {"entries": []}
    return json.load(open(path))


def resolve_moved(catalogue_keys, site_keys):
    """A diagnostic that was moved into another function of the same file (a behaviour-preserving refactoring:
    helper extracted, function renamed or split) keeps its catalogue entry: when an entry's key (file, function,
    format) is absent from the current source and there is exactly ONE source site with the same (file, format)
    that has no entry of its own -- and no second stale entry competes for it -- the entry is taken to describe
    that site.  Anything ambiguous (two candidates, another file, changed wording) is left alone and stays a
    reported mismatch.  Returns {catalogue key: source key}."""
    ckeys = set(catalogue_keys)
    skeys = set(site_keys)
    free = {}
    for k in skeys - ckeys:
        free.setdefault((k[0], k[2]), []).append(k)
    stale = {}
    for k in ckeys - skeys:
        stale.setdefault((k[0], k[2]), []).append(k)
    moved = {}
    for ff, olds in stale.items():
        cand = free.get(ff, [])
        if len(olds) == 1 and len(cand) == 1:
            moved[olds[0]] = cand[0]
    return moved


def generate(repo, gendir):
    sites = extract(repo)
    keys = sorted((s["file"], s["func"], s["fmt"]) for s in sites)
    body = ["-- GENERATED by tools/gen_c10.py from /repo; do not edit.",
            "namespace CprocVerif.Gen.ErrorSites", "",
            "/-- (file, enclosing function, format) of every error/fatal/usage/tokencheck/expect call of the",
            "compiler proper, sorted. -/",
            "def sites : List (String × String × String) := ["]
    body += ["  " + lean_triple(k) + ("," if i + 1 < len(keys) else "") for i, k in enumerate(keys)]
    body += ["]", ""]
    body += lean_nat_list("codes : List Nat", "`keyCode` of every element of `sites`, in ascending numeric order "
                          "(see tools/gen_c10.py:key_code)", sorted(key_code(k) for k in keys))
    body += ["", "end CprocVerif.Gen.ErrorSites", ""]
    write_if_changed(os.path.join(gendir, "ErrorSites.lean"), "\n".join(body))
    os.makedirs(os.path.join(VERIF, "catalogue"), exist_ok=True)
    # sites.json describes the tree the check is pointed at; only the default tree rewrites the tracked copy
    cat = load_catalogue()
    moved = resolve_moved([tuple(e["site"]) for e in cat.get("entries", [])], keys)
    sj = json.dumps({"count": len(sites), "sites": sites,
                     "moved_sites": [{"catalogue": list(a), "source": list(b)} for a, b in sorted(moved.items())]},
                    indent=1) + "\n"
    if os.path.abspath(repo) == "/repo":
        write_if_changed(os.path.join(VERIF, "catalogue", "sites.json"), sj)

    rows = []
    seen = set()
    for e in cat.get("entries", []):
        k = tuple(e["site"])
        k = moved.get(k, k)
        if k in seen:
            raise RuntimeError("catalogue lists site %s twice" % (k,))
        seen.add(k)
        if e.get("templates"):
            rows.append((k, 0))
        elif e.get("unreachable"):
            rows.append((k, 1))
        elif e.get("external"):
            rows.append((k, 2))
        else:
            raise RuntimeError("catalogue entry %s has neither templates nor unreachable/external" % (k,))
    rows.sort()
    out = ["-- GENERATED by tools/gen_c10.py from catalogue/c10.json; do not edit.",
           "namespace CprocVerif.Gen.C10Catalogue", "",
           "/-- every entry of catalogue/c10.json, sorted by site key: (site key, class) with class",
           "0 = has at least one violating template, 1 = unreachable internal-error site (reason in the",
           "catalogue), 2 = external (I/O, command line, allocation failure: C17/C19) -/",
           "def entries : List ((String × String × String) × Nat) := ["]
    out += ["  (%s, %d)%s" % (lean_triple(k), c, "," if i + 1 < len(rows) else "") for i, (k, c) in enumerate(rows)]
    out += ["]", ""]
    out += lean_nat_list("codes : List (Nat × Nat)", "(`keyCode` of the site key, class) of every element of "
                         "`entries`, in ascending numeric order of the code", sorted((key_code(k), c) for k, c in rows),
                         fmt=lambda v: "(%d, %d)" % v)
    out += ["", "/-- number of entries of class 0, 1, 2 -/",
            "def classCounts : Nat × Nat × Nat := (%d, %d, %d)" % tuple(sum(1 for _, c in rows if c == i) for i in range(3))]
    out += ["",
            "def ofClass (c : Nat) : List (String × String × String) := (entries.filter (·.2 == c)).map (·.1)",
            "/-- sites with at least one violating template -/",
            "def withTemplate := ofClass 0",
            "/-- internal-error sites that no input can reach -/",
            "def unreachable := ofClass 1",
            "/-- sites not reachable from the input text -/",
            "def external := ofClass 2",
            "", "end CprocVerif.Gen.C10Catalogue", ""]
    write_if_changed(os.path.join(gendir, "C10Catalogue.lean"), "\n".join(out))
    return ["ErrorSites.lean", "C10Catalogue.lean"]


if __name__ == "__main__":
    repo = sys.argv[1] if len(sys.argv) > 1 else "/repo"
    for s in extract(repo):
        print("%s\t%s\t%s\t%s\t%s" % (s["file"], s["func"], s["call"], s["lines"], s["fmt"]))

#!/bin/sh
# usage: tools/seedtest.sh <seedwork-dir> CNN [CNN...]
# Confirms a seeded change (patch.diff + demo/run.sh) and runs the given checks against a patched COPY of /repo
# (CPROC_REPO), so that /repo itself is not disturbed while other work is running.
set -e
sw="$1"; shift
work=$(mktemp -d /var/tmp/seedtest.XXXXXX)
trap 'rm -rf "$work"' EXIT
mkdir "$work/pristine" "$work/mutant"
(cd /repo && git ls-files | tar -cf - -T - | tar -xf - -C "$work/pristine"; cp config.h config.mk "$work/pristine/")
cp -r "$work/pristine/." "$work/mutant/"
(cd "$work/mutant" && patch -p1 -s < "$sw/patch.diff")
for t in pristine mutant; do make -s -C "$work/$t" >/dev/null 2>&1 || { echo "BUILD FAILED: $t"; exit 3; }; done
(cd "$work/mutant" && CCQBE=./cproc-qbe ./runtests 2>&1 | tail -1)
set +e
sh "$sw/demo/run.sh" "$work/pristine" >/dev/null 2>&1; echo "demo on pristine: rc=$? (want 0)"
sh "$sw/demo/run.sh" "$work/mutant" >/dev/null 2>&1; echo "demo on mutant:   rc=$? (want 1)"
for p in "$@"; do
  out=$(CPROC_REPO="$work/mutant" bin/check $p --tier quick 2>&1); rc=$?
  echo "$out" | grep -E "VIOLATION|BROKEN" | head -3
  echo "check $p on mutant: rc=$rc"
done

"""Translator plugin for C17: driver.c -> lean/CprocVerif/Gen/DriverTables.lean.

Extracted mechanically (C tokenizer + a small statement parser, no line regexes):
  suffixTable  `detectfiletype`: strcmp(dot, "x") == 0 -> return T   (+ the default return)
  maskTable    `switch (input->filetype)`: case T: input->stages = 1<<A|1<<B...
  langTable    `-x`: strcmp(arg, "lang") == 0 -> filetype = T
  archTable    hasprefix(target, "p") [|| ...] -> arch = "a", qbearch = "b"
  wTable       `-W<c>,`: case 'c': cmd = &stages[S].cmd
  optRows      the option chain of main in source order: every strcmp/strncmp condition of the
               if/else-if chain and every `case` of `switch (arg[1])` (nested chains flattened in
               place), with what the branch does: which stage's cmd array it appends what to
               (literal / arg / nextarg(&argv) / *++argv), which `last` it sets, flags, usage.
The four irregular branches are recognised by their statements, not interpreted: `-l` (input with
lib = true, OBJ, 1<<LINK), `-o` (output = nextarg), `-x` (the language chain), `-W` (comma loop).
If any part cannot be recognised the plugin raises (gen_tables prints `gen_c17: ERROR ...`), after
writing EMPTY tables so that the `decide` ties in Props/C17.lean fail visibly instead of passing
against a stale file; the tie for C17 is then the K-C run alone.
"""
import os
import re

FT = {"NONE": ".none", "ASM": ".asm", "ASMPP": ".asmpp", "C": ".c", "CHDR": ".chdr", "CPPOUT": ".cppout",
      "OBJ": ".obj", "QBE": ".qbe"}
ST = {"PREPROCESS": ".preprocess", "COMPILE": ".compile", "CODEGEN": ".codegen", "ASSEMBLE": ".assemble",
      "LINK": ".link"}

TOK = re.compile(r"""
    (?P<ws>\s+|/\*.*?\*/|//[^\n]*)
  | (?P<str>"(?:[^"\\\n]|\\.)*")
  | (?P<chr>'(?:[^'\\\n]|\\.)+')
  | (?P<id>[A-Za-z_]\w*)
  | (?P<num>\d\w*)
  | (?P<op><<=|>>=|\+\+|--|->|<<|>>|<=|>=|==|!=|&&|\|\||[-+*/%&|^]=|[-+*/%&|^!~<>=?:;,.(){}\[\]\#])
""", re.S | re.X)


def tokenize(text):
    out, pos = [], 0
    while pos < len(text):
        m = TOK.match(text, pos)
        if not m:
            raise ValueError("cannot tokenize at %r" % text[pos:pos + 20])
        pos = m.end()
        if m.lastgroup != "ws":
            out.append((m.lastgroup, m.group()))
    return out


def cstr(tok):
    s = tok[1:-1]
    return re.sub(r"\\(.)", lambda m: {"n": "\n", "t": "\t", "0": "\0"}.get(m.group(1), m.group(1)), s)


class P:
    """statement parser over a token list"""
    def __init__(self, toks):
        self.t = toks
        self.i = 0

    def peek(self, k=0):
        return self.t[self.i + k][1] if self.i + k < len(self.t) else None

    def eat(self, v=None):
        tok = self.t[self.i]
        if v is not None and tok[1] != v:
            raise ValueError("expected %r, got %r at token %d" % (v, tok[1], self.i))
        self.i += 1
        return tok

    def paren(self):
        """tokens of a balanced ( ... ) without the outer parentheses"""
        self.eat("(")
        depth, out = 1, []
        while True:
            tok = self.eat()
            if tok[1] == "(":
                depth += 1
            elif tok[1] == ")":
                depth -= 1
                if depth == 0:
                    return out
            out.append(tok)

    def stmt(self):
        v = self.peek()
        if v == "{":
            self.eat()
            body = []
            while self.peek() != "}":
                body.append(self.stmt())
            self.eat("}")
            return ("block", body)
        if v == "if":
            self.eat()
            cond = self.paren()
            then = self.stmt()
            els = None
            if self.peek() == "else":
                self.eat()
                els = self.stmt()
            return ("if", cond, then, els)
        if v == "switch":
            self.eat()
            e = self.paren()
            body = self.stmt()
            return ("switch", e, body)
        if v in ("for", "while"):
            self.eat()
            hdr = self.paren()
            return ("loop", hdr, self.stmt())
        if v == "case":
            self.eat()
            lab = []
            while self.peek() != ":":
                lab.append(self.eat())
            self.eat(":")
            return ("case", lab)
        if v == "default" and self.peek(1) == ":":
            self.eat()
            self.eat()
            return ("default",)
        if self.t[self.i][0] == "id" and self.peek(1) == ":" and v not in ("case", "default"):
            self.eat()
            self.eat()
            return ("label", v)
        out = []
        depth = 0
        while True:
            tok = self.eat()
            if tok[1] in "([{":
                depth += 1
            elif tok[1] in ")]}":
                depth -= 1
            elif tok[1] == ";" and depth == 0:
                break
            out.append(tok)
        return ("expr", out)


def function_body(toks, name):
    """statement tree of the body of function `name` (definition: name ( ... ) { )"""
    for i in range(len(toks) - 1):
        if toks[i] == ("id", name) and toks[i + 1][1] == "(":
            p = P(toks)
            p.i = i + 1
            p.paren()
            if p.peek() == "{":
                return p.stmt()
    raise ValueError("function %s not found" % name)


def vals(ts):
    return [t[1] for t in ts]


def flat(st):
    return st[1] if st[0] == "block" else [st]


def walk(st):
    yield st
    if st[0] == "block":
        for s in st[1]:
            yield from walk(s)
    elif st[0] == "if":
        yield from walk(st[2])
        if st[3]:
            yield from walk(st[3])
    elif st[0] in ("switch", "loop"):
        yield from walk(st[2])


def split_or(cond):
    parts, cur, depth = [], [], 0
    for t in cond:
        if t[1] == "(":
            depth += 1
        elif t[1] == ")":
            depth -= 1
        if t[1] == "||" and depth == 0:
            parts.append(cur)
            cur = []
        else:
            cur.append(t)
    parts.append(cur)
    return parts


def cmp_cond(part, var):
    """strcmp(var, "s") == 0 -> ('exact', s); strncmp(var, "s", n) == 0 -> ('pfx', s)"""
    v = vals(part)
    if len(v) == 8 and v[0] == "strcmp" and v[1] == "(" and v[2] == var and v[3] == "," and v[5] == ")" \
            and v[6] == "==" and v[7] == "0" and part[4][0] == "str":
        return ("exact", cstr(v[4]))
    if len(v) == 10 and v[0] == "strncmp" and v[2] == var and part[4][0] == "str" and v[6].isdigit() \
            and v[8] == "==" and v[9] == "0":
        s = cstr(v[4])
        if int(v[6]) != len(s):
            raise ValueError("strncmp length %s does not match %r" % (v[6], s))
        return ("pfx", s)
    return None


def chain(st):
    """if/else-if chain -> [(cond tokens, then stmt)], final else stmt or None"""
    out = []
    while st is not None and st[0] == "if":
        out.append((st[1], st[2]))
        st = st[3]
    return out, st


# ---------------------------------------------------------------- actions of a branch
def act_of(stmts):
    """statements of one option branch -> Lean `Act` text"""
    adds, last, flag, usage, sepcheck = [], None, None, False, False
    stage = None
    for s in stmts:
        if s[0] == "expr":
            v = vals(s[1])
            if not v:
                continue
            if v[0] == "arrayaddptr" and v[1:5] == ["(", "&", "stages", "["] and v[6:10] == ["]", ".", "cmd", ","]:
                st = ST[v[5]]
                if stage not in (None, st):
                    raise ValueError("one branch appends to two stages")
                stage = st
                arg = v[10:-1]
                if arg == ["arg"]:
                    adds.append(".self")
                elif len(arg) == 1 and s[1][10][0] == "str":
                    adds.append(".lit (str %s)" % lean_str(cstr(arg[0])))
                elif arg == ["nextarg", "(", "&", "argv", ")"]:
                    adds.append(".joined")
                elif arg == ["*", "++", "argv"]:
                    if not sepcheck:
                        raise ValueError("*++argv without a preceding missing-argument test")
                    adds.append(".sep")
                else:
                    raise ValueError("unrecognised arrayaddptr argument %s" % arg)
            elif v[:2] == ["last", "="] and len(v) == 3:
                last = ST[v[2]]
            elif v[:4] == ["flags", ".", "nostdlib", "="]:
                flag = ".nostdlib"
            elif v[:4] == ["flags", ".", "verbose", "="]:
                flag = ".verbose"
            elif v[0] == "usage":
                usage = True
            else:
                raise ValueError("unrecognised statement %s" % " ".join(v))
        elif s[0] == "if":
            c = vals(s[1])
            body = [vals(x[1]) for x in flat(s[2]) if x[0] == "expr"]
            if c == ["!", "argv", "[", "1", "]"] and body and body[0][0] == "usage" and s[3] is None:
                sepcheck = True
            else:
                raise ValueError("unrecognised condition %s" % " ".join(c))
        elif s[0] == "break":
            pass
        else:
            raise ValueError("unrecognised statement kind %s" % s[0])
    if usage and not (adds or last or flag):
        return ".usage"
    if usage:
        raise ValueError("usage mixed with other effects")
    if flag:
        if adds or last:
            raise ValueError("flag mixed with other effects")
        return flag
    if adds and last:
        return ".addLast %s [%s] %s" % (stage, ", ".join(adds), last)
    if adds:
        return ".add %s [%s]" % (stage, ", ".join(adds))
    if last:
        return ".last %s" % last
    return ".ignore"


def lean_str(s):
    return '"' + s.replace("\\", "\\\\").replace('"', '\\"').replace("\n", "\\n").replace("\t", "\\t") + '"'


def lean_chr(c):
    return "'" + (c if c not in "'\\" else "\\" + c) + "'"


def strip_break(stmts):
    out = [s for s in stmts if not (s[0] == "expr" and vals(s[1]) == ["break"])]
    return out


def special_case(letter, stmts):
    """-l, -o, -x, -W are recognised by their statements"""
    text = " ".join(" ".join(vals(s[1])) if s[0] == "expr" else s[0] for s in stmts)
    alltoks = [t for s in stmts for w in walk(s) if w[0] == "expr" for t in vals(w[1])]
    if "input -> lib = true" in text:
        need = ["input -> name = nextarg ( & argv )", "input -> filetype = OBJ", "input -> stages = 1 << LINK"]
        if all(n in text for n in need):
            return ".lib"
        raise ValueError("-%s: library input branch changed" % letter)
    if text.strip() == "output = nextarg ( & argv )":
        return ".output"
    if text.startswith("arg = nextarg ( & argv )") and "filetype" in alltoks:
        return ".lang"
    if any(s[0] == "if" and "','" in vals(s[1]) for s in stmts):
        return ".wcomma"
    return None


def extract(repo):
    text = open(os.path.join(repo, "driver.c")).read()
    toks = tokenize(text)
    T = {}
    # ---- detectfiletype
    body = function_body(toks, "detectfiletype")
    suf, default = [], None
    for s in walk(body):
        if s[0] == "if":
            c = cmp_cond(s[1], "dot")
            if c:
                r = [x for x in flat(s[2]) if x[0] == "expr"]
                v = vals(r[0][1])
                if c[0] != "exact" or v[0] != "return":
                    raise ValueError("detectfiletype: unexpected branch")
                suf.append((c[1], FT[v[1]]))
    for s in flat(body):
        if s[0] == "expr" and vals(s[1])[:1] == ["return"]:
            default = FT[vals(s[1])[1]]
    if not suf or default is None:
        raise ValueError("detectfiletype: suffix chain not found")
    T["suffix"], T["suffixDefault"] = suf, default
    # ---- main
    main = function_body(toks, "main")
    loop = None
    arch = []
    for s in flat(main):
        if s[0] == "loop" and vals(s[1]) == [";", ";"]:
            loop = s[2]
        if s[0] == "if":
            ch, els = chain(s)
            for cond, then in ch:
                pf = []
                for part in split_or(cond):
                    v = vals(part)
                    if v[:4] == ["hasprefix", "(", "target", ","] and part[4][0] == "str":
                        pf.append(cstr(v[4]))
                if pf:
                    a = q = None
                    for x in flat(then):
                        if x[0] == "expr":
                            v = vals(x[1])
                            if v[:2] == ["arch", "="]:
                                a = cstr(v[2])
                            if v[:2] == ["qbearch", "="]:
                                q = cstr(v[2])
                    if a is None or q is None:
                        raise ValueError("arch chain: branch without arch/qbearch")
                    arch.append((pf, a, q))
    if loop is None or not arch:
        raise ValueError("main: argument loop or arch chain not found")
    T["arch"] = arch
    # target flags really appended
    flagtext = " ".join(vals([t for s in flat(main) if s[0] == "expr" for t in s[1] + [("op", ";")]]))
    for need in ['arrayaddptr ( & stages [ COMPILE ] . cmd , "-t" ) ; arrayaddptr ( & stages [ COMPILE ] . cmd , arch )',
                 'arrayaddptr ( & stages [ CODEGEN ] . cmd , "-t" ) ; arrayaddptr ( & stages [ CODEGEN ] . cmd , qbearch )']:
        if need not in flagtext:
            raise ValueError("main: target flag no longer appended as `-t <arch>`")
    # ---- the loop body: input branch, then the option chain
    stmts = flat(loop)
    masks = []
    optchain = None
    for s in stmts:
        if s[0] == "if" and "input" in vals([t for w in walk(s[2]) if w[0] == "expr" for t in w[1]]) and not masks:
            for w in walk(s[2]):
                if w[0] == "switch" and vals(w[1]) == ["input", "->", "filetype"]:
                    cur = None
                    for x in flat(w[2]):
                        if x[0] == "case":
                            cur = FT[vals(x[1])[0]]
                        elif x[0] == "default":
                            cur = None
                        elif x[0] == "expr" and cur is not None:
                            v = vals(x[1])
                            if v[:4] == ["input", "->", "stages", "="]:
                                e = v[4:]
                                sts = []
                                if not re.fullmatch(r"(1 << \w+)( \| 1 << \w+)*", " ".join(e)):
                                    raise ValueError("stage mask expression not recognised: %s" % " ".join(e))
                                for k in range(2, len(e), 4):
                                    sts.append(ST[e[k]])
                                masks.append((cur, sts))
        elif s[0] == "if" and cmp_cond(split_or(s[1])[0], "arg"):
            optchain = s
    if not masks or optchain is None:
        raise ValueError("main: stage masks or option chain not found")
    T["masks"] = masks
    rows, langs, wtab = [], [], []
    ch, els = chain(optchain)
    for cond, then in ch:
        act = act_of(strip_break(flat(then)))
        for part in split_or(cond):
            c = cmp_cond(part, "arg")
            if not c:
                raise ValueError("option chain: unrecognised condition %s" % " ".join(vals(part)))
            rows.append(("." + c[0] + " (str %s)" % lean_str(c[1]), act))
    if els is None:
        raise ValueError("option chain: no final else")
    bare = ""
    sw = None
    for s in flat(els):
        if s[0] == "if":
            v = vals(s[1])
            if "strchr" in v:
                k = v.index("strchr")
                bare = cstr(v[k + 2])
                if vals([t for x in flat(s[2]) if x[0] == "expr" for t in x[1]])[:1] != ["usage"] or \
                        v[:k] != ["arg", "[", "2", "]", "!=", "'\\0'", "&&"] or v[k + 3:] != [",", "arg", "[", "1", "]", ")"]:
                    raise ValueError("pre-switch test changed")
        elif s[0] == "switch" and vals(s[1]) == ["arg", "[", "1", "]"]:
            sw = s
    if sw is None:
        raise ValueError("switch (arg[1]) not found")
    cases, cur, curst, default_usage = [], None, [], False
    for x in flat(sw[2]):
        if x[0] == "case":
            if cur is not None and not curst:
                raise ValueError("fall-through case labels are not supported")
            cur, curst = cstr(vals(x[1])[0]), []
            cases.append((cur, curst))
        elif x[0] == "default":
            cur, curst = None, []
            cases.append((None, curst))
        else:
            curst.append(x)
    for letter, st in cases:
        st = strip_break(st)
        if letter is None:
            if not (len(st) == 1 and st[0][0] == "expr" and vals(st[0][1])[0] == "usage"):
                raise ValueError("default: of switch (arg[1]) is not usage")
            default_usage = True
            continue
        m = ".letter %s %s" % (lean_chr(letter), "true" if letter in bare else "false")
        sp = special_case(letter, st)
        if sp == ".lang":
            for w in st:
                if w[0] == "if":
                    c2, e2 = chain(w)
                    for cond, then in c2:
                        c = cmp_cond(cond, "arg")
                        v = vals([t for x in flat(then) if x[0] == "expr" for t in x[1]])
                        if not c or c[0] != "exact" or v[:2] != ["filetype", "="]:
                            raise ValueError("-x chain not recognised")
                        langs.append((c[1], FT[v[2]]))
                    if e2 is None or vals([t for x in flat(e2) if x[0] == "expr" for t in x[1]])[:1] != ["usage"]:
                        raise ValueError("-x chain must end in usage")
            rows.append((m, sp))
        elif sp == ".wcomma":
            for w in st:
                for y in walk(w):
                    if y[0] == "switch" and vals(y[1]) == ["arg", "[", "2", "]"]:
                        lab = None
                        for x in flat(y[2]):
                            if x[0] == "case":
                                lab = cstr(vals(x[1])[0])
                            elif x[0] == "default":
                                lab = None
                            elif x[0] == "expr" and lab is not None:
                                v = vals(x[1])
                                if len(v) == 9 and v[:5] == ["cmd", "=", "&", "stages", "["] and v[6:] == ["]", ".", "cmd"]:
                                    wtab.append((lab, ST[v[5]]))
            if not wtab:
                raise ValueError("-W tool table not found")
            rows.append((m, sp))
        elif sp:
            rows.append((m, sp))
        elif len(st) == 1 and st[0][0] == "if" and cmp_cond(split_or(st[0][1])[0], "arg"):
            c2, e2 = chain(st[0])     # nested chain (-M...): flattened in place
            for cond, then in c2:
                a2 = act_of(strip_break(flat(then)))
                for part in split_or(cond):
                    c = cmp_cond(part, "arg")
                    if not c:
                        raise ValueError("nested chain: unrecognised condition")
                    rows.append(("." + c[0] + " (str %s)" % lean_str(c[1]), a2))
            rows.append((m, act_of(strip_break(flat(e2))) if e2 is not None else ".ignore"))
        else:
            rows.append((m, act_of(st)))
    if not default_usage:
        raise ValueError("switch (arg[1]) has no default: usage")
    T["rows"], T["langs"], T["wtab"] = rows, langs, wtab
    return T


def emit(T, err=None):
    L = ["import CprocVerif.Model.Driver",
         "",
         "/-! GENERATED by tools/gen_c17.py from /repo/driver.c - do not edit. -/",
         "",
         "namespace CprocVerif.Gen.DriverTables",
         "open CprocVerif.Driver",
         ""]
    if err:
        L += ["def extractionError : String := %s" % lean_str(err), ""]
    L.append("def suffixTable : List (Str × FileType) :=\n  [%s]" %
             ", ".join("(str %s, %s)" % (lean_str(s), t) for s, t in T.get("suffix", [])))
    L.append("\ndef suffixDefault : FileType := %s" % T.get("suffixDefault", ".none"))
    L.append("\ndef maskTable : List (FileType × List Stage) :=\n  [%s]" %
             ",\n   ".join("(%s, [%s])" % (t, ", ".join(s)) for t, s in T.get("masks", [])))
    L.append("\ndef langTable : List (Str × FileType) :=\n  [%s]" %
             ", ".join("(str %s, %s)" % (lean_str(s), t) for s, t in T.get("langs", [])))
    L.append("\ndef archTable : List (List Str × Str × Str) :=\n  [%s]" %
             ",\n   ".join("([%s], str %s, str %s)" % (", ".join("str " + lean_str(p) for p in pf), lean_str(a), lean_str(q))
                           for pf, a, q in T.get("arch", [])))
    L.append("\ndef wTable : List (Char × Stage) :=\n  [%s]" %
             ", ".join("(%s, %s)" % (lean_chr(c), s) for c, s in T.get("wtab", [])))
    L.append("\ndef optRows : List OptRow :=\n  [%s]" %
             ",\n   ".join("⟨%s, %s⟩" % (m, a) for m, a in T.get("rows", [])))
    L.append("\nend CprocVerif.Gen.DriverTables\n")
    return "\n".join(L)


def generate(repo, gendir):
    import sys
    sys.path.insert(0, os.path.dirname(os.path.abspath(__file__)))
    from gen_tables import write_if_changed
    path = os.path.join(gendir, "DriverTables.lean")
    try:
        T = extract(repo)
    except Exception as e:
        write_if_changed(path, emit({}, err=str(e)))
        raise
    write_if_changed(path, emit(T))
    return ["DriverTables.lean"]


if __name__ == "__main__":
    import sys
    print(emit(extract(sys.argv[1] if len(sys.argv) > 1 else "/repo")))

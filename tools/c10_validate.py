#!/usr/bin/env python3
"""Validate catalogue templates one by one (development aid for catalogue/c10.json; the check
checks/c10.py repeats the same tests on every run).

usage: c10_validate.py [--repo DIR] [--positions] [--site SUBSTR] catalogue.json [more.json ...]

For every template, stand-alone:
  * an *instrumented* private build of cproc-qbe (each error/fatal/expect/tokencheck call prints
    `@@SITE file func` first) must reject it, with a diagnostic of the right shape, whose text matches
    both the template's `msg` regex and the regex derived from the site's format string, and the
    (file, function) of the site must be the one that fired;
  * gcc/clang -std=c11 -pedantic-errors -fsyntax-only must reject it unless "oracle": "cproc-only"
    (then at least one of them must ACCEPT it, otherwise the mark is unnecessary).
With --positions every position of a small fixed host is tried too and accepted ones are listed.
Prints one line per problem and a summary; exit status 1 when something is wrong.
"""
import argparse
import json
import os
import random
import re
import subprocess
import sys

HERE = os.path.dirname(os.path.abspath(__file__))
sys.path.insert(0, os.path.dirname(HERE))
sys.path.insert(0, HERE)
import gen_c10  # noqa: E402
from checks import c10cat  # noqa: E402

UNITS = gen_c10.UNITS


def build_instrumented(repo, outdir):
    """copy the sources, prefix every diagnostic call inside a function body, build"""
    os.makedirs(outdir, exist_ok=True)
    src = os.path.join(outdir, "isrc")
    os.makedirs(src, exist_ok=True)
    sites = gen_c10.extract(repo)
    bylines = {}
    for s in sites:
        for ln in s["lines"]:
            bylines.setdefault(s["file"], {}).setdefault(ln, []).append(s)
    stamp = []
    for f in sorted(os.listdir(repo)):
        if not f.endswith((".c", ".h")):
            continue
        text = open(os.path.join(repo, f), errors="replace").read()
        stamp.append(text)
        if f in bylines:
            lines = text.split("\n")
            for ln, ss in bylines[f].items():
                for call in sorted({s["call"] for s in ss}):
                    func = ss[0]["func"]
                    rep = '(fprintf(stderr, "@@SITE %s %s\\n"), %s)(' % (f, func, call)
                    lines[ln - 1] = re.sub(r"(?<![A-Za-z0-9_>.])%s\(" % call, lambda m: rep, lines[ln - 1])
            text = "\n".join(lines)
            if "<stdio.h>" not in text:
                text = "#include <stdio.h>\n" + text
        open(os.path.join(src, f), "w").write(text)
    exe = os.path.join(outdir, "cproc-qbe-sites")
    import hashlib
    h = hashlib.sha256("\0".join(stamp).encode()).hexdigest()
    hp = exe + ".hash"
    if os.path.exists(exe) and os.path.exists(hp) and open(hp).read() == h:
        return exe
    r = subprocess.run(["gcc", "-O1", "-std=c11", "-w", "-o", exe] +
                       [os.path.join(src, u + ".c") for u in UNITS if u != "main"] + [os.path.join(src, "main.c")],
                       stdout=subprocess.PIPE, stderr=subprocess.STDOUT, text=True)
    if r.returncode != 0:
        raise SystemExit("instrumented build failed:\n" + r.stdout[-3000:])
    open(hp, "w").write(h)
    return exe


def fired_site(stderr):
    """(file, func) of the diagnostic call that terminated the process, and the diagnostic text"""
    lines = stderr.splitlines()
    chain = []
    msg = []
    for ln in lines:
        if ln.startswith("@@SITE "):
            chain.append(tuple(ln.split()[1:3]))
        else:
            msg.append(ln)
    # walk back through the wrappers
    i = len(chain) - 1
    while i > 0 and chain[i] in (("token.c", "tokencheck"), ("pp.c", "expect")):
        i -= 1
    return (chain[i:] if chain else []), "\n".join(msg)


def fmt_regex(site):
    """regex for the diagnostic text produced by this site's format"""
    fmt = site[2]
    m = re.match(r"expected (\S+) (.*)$", fmt)
    call_expect = m is not None and (m.group(1).startswith("T") or m.group(1) == "kind")
    if call_expect:
        tail = m.group(2)
        if tail.startswith("<expr:"):
            return r"expected .*, saw "
        return r"expected .* " + re.escape(tail) + ", saw "
    if fmt.startswith("<expr:"):
        return "."
    out = []
    for part in re.split(r"(%%|%[-.*0-9]*(?:ll|l|z|h)?[a-zA-Z])", fmt):
        if part == "%%":
            out.append("%")
        elif part.startswith("%") and len(part) > 1:
            out.append(".*")
        else:
            out.append(re.escape(part))
    s = "".join(out)
    if s.endswith(":"):
        s += " "           # perror text follows
    return s


def main():
    ap = argparse.ArgumentParser()
    ap.add_argument("--repo", default="/repo")
    ap.add_argument("--work", default="/var/tmp/ag/c10/validate")
    ap.add_argument("--positions", action="store_true")
    ap.add_argument("--site", default=None)
    ap.add_argument("-v", action="store_true")
    ap.add_argument("files", nargs="+")
    a = ap.parse_args()
    work = a.work + "-%d" % os.getuid() if False else a.work
    os.makedirs(work, exist_ok=True)
    cc = build_instrumented(a.repo, work)
    sites = {(s["file"], s["func"], s["fmt"]) for s in gen_c10.extract(a.repo)}
    tmp = os.path.join(work, "t%d.c" % os.getpid())
    host = c10cat.Host(open(os.path.join(HERE, "c10_host.c")).read()) if a.positions else None
    bad = 0
    seen = set()
    ntempl = 0
    for fn in a.files:
        cat = c10cat.load(fn)
        for e in cat["entries"]:
            site = e["site"]
            ks = c10cat.key_str(site)
            if a.site and a.site not in ks:
                continue
            if site not in sites:
                print("STALE   %s: not a site of the current source" % ks)
                bad += 1
                continue
            if site in seen:
                print("DUP     %s" % ks)
                bad += 1
            seen.add(site)
            for n, t in enumerate(e.get("templates", [])):
                ntempl += 1
                tag = "%s #%d" % (ks, n)
                unit = c10cat.standalone(t)
                data = c10cat.text_of(t, unit)
                rc, err = c10cat.run_cproc_bytes(cc, data, tmp)
                fired, msg = fired_site(err)
                problems = []
                if rc == 0:
                    problems.append("ACCEPTED by cproc")
                else:
                    if rc != 1:
                        problems.append("exit status %d" % rc)
                    if not c10cat.diag_ok(t, msg):
                        problems.append("diagnostic shape (%s): %r" % (t.get("diag", "error"), msg[:100]))
                    if not re.search(t["msg"], msg):
                        problems.append("msg regex %r does not match %r" % (t["msg"], msg[:160]))
                    if not re.search(fmt_regex(site), msg):
                        problems.append("site format %r does not match %r" % (fmt_regex(site), msg[:160]))
                    if (site[0], site[1]) not in fired:
                        problems.append("fired at %s, not in %s:%s (%r)" % (fired, site[0], site[1], msg[:100]))
                orc = c10cat.oracle_rejects(data, tmp)
                rej = [c for c, (r, _) in orc.items() if r]
                if t.get("oracle", "gcc") == "gcc":
                    if not orc["gcc"][0] and not orc["clang"][0]:
                        problems.append("gcc and clang ACCEPT it (mark cproc-only with a reason, or fix)")
                elif t.get("oracle") == "cproc-only":
                    if not t.get("reason"):
                        problems.append("cproc-only without reason")
                    if len(rej) == 2:
                        problems.append("marked cproc-only but gcc and clang both reject (%s)" % orc["gcc"][1])
                else:
                    problems.append("unknown oracle %r" % t.get("oracle"))
                if a.positions and not problems:
                    rng = random.Random(1)
                    k = c10cat.KINDS[t["kind"]]
                    for pos in c10cat.POSITIONS[k]:
                        if pos in t.get("skip", {}):
                            continue
                        for rep in range(3):
                            inst = c10cat.instantiate(t, host, pos, rng)
                            if inst is None:
                                break
                            text, where = inst
                            rc2, err2 = c10cat.run_cproc_bytes(cc, c10cat.text_of(t, text), tmp)
                            _, msg2 = fired_site(err2)
                            if rc2 == 0:
                                problems.append("position %s (%s): ACCEPTED" % (pos, where))
                                break
                            if not c10cat.diag_ok(t, msg2):
                                problems.append("position %s: diagnostic shape %r" % (pos, msg2[:80]))
                                break
                if problems:
                    bad += 1
                    print("BAD     %s\n          %s\n          unit: %r" % (tag, "\n          ".join(problems), unit[:300]))
                elif a.v:
                    print("ok      %s   [gcc:%s clang:%s]" % (tag, orc["gcc"][0], orc["clang"][0]))
    try:
        os.unlink(tmp)
    except OSError:
        pass
    print("templates=%d entries=%d problems=%d" % (ntempl, len(seen), bad))
    sys.exit(1 if bad else 0)


if __name__ == "__main__":
    main()

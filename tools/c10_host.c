void out(long);
void outd(double);

struct S1 {
	short m2;
	unsigned long m3 : 61;
	char m4;
	int m5;
	_Bool m6[4];
};

char g7[3] = {(char)6};
static int g8[6] = {(-2147483647-1)};
struct S1 g9 = {.m2 = (short)3, .m3 = 17841880388872081916UL, .m4 = (char)(-31), .m5 = (-1), .m6 = {0, 1, 0, 1}};

static char f10(unsigned long long p11)
{
	if (((float)((((double)((((double)(p11))) - (((signed char)(g7[(8U) % 3U])))))) + (((unsigned short)((((short)8) >= (10355224891967635561UL)))))))) {
		out((long)(((unsigned char)(((int)((unsigned)(((unsigned short)(((((unsigned long)(g8[((unsigned)p11) % 6U]))) < (17172996922005391893UL))))) * (unsigned)(((((float)(((unsigned long)g9.m3)))) && (((unsigned long)(g9.m2)))))))))));
		g8[((unsigned)p11) % 6U] = (int)((unsigned)g8[((unsigned)p11) % 6U] * (unsigned)((((int)(g8[((unsigned)p11) % 6U]) == 0 || ((int)(((short)(((short)(-1)) ? ((short)(-32768)) : (((short)(p11)))))) == (-2147483647-1) && (int)(g8[((unsigned)p11) % 6U]) == -1)) ? (int)(((short)(((short)(-1)) ? ((short)(-32768)) : (((short)(p11)))))) : ((((short)(((short)(-1)) ? ((short)(-32768)) : (((short)(p11)))))) / (g8[((unsigned)p11) % 6U])))));
	}
	if (((unsigned)(p11))) {
		out((long)(((((float)((((float)(((unsigned long)g9.m3)))) / (((((short)(g7[((unsigned)p11) % 3U]))) > 0.001 || (((short)(g7[((unsigned)p11) % 3U]))) < -0.001) ? (((short)(g7[((unsigned)p11) % 3U]))) : 1)))) ? ((-2251077640543497202L)) : (((long long)((((long)(((int)(p11))) == 0 || ((long)(((long long)(p11))) == (-9223372036854775807L-1) && (long)(((int)(p11))) == -1)) ? (long)(((long long)(p11))) : ((((long long)(p11))) % (((int)(p11)))))))))));
		{ double o_ = (double)(((double)((((float)(((signed char)(g8[((unsigned)p11) % 6U]))))) - (((unsigned short)((!(((long)(g7[(((unsigned)p11 + 9U)) % 3U])))))))))); outd(o_ != o_ ? 0.0 : o_); }
		g9.m6[(((unsigned)p11 + 6U)) % 4U] = ((_Bool)((+(((unsigned long long)(g7[(((unsigned)p11 + 3U)) % 3U]))))));
	}
	p11 = ((unsigned long long)((((int)(((short)(((int)((unsigned)(((char)(p11))) * (unsigned)(((_Bool)(p11)))))))) == 0 || ((int)(((char)(((((long)(g9.m2))) >> (((char)(-122)) & 63))))) == (-2147483647-1) && (int)(((short)(((int)((unsigned)(((char)(p11))) * (unsigned)(((_Bool)(p11)))))))) == -1)) ? (int)(((char)(((((long)(g9.m2))) >> (((char)(-122)) & 63))))) : ((((char)(((((long)(g9.m2))) >> (((char)(-122)) & 63))))) / (((short)(((int)((unsigned)(((char)(p11))) * (unsigned)(((_Bool)(p11))))))))))));
	struct S1 v12 = {.m2 = g9.m2, .m3 = ((unsigned long)(((((short)(p11))) - (p11)))), .m5 = ((65535UL) < (((long)(g8[(((unsigned)p11 + 5U)) % 6U])))), .m6 = {((_Bool)(((unsigned long)g9.m3))), ((_Bool)(((((unsigned short)(((unsigned long)g9.m3)))) | (((signed char)(g7[((unsigned)p11) % 3U])))))), ((_Bool)(g7[(0U) % 3U])), ((_Bool)((((unsigned)(((unsigned)(g8[(5U) % 6U]))) == 0) ? (unsigned)(((unsigned short)(g8[(((unsigned)p11 + 3U)) % 6U]))) : ((((unsigned short)(g8[(((unsigned)p11 + 3U)) % 6U]))) % (((unsigned)(g8[(5U) % 6U])))))))}};
	short v13 = v12.m2;
	return ((char)((!(((long long)(g8[(((unsigned)p11 + 2U)) % 6U]))))));
}

static void f14(long p15, unsigned p16, unsigned p17)
{
	int v18 = ((int)((((unsigned long)(((unsigned short)(((((unsigned short)(p15))) || (((unsigned long long)(p16))))))) == 0) ? (unsigned long)(((unsigned long long)(((((double)(g7[(((unsigned)p15 + 6U)) % 3U]))) >= (((int)(p17))))))) : ((((unsigned long long)(((((double)(g7[(((unsigned)p15 + 6U)) % 3U]))) >= (((int)(p17))))))) / (((unsigned short)(((((unsigned short)(p15))) || (((unsigned long long)(p16)))))))))));
	unsigned short v19 = (unsigned short)40868;
	p16 ^= ((((unsigned long)(v18))) ? (((unsigned)(p15))) : (((p17) ? (((unsigned)(g9.m6[(0U) % 4U]))) : (((unsigned)(g8[(10U) % 6U]))))));
	float v20[5] = {((float)(((float)-3.25f) - (v19))), ((float)(v18)), ((float)(((int)(g7[(8U) % 3U])))), ((float)(((float)2.0f) / (((((float)(p16))) > 0.001 || (((float)(p16))) < -0.001) ? (((float)(p16))) : 1))), ((float)(((long)(v18))))};
}

int main(void)
{
	if ((-2043757422)) {
		out((long)(((((double)(((double)1.0) * (((unsigned)(g9.m5)))))) > -2147483000.0 && (((double)(((double)1.0) * (((unsigned)(g9.m5)))))) < 2147483000.0 ? (long long)(((double)(((double)1.0) * (((unsigned)(g9.m5)))))) : (long long)1)));
		out((long)(4U));
		unsigned long long v21 = ((unsigned long long)(((((((short)(g8[(9U) % 6U]))) ? (((unsigned)(g7[(5U) % 3U]))) : (((unsigned)(g9.m5))))) >= (((long)(((unsigned long)(g9.m2))))))));
	}
	g9.m4 >>= ((((int)(g7[(10U) % 3U]))) & 31);
	if (((short)((5601701447354007915UL) ? (((short)(((((signed char)(g8[(8U) % 6U]))) - (((unsigned)(g9.m5))))))) : (((short)(((((float)(g8[(10U) % 6U]))) && (((unsigned long)(((unsigned long)g9.m3))))))))))) {
		g7[(11U) % 3U] ^= ((char)(((((_Bool)((g8[(9U) % 6U]) ? (((_Bool)(g7[(4U) % 3U]))) : (0)))) == (((double)((((double)(g8[(12U) % 6U]))) / (((((short)(((unsigned long)g9.m3)))) > 0.001 || (((short)(((unsigned long)g9.m3)))) < -0.001) ? (((short)(((unsigned long)g9.m3)))) : 1)))))));
		out((long)(((unsigned long)(((((float)(((unsigned long long)(g9.m4))))) < (((unsigned)(g8[(7U) % 6U]))))))));
	}
	g7[(7U) % 3U] = (char)f10(((unsigned long long)(g7[(10U) % 3U])));
	f14((((-(((float)(g7[(7U) % 3U]))))) > -2147483000.0 && ((-(((float)(g7[(7U) % 3U]))))) < 2147483000.0 ? (long)((-(((float)(g7[(7U) % 3U]))))) : (long)1), (((unsigned char)0) ? (((unsigned)(g9.m4))) : (((unsigned)(g9.m2)))), (((float)-3.25f) > 0.0 && ((float)-3.25f) < 2147483000.0 ? (unsigned)((float)-3.25f) : (unsigned)1));
	return (int)((((unsigned)((((unsigned char)0) >> ((((int)(g9.m6[(0U) % 4U]))) & 31))))) & 63);
}

#!/usr/bin/env python3
"""Translator: regenerate lean/CprocVerif/Gen/*.lean from /repo's current sources.

usage: gen_tables.py <repo> <gen-dir>

Each table family lives in its own plugin `tools/gen_<name>.py` exposing
`generate(repo: str, gendir: str) -> list[str]` (names of the files it wrote).  Output is
deterministic and a file is rewritten only when its content changes, so `lake` rebuilds the
dependent proofs exactly when the C source changed.  A table that cannot be found or parsed
is an error (exit 1): the tie to the source is then broken and the check says so.
"""
import glob
import importlib.util
import os
import sys


def write_if_changed(path, text):
    old = open(path).read() if os.path.exists(path) else None
    if old != text:
        os.makedirs(os.path.dirname(path), exist_ok=True)
        tmp = path + ".tmp%d" % os.getpid()
        open(tmp, "w").write(text)
        os.replace(tmp, path)
        return True
    return False


def main():
    repo, gendir = sys.argv[1], sys.argv[2]
    here = os.path.dirname(os.path.abspath(__file__))
    only = sys.argv[3:]  # optional plugin names
    rc = 0
    for p in sorted(glob.glob(os.path.join(here, "gen_*.py"))):
        name = os.path.basename(p)[:-3]
        if name == "gen_tables" or (only and name not in only):
            continue
        spec = importlib.util.spec_from_file_location(name, p)
        mod = importlib.util.module_from_spec(spec)
        spec.loader.exec_module(mod)
        try:
            files = mod.generate(repo, gendir)
            print("%s: %s" % (name, ", ".join(files)))
        except Exception as e:  # noqa
            print("%s: ERROR %s" % (name, e))
            rc = 1
    sys.exit(rc)


if __name__ == "__main__":
    main()

#!/usr/bin/env python3
"""tools/seedsave.py <seedwork-dir> <seed-id> <caught_by comma list or NONE> <caught_how>  -- archive a confirmed seeded change under /verif/seeded/<seed-id>/"""
import json, os, shutil, sys
root = os.path.dirname(os.path.dirname(os.path.abspath(__file__)))
sw, sid, caught, how = sys.argv[1:5]
dst = os.path.join(root, "seeded", sid)
shutil.rmtree(dst, ignore_errors=True)
os.makedirs(dst)
shutil.copy(os.path.join(sw, "patch.diff"), dst)
shutil.copytree(os.path.join(sw, "demo"), os.path.join(dst, "demo"))
m = json.load(open(os.path.join(sw, "meta.json")))
m["caught_by"] = [] if caught == "NONE" else caught.split(",")
m["caught_how"] = how
m["confirmed"] = ("patched copy of /repo HEAD builds; 170/170 tests pass with the patch; demo/run.sh exits 0 on the pristine tree and 1 "
                  "on the patched tree; checks run with CPROC_REPO=<patched copy> bin/check CNN --tier quick (tools/seedtest.sh)")
json.dump(m, open(os.path.join(dst, "meta.json"), "w"), indent=1)
print("saved", dst)

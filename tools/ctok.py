"""A small C tokenizer and initializer parser shared by the gen_*.py translator plugins.

Not a C parser: just enough structure (tokens, balanced brackets, designated initializers,
function bodies, object-like/function-like macro definitions) to pull *tables* out of /repo's
sources without depending on line layout.  Comments, string and character literals, line
continuations and preprocessor directives are handled, so reformatting the C does not break
the extraction; an unexpected shape raises TableError with a message naming what was sought.
"""
import re


class TableError(Exception):
    pass


class Tok:
    __slots__ = ("kind", "text", "line", "pos")

    def __init__(self, kind, text, line, pos=-1):
        self.kind = kind      # 'id' 'num' 'str' 'chr' 'punct'
        self.text = text
        self.line = line
        self.pos = pos        # offset in the line-spliced text (adjacency test for macros)

    def __repr__(self):
        return "%s:%r@%d" % (self.kind, self.text, self.line)


PUNCT = ["...", "<<=", ">>=", "->", "++", "--", "<<", ">>", "<=", ">=", "==", "!=", "&&", "||",
         "+=", "-=", "*=", "/=", "%=", "&=", "^=", "|=", "##"]
_ID = re.compile(r"[A-Za-z_][A-Za-z0-9_]*")
_NUM = re.compile(r"\.?[0-9](?:[eEpP][+-]|[0-9A-Za-z_.])*")


def _splice(text):
    """Remove backslash-newline pairs, remembering original line numbers per character."""
    out = []
    lines = []
    line = 1
    i = 0
    n = len(text)
    while i < n:
        c = text[i]
        if c == "\\" and i + 1 < n and text[i + 1] == "\n":
            i += 2
            line += 1
            continue
        if c == "\\" and text[i + 1:i + 3] == "\r\n":
            i += 3
            line += 1
            continue
        out.append(c)
        lines.append(line)
        if c == "\n":
            line += 1
        i += 1
    return "".join(out), lines


def tokenize(text):
    """Returns (tokens, directives).  `tokens` excludes preprocessor directive lines;
    `directives` is a list of token lists (one per '#' line, without the '#')."""
    s, lines = _splice(text)
    toks, directives = [], []
    i, n = 0, len(s)
    bol = True
    cur = toks
    in_directive = False
    while i < n:
        c = s[i]
        if c == "\n":
            if in_directive:
                in_directive = False
                cur = toks
            bol = True
            i += 1
            continue
        if c in " \t\r\f\v":
            i += 1
            continue
        if s.startswith("/*", i):
            j = s.find("*/", i + 2)
            if j < 0:
                raise TableError("unterminated comment at line %d" % lines[i])
            i = j + 2
            continue
        if s.startswith("//", i):
            j = s.find("\n", i)
            i = n if j < 0 else j
            continue
        if c == "#" and bol:
            in_directive = True
            cur = []
            directives.append(cur)
            bol = False
            i += 1
            continue
        bol = False
        ln = lines[i]
        if c == '"' or c == "'" or (c in "LuU" and re.match(r"(?:u8|[LuU])?[\"']", s[i:i + 3])):
            j = i
            while s[j] not in "\"'":
                j += 1
            q = s[j]
            k = j + 1
            while k < n and s[k] != q:
                if s[k] == "\\":
                    k += 1
                if k < n and s[k] == "\n":
                    raise TableError("unterminated literal at line %d" % ln)
                k += 1
            if k >= n:
                raise TableError("unterminated literal at line %d" % ln)
            cur.append(Tok("str" if q == '"' else "chr", s[i:k + 1], ln, i))
            i = k + 1
            continue
        m = _ID.match(s, i)
        if m:
            cur.append(Tok("id", m.group(0), ln, i))
            i = m.end()
            continue
        m = _NUM.match(s, i)
        if m:
            cur.append(Tok("num", m.group(0), ln, i))
            i = m.end()
            continue
        for p in PUNCT:
            if s.startswith(p, i):
                cur.append(Tok("punct", p, ln, i))
                i += len(p)
                break
        else:
            cur.append(Tok("punct", c, ln, i))
            i += 1
    return toks, directives


def read_tokens(path):
    try:
        text = open(path, encoding="utf-8", errors="replace").read()
    except OSError as e:
        raise TableError("cannot read %s: %s" % (path, e))
    return tokenize(text)


OPEN = {"(": ")", "[": "]", "{": "}"}


def match_close(toks, i):
    """toks[i] is an opening bracket; return index of its matching closer."""
    stack = []
    j = i
    while j < len(toks):
        t = toks[j].text if toks[j].kind == "punct" else None
        if t in OPEN:
            stack.append(OPEN[t])
        elif t in (")", "]", "}"):
            if not stack or stack.pop() != t:
                raise TableError("unbalanced bracket at line %d" % toks[j].line)
            if not stack:
                return j
        j += 1
    raise TableError("unbalanced bracket opened at line %d" % toks[i].line)


def split_commas(toks):
    """Split a token list on top-level commas (a trailing comma gives no empty last part)."""
    parts, cur = [], []
    depth = 0
    for t in toks:
        x = t.text if t.kind == "punct" else None
        if x in OPEN:
            depth += 1
        elif x in (")", "]", "}"):
            depth -= 1
        if x == "," and depth == 0:
            parts.append(cur)
            cur = []
        else:
            cur.append(t)
    if cur:
        parts.append(cur)
    return parts


def texts(toks):
    return [t.text for t in toks]


def find_seq(toks, seq, start=0):
    """Index of the first occurrence of the token texts `seq` (None entries are wildcards)."""
    n = len(seq)
    for i in range(start, len(toks) - n + 1):
        if all(s is None or toks[i + k].text == s for k, s in enumerate(seq)):
            return i
    return -1


def function_body(toks, name, what):
    """Tokens of the body (between the braces) of the function definition `name`."""
    i = 0
    while True:
        i = find_seq(toks, [name, "("], i)
        if i < 0:
            raise TableError("%s: definition of function %s() not found" % (what, name))
        j = match_close(toks, i + 1)
        if j + 1 < len(toks) and toks[j + 1].text == "{":
            k = match_close(toks, j + 1)
            return toks[j + 2:k]
        i = j


def macros(directives):
    """{name: (params or None, body tokens)} for every #define."""
    out = {}
    for d in directives:
        if len(d) >= 2 and d[0].text == "define" and d[1].kind == "id":
            name = d[1].text
            # function-like iff '(' follows the name immediately (no white space)
            if len(d) > 2 and d[2].text == "(" and d[2].pos == d[1].pos + len(d[1].text):
                try:
                    j = match_close(d, 2)
                except TableError:
                    j = -1
                inner = d[3:j] if j > 0 else []
                ids = [p for p in split_commas(inner)]
                if j > 0 and all(len(p) == 1 and p[0].kind == "id" for p in ids):
                    out[name] = ([p[0].text for p in ids], d[j + 1:])
                    continue
            out[name] = (None, d[2:])
    return out


def substitute(body, params, args):
    """Replace parameter identifiers in `body` by the argument token lists."""
    env = dict(zip(params, args))
    out = []
    for t in body:
        if t.kind == "id" and t.text in env:
            out.extend(env[t.text])
        else:
            out.append(t)
    return out


def parse_initializer(toks, what):
    """Parse `{ ... }` (toks[0] must be '{', the list must end at its matching '}').
    Returns a list of (designator or None, value); designator is a string like 'u.basic.issigned'
    or '[3]'; value is either a nested list (for braces, also for compound literals, where
    the key '__type__' holds the type name tokens and '__addr__' whether '&' preceded) or a token list."""
    if not toks or toks[0].text != "{":
        raise TableError("%s: expected '{' at line %s" % (what, toks[0].line if toks else "?"))
    end = match_close(toks, 0)
    if end != len(toks) - 1:
        raise TableError("%s: trailing tokens after initializer at line %d" % (what, toks[end].line))
    items = []
    for part in split_commas(toks[1:end]):
        desig = None
        k = 0
        if part and part[0].text in (".", "["):
            d = []
            while k < len(part) and part[k].text != "=":
                d.append(part[k].text)
                k += 1
            if k == len(part):
                raise TableError("%s: designator without '=' at line %d" % (what, part[0].line))
            desig = "".join(d).lstrip(".")
            k += 1
        val = part[k:]
        items.append((desig, parse_value(val, what)))
    return items


def parse_value(val, what):
    if not val:
        raise TableError("%s: empty initializer value" % what)
    addr = False
    v = val
    if v[0].text == "&":
        addr = True
        v = v[1:]
    if v and v[0].text == "{":
        return {"__brace__": parse_initializer(v, what)}
    if v and v[0].text == "(":
        j = match_close(v, 0)
        if j + 1 < len(v) and v[j + 1].text == "{":
            return {"__type__": texts(v[1:j]), "__addr__": addr,
                    "__brace__": parse_initializer(v[j + 1:], what)}
    return val


def const_int(toks, env=None, what="constant"):
    """Evaluate a tiny constant expression: integer literals, true/false, identifiers in env,
    unary !/-, binary | + - * << with usual precedence ignored (left to right, parenthesised
    sub-expressions allowed).  Enough for table cells; anything else is an error."""
    env = env or {}
    pos = 0

    def atom():
        nonlocal pos
        if pos >= len(toks):
            raise TableError("%s: truncated expression" % what)
        t = toks[pos]
        pos += 1
        if t.text == "(":
            v = expr()
            if pos >= len(toks) or toks[pos].text != ")":
                raise TableError("%s: expected ')' at line %d" % (what, t.line))
            pos += 1
            return v
        if t.text == "!":
            return int(not atom())
        if t.text == "-":
            return -atom()
        if t.kind == "num":
            s = t.text.rstrip("uUlL")
            try:
                return int(s, 0) if not (len(s) > 1 and s[0] == "0" and s[1].isdigit()) else int(s, 8)
            except ValueError:
                raise TableError("%s: bad number %r at line %d" % (what, t.text, t.line))
        if t.kind == "id":
            if t.text == "true":
                return 1
            if t.text == "false":
                return 0
            if t.text in env:
                return env[t.text]
        raise TableError("%s: cannot evaluate %r at line %d" % (what, t.text, t.line))

    def expr():
        nonlocal pos
        v = atom()
        while pos < len(toks) and toks[pos].text in ("|", "+", "-", "*", "<<"):
            op = toks[pos].text
            pos += 1
            w = atom()
            v = {"|": v | w, "+": v + w, "-": v - w, "*": v * w, "<<": v << w}[op]
        return v
    v = expr()
    if pos != len(toks):
        raise TableError("%s: unexpected %r at line %d" % (what, toks[pos].text, toks[pos].line))
    return v


def c_string(tok, what="string"):
    """Value of a simple C string literal token (no prefix; escapes \\\\ \\" \\n \\t \\0 only)."""
    s = tok.text
    if tok.kind != "str" or not s.startswith('"'):
        raise TableError("%s: expected a plain string literal, got %r at line %d" % (what, s, tok.line))
    body = s[1:-1]
    out = []
    i = 0
    while i < len(body):
        if body[i] == "\\":
            i += 1
            m = {"\\": "\\", '"': '"', "n": "\n", "t": "\t", "0": "\0"}.get(body[i])
            if m is None:
                raise TableError("%s: unsupported escape in %r" % (what, s))
            out.append(m)
        else:
            out.append(body[i])
        i += 1
    return "".join(out)


def lean_str(s):
    return '"' + s.replace("\\", "\\\\").replace('"', '\\"').replace("\n", "\\n").replace("\t", "\\t") + '"'


def write_if_changed(path, text):
    """Write `text` to `path` only when the content differs (keeps lake's mtime-based rebuilds quiet)."""
    import os
    old = None
    if os.path.exists(path):
        with open(path, encoding="utf-8") as f:
            old = f.read()
    if old != text:
        os.makedirs(os.path.dirname(path), exist_ok=True)
        tmp = path + ".tmp%d" % os.getpid()
        with open(tmp, "w", encoding="utf-8") as f:
            f.write(text)
        os.replace(tmp, path)
        return True
    return False

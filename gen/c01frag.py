#!/usr/bin/env python3
"""C01 / fragment F1 — generator of random well-typed pure integer expression functions.

Each generated function comes as
  * C text of one function definition (one line),
  * the S-expression of cproc's TYPED TREE AFTER PARSING that `drv_c01 emit|eval` reads
    (syntax: see the head of lean/Drv/C01.lean).  The tree is computed by a Python transliteration of
    expr.c (`mkbinaryexpr`, `unaryexpr`, `condexpr`, `exprconvert`, `typepromote`, `typecommonreal`,
    `inttype`) and of eval.c (the `eval()` that `condexpr` applies to the condition of `?:` - a constant
    condition selects its operand at parse time unless that operand is an lvalue -,
    including its operand swap for `+`), so that it is the tree `funcexpr` sees,
  * the function name,
  * a few argument tuples (C values, boundary values included) for `drv_c01 eval`.

API
    gen(seed, charsigned, n)  -> list of (c_text, sexpr, func_name, args_samples)
    gen2(seed, charsigned, n) -> the same for fragment F2 (function bodies with statements; see below),
                                 with the statement-kind histogram as a fifth component
    alpha(text)               -> text with temporaries/labels renamed by first occurrence
    split_funcs(cproc_stdout) -> list of per-function texts ("export\nfunction ... }\n")
    ret_type_of(sexpr), ret_matches(ret_ty, c_value, il_ret_value)
                              -> compare `c=` and `il=ret N` printed by `drv_c01 eval`

Numbering.  `drv_c01 [--start N] emit` numbers blocks like ONE translation unit: the counter of
`mkblock` starts at N (default 0) for the first input line and runs on from line to line; temporaries
restart at 1 in every function.  Hence: put the generated functions, in order and with nothing else that
creates blocks, into one C file, feed the S-expressions in the same order to one `drv_c01 emit` run, and
the texts are byte-identical (`split_funcs(real)[i] == model_stdout.split('--\n')[i]`).  If functions
are compiled separately or mixed with other code, compare `alpha()` of both sides instead.

`charsigned`: signedness of plain char: True for -t x86_64-sysv, False for aarch64 / riscv64
(pass `--cs 1|0` to drv_c01 accordingly).  Stdlib only; deterministic per (seed, charsigned, n).
"""
import random, re

TYS = ['b', 'c', 'sc', 'uc', 's', 'us', 'i', 'u', 'l', 'ul', 'll', 'ull']
CNAME = {'b': '_Bool', 'c': 'char', 'sc': 'signed char', 'uc': 'unsigned char', 's': 'short',
         'us': 'unsigned short', 'i': 'int', 'u': 'unsigned', 'l': 'long', 'ul': 'unsigned long',
         'll': 'long long', 'ull': 'unsigned long long'}
SIZE = {'b': 1, 'c': 1, 'sc': 1, 'uc': 1, 's': 2, 'us': 2, 'i': 4, 'u': 4, 'l': 8, 'ul': 8, 'll': 8, 'ull': 8}
RANK = {'b': 1, 'c': 2, 'sc': 2, 'uc': 2, 's': 3, 'us': 3, 'i': 4, 'u': 4, 'l': 5, 'ul': 5, 'll': 6, 'ull': 6}
M64 = (1 << 64) - 1
CS = True


def signed(t):
    if t == 'c':
        return CS
    return t in ('sc', 's', 'i', 'l', 'll')


def promote(t):
    if RANK[t] <= 4:
        w = SIZE[t] * 8
        return 'i' if w - (1 if signed(t) else 0) < 32 else 'u'
    return t


def commonreal_t(t1, t2):
    t1, t2 = promote(t1), promote(t2)
    if t1 == t2:
        return t1
    if signed(t1) == signed(t2):
        return t1 if RANK[t1] > RANK[t2] else t2
    if signed(t1):
        t1, t2 = t2, t1
    if RANK[t1] >= RANK[t2]:
        return t1
    if SIZE[t1] < SIZE[t2]:
        return t2
    return {'l': 'ul', 'll': 'ull'}[t2]


# typed tree nodes: ('c',t,u) ('p',t,i) ('cast',t,e) ('neg',t,e) (op,t,l,r) ('cond',t,c,a,b)
def ty(e):
    return e[1]


def conv(e, t):
    return e if ty(e) == t else ('cast', t, e)


def inttype(val, decimal, suffix):
    limits = ['i', 'u', 'l', 'ul', 'll', 'ull']
    sfx = {'': 0, 'u': 1, 'l': 2, 'ul': 3, 'lu': 3, 'll': 4, 'ull': 5, 'llu': 5}
    i = sfx[suffix.lower()]
    step = 2 if (i % 2 or decimal) else 1
    while i < 6:
        t = limits[i]
        bits = SIZE[t] * 8 - (1 if signed(t) else 0)
        if val < (1 << bits):
            return t
        i += step
    raise ValueError('no type')


ARITH = ['mul', 'div', 'mod', 'add', 'sub', 'and', 'or', 'xor']
CMP = ['lt', 'gt', 'le', 'ge', 'eq', 'ne']
CSYM = {'mul': '*', 'div': '/', 'mod': '%', 'add': '+', 'sub': '-', 'and': '&', 'or': '|', 'xor': '^',
        'lt': '<', 'gt': '>', 'le': '<=', 'ge': '>=', 'eq': '==', 'ne': '!=', 'shl': '<<', 'shr': '>>',
        'lor': '||', 'land': '&&'}


def mkbinary(op, l, r):
    if op in ('lor', 'land'):
        return (op, 'i', l, r)
    if op in CMP:
        t = commonreal_t(ty(l), ty(r))
        return (op, 'i', conv(l, t), conv(r, t))
    if op in ('shl', 'shr'):
        l = conv(l, promote(ty(l)))
        r = conv(r, promote(ty(r)))
        return (op, ty(l), l, r)
    t = commonreal_t(ty(l), ty(r))
    return (op, t, conv(l, t), conv(r, t))


def castval(t, u):
    size = SIZE[t]
    u &= (1 << (size * 8)) - 1
    if signed(t):
        m = 1 << (size * 8 - 1)
        u = ((u ^ m) - m) & M64
    return u


def s64(u):
    return u - (1 << 64) if u >> 63 else u


def tdiv(a, b):
    q = abs(a) // abs(b)
    return q if (a < 0) == (b < 0) else -q


def evalbin(op, t, l, r):
    """eval.c:binary on constants l, r (nodes), result type t"""
    lu, ru = l[2], r[2]
    sg = signed(ty(l))
    li, ri = s64(lu), s64(ru)
    if op == 'mul': u = lu * ru
    elif op == 'div': u = tdiv(li, ri) if sg else lu // ru
    elif op == 'mod': u = (li - tdiv(li, ri) * ri) if sg else lu % ru
    elif op == 'add': u = lu + ru
    elif op == 'sub': u = lu - ru
    elif op == 'shl': u = lu << (ru & 63)
    elif op == 'shr': u = (li >> (ru & 63)) if sg else (lu >> (ru & 63))
    elif op == 'and': u = lu & ru
    elif op == 'or': u = lu | ru
    elif op == 'xor': u = lu ^ ru
    elif op == 'lt': u = int(li < ri) if sg else int(lu < ru)
    elif op == 'gt': u = int(li > ri) if sg else int(lu > ru)
    elif op == 'le': u = int(li <= ri) if sg else int(lu <= ru)
    elif op == 'ge': u = int(li >= ri) if sg else int(lu >= ru)
    elif op == 'eq': u = int(lu == ru)
    elif op == 'ne': u = int(lu != ru)
    else: raise ValueError(op)
    return ('c', t, castval(t, u & M64))


def ceval(e):
    """eval.c:eval on the typed tree"""
    k = e[0]
    if k in ('c', 'p', 'cond', 'idx', 'calle', 'comma'):      # eval.c has no case for EXPRCOMMA
        return e
    if k == 'neg':
        l = ceval(e[2])
        if l[0] != 'c':
            return ('neg', e[1], l)   # note: eval does not store l back for unary, but l is folded in place
        return ('c', e[1], castval(e[1], (-l[2]) & M64))
    if k == 'cast':
        l = ceval(e[2])
        if l[0] == 'c':
            if e[1] == 'b':
                return ('c', 'b', castval('b', int(l[2] != 0)))
            return ('c', e[1], castval(e[1], l[2]))
        return ('cast', e[1], l)
    op, t = e[0], e[1]
    l = ceval(e[2])
    r = ceval(e[3])
    isbin = lambda x: x[0] not in ('c', 'p', 'cond', 'neg', 'cast', 'idx', 'calle', 'comma')
    if op == 'add':
        if isbin(r):
            l, r = r, l
        if r[0] != 'c':
            return (op, t, l, r)
        if l[0] == 'c':
            return evalbin(op, t, l, r)
        return (op, t, l, r)
    if op == 'sub':
        if r[0] != 'c':
            return (op, t, l, r)
        if l[0] == 'c':
            return evalbin(op, t, l, r)
        return (op, t, l, r)
    if op in ('lor', 'land'):
        if l[0] != 'c':
            return (op, t, l, r)
        c = l
        if (l[2] != 0) != (op == 'lor'):
            if r[0] != 'c':
                return (op, t, l, r)
            c = r
        return ('c', t, int(c[2] != 0))
    if op in ('div', 'mod'):
        if l[0] != 'c' or r[0] != 'c':
            return (op, t, l, r)
        if r[2] == 0 or (signed(ty(l)) and s64(r[2]) == -1 and s64(l[2]) == -(1 << 63)):
            return (op, t, l, r)
        return evalbin(op, t, l, r)
    if l[0] != 'c' or r[0] != 'c':
        return (op, t, l, r)
    return evalbin(op, t, l, r)


# ---- source trees ----
# ('K', val, text)  ('P', i)  ('C', t, e)  ('U', op, e)  ('B', op, l, r)  ('Q', c, a, b)

class Gen:
    def __init__(self, rng, ptys, allow_cond=True, allow_logic=True):
        self.rng = rng
        self.ptys = ptys
        self.allow_cond = allow_cond
        self.allow_logic = allow_logic
        self.vars = None          # F2: indices of the variables an expression may read
        self.impure = []          # F2: thunks giving an array read ('I', ...) or a call ('F', ...) as a leaf

    def const(self):
        r = self.rng
        v = r.choice([0, 1, 2, 3, 5, 7, 31, 32, 63, 64, 127, 128, 255, 256, 32767, 32768, 65535, 65536,
                      2147483647, 2147483648, 4294967295, 4294967296, 9223372036854775807,
                      9223372036854775808, 18446744073709551615, r.randrange(1 << 8),
                      r.randrange(1 << 16), r.randrange(1 << 32), r.randrange(1 << 64)])
        hexa = r.random() < 0.3
        sfxs = ['', 'u', 'l', 'ul', 'll', 'ull', 'U', 'L', 'LL', 'lu', 'LLU']
        r.shuffle(sfxs)
        for s in sfxs:
            try:
                inttype(v, not hexa, s)
            except ValueError:
                continue
            return ('K', v, (hex(v) if hexa else str(v)) + s, not hexa, s)
        return ('K', 1, '1', True, '')

    def expr(self, d):
        r = self.rng
        if self.impure and r.random() < (0.30 if d <= 0 else 0.12):
            return r.choice(self.impure)()
        if d <= 0 or r.random() < 0.15:
            if self.vars is not None:
                if self.vars and r.random() < 0.7:
                    return ('P', r.choice(self.vars))
                return self.const()
            if self.ptys and r.random() < 0.7:
                return ('P', r.randrange(len(self.ptys)))
            return self.const()
        x = r.random()
        if x < 0.15:
            return ('C', r.choice(TYS), self.expr(d - 1))
        if x < 0.30:
            return ('U', r.choice(['-', '+', '~', '!']), self.expr(d - 1))
        if x < 0.40 and self.allow_cond:
            # condexpr folds its condition with eval(): an array read there would get a folded address, which the
            # model of the statements does not describe - no array read inside the condition of ?:
            saved = self.impure
            self.impure = [f for f in saved if not getattr(f, 'isidx', False)]
            try:
                c = self.expr(d - 1)
            finally:
                self.impure = saved
            return ('Q', c, self.expr(d - 1), self.expr(d - 1))
        if x < 0.50 and self.allow_logic:
            return ('B', r.choice(['lor', 'land']), self.expr(d - 1), self.expr(d - 1))
        if x < 0.62:
            return ('B', r.choice(['shl', 'shr']), self.expr(d - 1), self.expr(d - 1))
        if x < 0.75:
            return ('B', r.choice(CMP), self.expr(d - 1), self.expr(d - 1))
        return ('B', r.choice(ARITH), self.expr(d - 1), self.expr(d - 1))


def ctext(e):
    k = e[0]
    if k == 'K': return e[2]
    if k == 'P': return 'p%d' % e[1]
    if k == 'C': return '((%s)%s)' % (CNAME[e[1]], ctext(e[2]))
    if k == 'U': return '(%s %s)' % (e[1], ctext(e[2]))
    if k == 'B': return '(%s %s %s)' % (ctext(e[2]), CSYM[e[1]], ctext(e[3]))
    if k == 'Q': return '(%s ? %s : %s)' % (ctext(e[1]), ctext(e[2]), ctext(e[3]))
    if k == 'I': return 'p%d[%s]' % (e[1], ctext(e[2]))
    if k == 'F': return '%s(%s)' % (e[1], ', '.join(ctext(a) for a in e[4]))
    if k == 'M': return '(%s , %s)' % (ctext(e[1]), ctext(e[2]))
    raise ValueError(k)


def parse(e, ptys):
    """the typed tree expr.c builds"""
    k = e[0]
    if k == 'K':
        return ('c', inttype(e[1], e[3], e[4]), e[1])
    if k == 'P':
        return ('p', ptys[e[1]], e[1])
    if k == 'C':
        return ('cast', e[1], parse(e[2], ptys))
    if k == 'U':
        x = parse(e[2], ptys)
        if e[1] == '+':
            return conv(x, promote(ty(x)))
        if e[1] == '-':
            x = conv(x, promote(ty(x)))
            return ('neg', ty(x), x)
        if e[1] == '~':
            x = conv(x, promote(ty(x)))
            return mkbinary('xor', x, ('c', ty(x), M64))
        if e[1] == '!':
            return mkbinary('eq', x, ('c', 'i', 0))
    if k == 'B':
        l = parse(e[2], ptys)
        r = parse(e[3], ptys)
        return mkbinary(e[1], l, r)
    if k == 'Q':
        c = parse(e[1], ptys)
        l = parse(e[2], ptys)
        r = parse(e[3], ptys)
        t = commonreal_t(ty(l), ty(r))
        l, r = conv(l, t), conv(r, t)
        c = ceval(c)
        if c[0] == 'c':
            # constant condition: the selected operand itself - unless it is an lvalue (an identifier of exactly
            # the result type; a cast is not an lvalue): then the EXPRCOND node is built, with the folded
            # constant as its condition (expr.c condexpr: "the result of a conditional expression is not an lvalue")
            sel = conv(l if c[2] != 0 else r, t)
            if sel[0] not in ('p', 'idx'):      # `a[i]` is an lvalue too
                return sel
        return ('cond', t, c, l, r)
    if k == 'I':
        # ('I', k, idxsrc, t, n): `a[i]` = *(a + (unsigned long)i * sizeof *a); the model rebuilds the address
        return ('idx', e[3], e[1], e[4], parse(e[2], ptys))
    if k == 'M':
        # EXPRCOMMA: the operands in order, type of the last
        a = parse(e[1], ptys)
        b = parse(e[2], ptys)
        return ('comma', ty(b), a, b)
    if k == 'F':
        # ('F', name, ret, ptys, argsrcs): EXPRCALL, arguments converted to the parameter types (exprassign)
        return ('calle', e[2], e[1], [conv(parse(a, ptys), pt) for a, pt in zip(e[4], e[3])])
    raise ValueError(k)


def sx(e):
    k = e[0]
    if k == 'c': return '(c %s %d)' % (e[1], e[2])
    if k == 'p': return '(p %s %d)' % (e[1], e[2])
    if k == 'cast': return '(cast %s %s)' % (e[1], sx(e[2]))
    if k == 'neg': return '(neg %s %s)' % (e[1], sx(e[2]))
    if k == 'cond': return '(cond %s %s %s %s)' % (e[1], sx(e[2]), sx(e[3]), sx(e[4]))
    if k == 'idx': return '(idx %s %d %d %s)' % (e[1], e[2], e[3], sx(e[4]))
    if k == 'calle': return '(calle %s %s%s)' % (e[1], e[2], ''.join(' ' + sx(a) for a in e[3]))
    return '(%s %s %s %s)' % (e[0], e[1], sx(e[2]), sx(e[3]))




def _range(t):
    if t == 'b':
        return 0, 1
    bits = SIZE[t] * 8
    if signed(t):
        return -(1 << (bits - 1)), (1 << (bits - 1)) - 1
    return 0, (1 << bits) - 1


def _args(rng, ptys, k):
    out = []
    for _ in range(k):
        a = []
        for t in ptys:
            lo, hi = _range(t)
            a.append(rng.choice([lo, hi, 0, 1, min(hi, 2), max(lo, -1), min(lo + 1, hi), max(hi - 1, lo),
                                 rng.randint(lo, hi), rng.randint(max(lo, -70), min(hi, 70))]))
        out.append(tuple(a))
    return out


def gen(seed, charsigned, n, nargs=4, prefix='f'):
    """n functions; see module docstring."""
    global CS
    CS = bool(charsigned)
    rng = random.Random((int(seed) << 1) | (1 if charsigned else 0))
    res = []
    for idx in range(n):
        depth = rng.randrange(1, 6)
        np_ = rng.randrange(0, 4)
        ptys = [rng.choice(TYS) for _ in range(np_)]
        ret = rng.choice(TYS)
        src = Gen(rng, ptys).expr(depth)
        tree = conv(parse(src, ptys), ret)     # `return e;` : exprassign to the return type
        name = '%s%d' % (prefix, idx)
        params = ', '.join('%s p%d' % (CNAME[t], i) for i, t in enumerate(ptys)) or 'void'
        c = '%s %s(%s) { return %s; }' % (CNAME[ret], name, params, ctext(src))
        s = '(fn %s %s (%s) %s)' % (name, ret, ' '.join(ptys), sx(tree))
        res.append((c, s, name, _args(rng, ptys, nargs)))
    return res


# ---------------------------------------------------------------------------------------- fragment F2
# Function bodies with statements (lean/CprocVerif/Model/CSem2.lean, Model/Lower2.lean; S-expression syntax at
# the head of lean/Drv/C01.lean).  Variable k is called `p<k>` in the C text: parameters 0..n-1, then the
# block-scope objects in the order of their declarations (every declaration is a new variable).
# Typed tree of the statements, as stmt.c / decl.c / expr.c build it:
#   `T x = e;`  (decl k T conv(e,T))            parseinit -> exprassign
#   `x = e;`    (set k T conv(e,T))             mkassignexpr -> exprconvert
#   `x op= e;`  (set k T conv(mkbinary(op, x, e), T))   assignexpr: tmp = &x, *tmp = *tmp op e; for an identifier
#                                               the lowering of &x / *tmp is the slot of x itself
#   `x++; ++x;` (inc k T)   `x--; --x;` (dec k T)        EXPRINCDEC, value unused
#   `return e;` (ret conv(e,RET))               exprassign to the return type
#   `for (init; c; step) body`  (for INIT COND STEP BODY), a missing clause is (skip) / (none)
STMT_KINDS = ['decl', 'decl-init', 'set', 'opset', 'inc', 'dec', 'expr', 'ret', 'block', 'if', 'ifelse', 'while',
              'do', 'for', 'break', 'continue', 'skip', 'switch', 'case', 'default', 'call', 'adecl', 'aload', 'astore', 'idx-expr', 'call-expr', 'pload', 'callp', 'ainit', 'sizeof', 'comma']
OPSET = ['mul', 'div', 'mod', 'add', 'sub', 'shl', 'shr', 'and', 'or', 'xor']
# which jump statements may be generated: 0 none, 1 in a loop, 2 in a switch outside any loop (the `continue` of a
# switch inside a loop belongs to the loop), 3 in a switch inside a loop
JUMPS = {1: ['break', 'continue'], 2: ['break'], 3: ['break', 'continue']}
CASEVALS = [0, 1, 2, 3, 4, 5, 7, 8, 10, 31, 64, 100, 127, 128, 255, 256, 1000, 32767, 65535, 65536, 2147483647, 2147483648,
            4294967295, 4294967296, 9223372036854775807, -1, -2, -3, -5, -128, -32768, -2147483648]


def casekey(t, u):
    """qbe.c switchcase: the constant converted to the promoted controlling type, as a 64-bit number"""
    size = SIZE[t]
    if size < 8:
        u &= (1 << (size * 8)) - 1
        if signed(t):
            m = 1 << (size * 8 - 1)
            u = ((u ^ m) - m) & M64
    return u & M64

NARROW = ['b', 'c', 'sc', 'uc', 's', 'us']


def outvals(r, nt):
    """int constants OUTSIDE the range of the narrow type `nt` that agree with some value of `nt` in its low bits: as
    case constants they are converted to the PROMOTED type of the controlling expression (int), never to `nt`"""
    span = 256 if SIZE[nt] == 1 else 65536
    lo, hi = _range(nt)
    out = []
    for base in [lo, hi, 0, 1, 2, 65, r.randint(lo, hi), r.randint(lo, hi)]:
        for m in [1, -1, 2, 3, 255 if span == 256 else 5, -7]:
            k = base + span * m
            if -(1 << 31) <= k < (1 << 31) and not lo <= k <= hi and k not in out:
                out.append(k)
    return out


CNT_TYS = ['i', 'u', 'l', 'ul', 's', 'us', 'uc', 'sc', 'c', 'll', 'ull']


class Gen2:
    """one function body; `level`: 'A' straight-line, 'B' + if/else and ++/--, 'C' + loops, break, continue"""

    def __init__(self, rng, ptys, ret, level='C'):
        self.rng = rng
        self.vtys = list(ptys)
        self.rty = ret
        self.level = level
        self.init = set(range(len(ptys)))     # variables certainly holding a value here
        self.ro = set()                       # loop counters: readable, never assigned by generated statements
        self.hist = {}
        self.acc = None                       # an unsigned accumulator updated in loop bodies and folded into the result
        self.callees = []                     # stage D: (name, ret, ptys, firstarg) of the functions that may be called
        self.ptrs = {}                        # stage E2: read-only array parameters: variable -> (element type, length)
        self.pcallees = []                    # functions with array parameters: (name, ret, aps, ptys)
        self.arrays = True                    # stage E switch
        self.impure_ok = True                 # array reads and calls inside the expressions of statements
        self.arrs = {}                        # stage E: array variable -> number of elements; (k, j) in self.init:
                                              # element j of array k certainly holds a value
        self.g = Gen(rng, self.vtys)

    def count(self, k):
        self.hist[k] = self.hist.get(k, 0) + 1

    def leaves(self, scope):
        """thunks for the impure leaves available here: reads of the arrays all of whose elements hold a value,
        calls of the functions that may be called"""
        r = self.rng
        out = []
        for k in scope:
            if k in self.arrs and all((k, j) in self.init for j in range(self.arrs[k])):
                def rd(k=k):
                    isrc, _ = self.index(scope, self.arrs[k], True, k)
                    self.count('idx-expr')
                    return ('I', k, isrc, self.vtys[k], self.arrs[k])
                rd.isidx = True
                out.append(rd)
        for name, ret, ptys, first in self.callees:
            def cl(name=name, ret=ret, ptys=ptys, first=first):
                args = []
                for j in range(len(ptys)):
                    if j == 0 and first is not None:
                        args.append(first)
                    else:
                        args.append(self.expr(scope, 1)[0])
                self.count('call-expr')
                return ('F', name, ret, ptys, args)
            out.append(cl)

        def sz():
            # `sizeof` of an object or a type: a constant of type unsigned long; the operand is not evaluated (it may
            # name an object without value)
            vs = [k for k in scope if k not in self.ptrs]
            x = r.random()
            if vs and x < 0.7:
                k = r.choice(vs)
                if k in self.arrs and r.random() < 0.4:
                    v, txt = SIZE[self.vtys[k]], 'sizeof p%d[0]' % k
                else:
                    v = SIZE[self.vtys[k]] * self.arrs.get(k, 1)
                    txt = r.choice(['sizeof p%d', 'sizeof(p%d)']) % k
            else:
                t = r.choice(TYS)
                v, txt = SIZE[t], 'sizeof(%s)' % CNAME[t]
            self.count('sizeof')
            return ('K', v, '(%s)' % txt, True, 'ul')
        if r.random() < 0.3:
            out.append(sz)

        def cm():
            # `(a , b)`: both operands are evaluated (an operand without value is undefined), the value is b's
            # (gcc 12 with -fsanitize=undefined dies in gimplify_expr on `(_Bool)(1 , 3)` and the like: the left operand
            # of every comma reads an object or calls a function)
            d = r.randrange(0, 2)

            def nonconst(e):
                return e[0] in ('P', 'I', 'F') or any(nonconst(x) for x in e[1:] if isinstance(x, tuple))
            saved = self.g.impure
            self.g.impure = [f for f in saved if f is not cm]     # no comma directly inside a comma
            try:
                b = self.g.expr(d)
                for _ in range(4):
                    a = self.g.expr(d)
                    if nonconst(a):
                        self.count('comma')
                        return ('M', a, b)
                return b
            finally:
                self.g.impure = saved
        if r.random() < 0.07:
            out.append(cm)
        return out

    def expr(self, scope, depth=None, risky=0.04, impure=False):
        r = self.rng
        lv = self.leaves(scope) if (impure and self.impure_ok) else []
        src = self.expr0(scope, depth, risky, lv)
        return src, parse(src, self.vtys)

    def expr0(self, scope, depth, risky, lv):
        r = self.rng
        saved = self.g.impure
        self.g.impure = lv
        try:
            return self.expr1(scope, depth, risky)
        finally:
            self.g.impure = saved

    def expr1(self, scope, depth, risky):
        r = self.rng
        ok = [k for k in scope if k in self.init and k not in self.arrs and k not in self.ptrs]
        if r.random() < risky:
            # may read an indeterminate object: the C semantics says `ub`
            ok = [k for k in scope if k not in self.arrs and k not in self.ptrs]
        self.g.vars = ok
        if not ok:
            # nothing to read: a plain constant (constant-only operator trees are mostly undefined or folded natively)
            v = r.choice([0, 1, 2, 3, 7, 100, 255, 65535, 1000000])
            if self.g.impure and r.random() < 0.5:
                return r.choice(self.g.impure)()
            return ('K', v, str(v), True, '')
        vars_saved = ok
        src = self.g.expr(r.randrange(0, 3) if depth is None else depth)
        return src

    def newvar(self, t):
        self.vtys.append(t)
        return len(self.vtys) - 1

    def assignable(self, scope):
        return [k for k in scope if k not in self.ro and k not in self.arrs and k not in self.ptrs]

    def params_sx(self, np_):
        """the parameter list of the `fn2` line: `T` or `(ptr T W)` for a read-only array parameter"""
        return ' '.join('(ptr %s %d)' % self.ptrs[k] if k in self.ptrs else self.vtys[k] for k in range(np_))

    def params_c(self, np_):
        return ', '.join(('const %s p%d[%d]' % (CNAME[self.ptrs[k][0]], k, self.ptrs[k][1])) if k in self.ptrs
                         else '%s p%d' % (CNAME[self.vtys[k]], k) for k in range(np_)) or 'void'

    def locals_sx(self, np_):
        """the list of local types of the `fn2` line: `T` or `(T N)` for an array"""
        return ' '.join('(%s %d)' % (t, self.arrs[np_ + j]) if np_ + j in self.arrs else t
                        for j, t in enumerate(self.vtys[np_:]))

    def index(self, scope, n, need_init, k):
        """an index expression for an array of n elements: (source tree, element number or None)"""
        r = self.rng
        x = r.random()
        js = [j for j in range(n) if (k, j) in self.init] if need_init else list(range(n))
        if x < 0.55 and js:
            j = r.choice(js)
            return ('K', j, str(j), True, ''), j
        full = all((k, j) in self.init for j in range(n))
        if x < 0.93 and (full or not need_init):
            # (unsigned)(e) % n  or  e & (n-1): in range whatever e is
            src, _ = self.expr(scope, 1)
            if n & (n - 1) == 0 and r.random() < 0.4:
                return ('B', 'and', ('C', 'u', src), ('K', n - 1, str(n - 1), True, '')), None
            return ('B', 'mod', ('C', r.choice(['u', 'ul', 'us', 'uc']), src), ('K', n, '%du' % n, True, 'u')), None
        if x < 0.97:
            j = r.randrange(0, n)
            return ('K', j, str(j), True, ''), j      # possibly an element without a value
        src, _ = self.expr(scope, 1)                  # anything: mostly out of bounds, the C semantics says `ub`
        return src, None

    def aload(self, scope, k):
        """`x = a[i];` into an assignable scalar (none in scope: a new one is declared first)"""
        r = self.rng
        t, n = self.vtys[k], self.arrs[k]
        av = self.assignable(scope)
        pre = []
        if not av or r.random() < 0.25:
            dt = r.choice(TYS)
            d = self.newvar(dt)
            scope.append(d)
            self.count('decl')
            pre = [('%s p%d;' % (CNAME[dt], d), '(decl %d %s)' % (d, dt))]
        else:
            d = r.choice(av)
            dt = self.vtys[d]
        isrc, j = self.index(scope, n, True, k)
        self.init.add(d)
        self.count('aload')
        return pre + [('p%d = p%d[%s];' % (d, k, ctext(isrc)),
                       '(aload %d %s %d %s %d %s)' % (d, dt, k, t, n, sx(parse(isrc, self.vtys))))]

    def array(self, scope):
        """stage E: `T a[N];` (followed by stores to some or all elements), `x = a[i];`, `a[i] = e;`"""
        r = self.rng
        avail = [k for k in scope if k in self.arrs]
        av = self.assignable(scope)
        x = r.random()
        if not avail or x < 0.25:
            t = r.choice(TYS)
            n = r.choice([1, 2, 2, 3, 4, 4, 5, 8])
            if r.random() < 0.45:
                # `T a[N] = {e0, [3] = e3, e4};` - funcinit: the elements in increasing order, zeros for the others;
                # the initialisers are evaluated before the array is in scope
                m = r.randrange(1, n + 1)
                idxs = sorted(r.sample(range(n), m)) if r.random() < 0.4 else list(range(m))
                parts, trees, prev = [], {}, -1
                for j in idxs:
                    src, e = self.expr(scope, 1, impure=True)
                    trees[j] = sx(conv(e, t))
                    if j == prev + 1 and r.random() < 0.8:
                        parts.append(ctext(src))
                    else:
                        parts.append('[%d] = %s' % (j, ctext(src)))
                    prev = j
                k = self.newvar(t)
                self.arrs[k] = n
                scope.append(k)
                self.count('adecl')
                self.count('ainit')
                out = [('%s p%d[%d] = {%s};' % (CNAME[t], k, n, ', '.join(parts)), '(adecl %d %s %d)' % (k, t, n))]
                for j in range(n):
                    self.init.add((k, j))
                    out.append(('', '(ainit %d %s %d %d %s)' % (k, t, n, j, trees.get(j, '(c %s 0)' % t))))
                for _ in range(r.choice([0, 1, 1, 2])):
                    out += self.aload(scope, k)
                return out
            k = self.newvar(t)
            self.arrs[k] = n
            scope.append(k)
            self.count('adecl')
            out = [('%s p%d[%d];' % (CNAME[t], k, n), '(adecl %d %s %d)' % (k, t, n))]
            fill = r.random()
            for j in range(n):
                if fill < 0.75 or r.random() < 0.5:
                    src, e = self.expr(scope, 1, impure=True)
                    self.init.add((k, j))
                    self.count('astore')
                    out.append(('p%d[%d] = %s;' % (k, j, ctext(src)),
                                '(astore %d %s %d (c i %d) %s)' % (k, t, n, j, sx(conv(e, t)))))
            for _ in range(r.choice([0, 1, 1, 2])):
                out += self.aload(scope, k)
            return out
        k = r.choice(avail)
        t, n = self.vtys[k], self.arrs[k]
        if x < 0.68 and av:
            return self.aload(scope, k)
        isrc, j = self.index(scope, n, False, k)
        src, e = self.expr(scope, impure=True)
        if j is not None:
            self.init.add((k, j))
        self.count('astore')
        return [('p%d[%s] = %s;' % (k, ctext(isrc), ctext(src)),
                 '(astore %d %s %d %s %s)' % (k, t, n, sx(parse(isrc, self.vtys)), sx(conv(e, t))))]

    # every generator returns (list of (ctext, tree), terminated)
    def call(self, scope):
        """`[x =] f(args);` - EXPRCALL as a statement; arguments converted to the parameter types (exprassign), the
        result to the type of x (mkassignexpr: a cast only between different types)"""
        r = self.rng
        name, ret, ptys, first = r.choice(self.callees)
        csrc, ctree = [], []
        for j, pt in enumerate(ptys):
            if j == 0 and first is not None:
                src = first
                e = parse(src, self.vtys)
            else:
                src, e = self.expr(scope, 1)
            csrc.append(ctext(src))
            ctree.append(sx(conv(e, pt)))
        self.count('call')
        av = self.assignable(scope)
        if av and r.random() < 0.8:
            k = r.choice(av)
            t = self.vtys[k]
            self.init.add(k)
            return [('p%d = %s(%s);' % (k, name, ', '.join(csrc)),
                     '(call (%d %s) %s %s%s)' % (k, t, ret, name, ''.join(' ' + a for a in ctree)))]
        return [('%s(%s);' % (name, ', '.join(csrc)),
                 '(call (none) %s %s%s)' % (ret, name, ''.join(' ' + a for a in ctree)))]

    def pload(self, scope):
        """stage E2: `x = p[i];` through a read-only array parameter"""
        r = self.rng
        k = r.choice(sorted(self.ptrs))
        t, w = self.ptrs[k]
        av = self.assignable(scope)
        pre = []
        if not av or r.random() < 0.25:
            dt = r.choice(TYS)
            d = self.newvar(dt)
            scope.append(d)
            self.count('decl')
            pre = [('%s p%d;' % (CNAME[dt], d), '(decl %d %s)' % (d, dt))]
        else:
            d = r.choice(av)
            dt = self.vtys[d]
        x = r.random()
        if x < 0.5:
            j = r.randrange(0, w)
            isrc = ('K', j, str(j), True, '')
        elif x < 0.95:
            src, _ = self.expr(scope, 1)
            isrc = ('B', 'mod', ('C', r.choice(['u', 'ul', 'us', 'uc']), src), ('K', w, '%du' % w, True, 'u'))
        else:
            isrc, _ = self.expr(scope, 1)          # anything: mostly out of bounds
        self.init.add(d)
        self.count('pload')
        return pre + [('p%d = p%d[%s];' % (d, k, ctext(isrc)),
                       '(pload %d %s %d %s %d %s)' % (d, dt, k, t, w, sx(parse(isrc, self.vtys))))]

    def callp(self, scope):
        """stage E2: a call passing local arrays (all of whose elements hold a value) to read-only array parameters"""
        r = self.rng
        name, ret, aps, ptys = r.choice(self.pcallees)
        pre = []
        picks = []
        for (t, w) in aps:
            fit = [k for k in scope if k in self.arrs and self.vtys[k] == t and self.arrs[k] >= w
                   and all((k, j) in self.init for j in range(self.arrs[k]))]
            if fit and r.random() < 0.7:
                picks.append(r.choice(fit))
                continue
            # a fresh array of the element type, filled completely
            n = w + r.choice([0, 0, 1, 2])
            k = self.newvar(t)
            self.arrs[k] = n
            scope.append(k)
            self.count('adecl')
            pre.append(('%s p%d[%d];' % (CNAME[t], k, n), '(adecl %d %s %d)' % (k, t, n)))
            for j in range(n):
                src, e = self.expr(scope, 1, impure=True)
                self.init.add((k, j))
                self.count('astore')
                pre.append(('p%d[%d] = %s;' % (k, j, ctext(src)),
                            '(astore %d %s %d (c i %d) %s)' % (k, t, n, j, sx(conv(e, t)))))
            picks.append(k)
        csrc = ['p%d' % k for k in picks]
        ctree = []
        for pt in ptys:
            src, e = self.expr(scope, 1)
            csrc.append(ctext(src))
            ctree.append(sx(conv(e, pt)))
        pa = ' '.join('(%d %s %d)' % (k, self.vtys[k], self.arrs[k]) for k in picks)
        self.count('callp')
        av = self.assignable(scope)
        if av and r.random() < 0.85:
            k = r.choice(av)
            t = self.vtys[k]
            self.init.add(k)
            return pre + [('p%d = %s(%s);' % (k, name, ', '.join(csrc)),
                           '(callp (%d %s) %s %s (%s)%s)' % (k, t, ret, name, pa, ''.join(' ' + a for a in ctree)))]
        return pre + [('%s(%s);' % (name, ', '.join(csrc)),
                       '(callp (none) %s %s (%s)%s)' % (ret, name, pa, ''.join(' ' + a for a in ctree)))]

    def simple(self, scope):
        """one statement without sub-statements"""
        r = self.rng
        if self.ptrs and r.random() < 0.3:
            return self.pload(scope)
        if self.pcallees and r.random() < 0.35:
            return self.callp(scope)
        if self.callees and r.random() < 0.25:
            return self.call(scope)
        if self.arrays and r.random() < (0.22 if any(k in self.arrs for k in scope) else (0.25 if self.pcallees else 0.07)):
            return self.array(scope)
        x = r.random()
        av = self.assignable(scope)
        if x < 0.22 or not av:
            t = r.choice(TYS)
            if r.random() < 0.7:
                src, e = self.expr(scope, impure=True)
                k = self.newvar(t)
                scope.append(k)
                self.init.add(k)
                self.count('decl-init')
                return [('%s p%d = %s;' % (CNAME[t], k, ctext(src)), '(decl %d %s %s)' % (k, t, sx(conv(e, t))))]
            k = self.newvar(t)
            scope.append(k)
            self.count('decl')
            return [('%s p%d;' % (CNAME[t], k), '(decl %d %s)' % (k, t))]
        if x < 0.55:
            k = r.choice(av)
            t = self.vtys[k]
            src, e = self.expr(scope, impure=True)
            self.init.add(k)
            self.count('set')
            return [('p%d = %s;' % (k, ctext(src)), '(set %d %s %s)' % (k, t, sx(conv(e, t))))]
        if x < 0.72:
            ini = [k for k in av if k in self.init] or av
            k = r.choice(ini)
            t = self.vtys[k]
            op = r.choice(OPSET)
            src, e = self.expr(scope, impure=True)
            self.count('opset')
            tree = conv(mkbinary(op, ('p', t, k), e), t)
            return [('p%d %s= %s;' % (k, CSYM[op], ctext(src)), '(set %d %s %s)' % (k, t, sx(tree)))]
        if x < 0.84 and self.level != 'A':
            ini = [k for k in av if k in self.init]
            if ini:
                k = r.choice(ini)
                inc = r.random() < 0.5
                self.count('inc' if inc else 'dec')
                txt = r.choice(['p%d++;', '++p%d;'] if inc else ['p%d--;', '--p%d;']) % k
                return [(txt, '(%s %d %s)' % ('inc' if inc else 'dec', k, self.vtys[k]))]
        if x < 0.90:
            src, e = self.expr(scope, impure=True)
            self.count('expr')
            return [('%s;' % ctext(src), '(expr %s)' % sx(e))]
        if x < 0.94:
            self.count('skip')
            return [(';', '(skip)')]
        k = r.choice(av)
        t = self.vtys[k]
        src, e = self.expr(scope, 1, impure=True)
        self.init.add(k)
        self.count('set')
        return [('p%d = %s;' % (k, ctext(src)), '(set %d %s %s)' % (k, t, sx(conv(e, t))))]

    def ret(self, scope):
        src, e = self.expr(scope, impure=True)
        self.count('ret')
        return ('return %s;' % ctext(src), '(ret %s)' % sx(conv(e, self.rty)))

    def body(self, scope, depth, inloop, maxn=4):
        """a braced statement list in a new scope: (ctext, tree, terminated)"""
        scope = list(scope)
        items, term = self.stmts(scope, depth, inloop, self.rng.randrange(0, maxn + 1))
        return ('{ ' + ' '.join(c for c, _ in items) + ' }', '(block %s)' % ' '.join(t for _, t in items) if items
                else '(block)', term)

    def sub(self, scope, depth, inloop):
        """the sub-statement of if/else/loops: a block, or one simple statement, or a jump"""
        r = self.rng
        x = r.random()
        if x < 0.6:
            self.count('block')
            return self.body(scope, depth, inloop, 3)
        if x < 0.72:
            c, t = self.ret(scope)
            return c, t, True
        if x < 0.84 and inloop:
            k = r.choice(JUMPS[inloop])
            self.count(k)
            return k + ';', '(%s)' % k, True
        av = self.assignable(scope)
        if not av:
            return ';', '(skip)', False
        k = r.choice(av)
        t = self.vtys[k]
        src, e = self.expr(scope)
        saved = set(self.init)
        self.count('set')
        self.init = saved            # a lone statement under a condition initialises nothing for later code
        return 'p%d = %s;' % (k, ctext(src)), '(set %d %s %s)' % (k, t, sx(conv(e, t))), False

    def counter(self, scope, start):
        """declare and initialise a loop counter: statements + index"""
        r = self.rng
        t = r.choice(CNT_TYS)
        k = self.newvar(t)
        scope.append(k)
        self.init.add(k)
        self.ro.add(k)
        if r.random() < 0.5:
            self.count('decl-init')
            return [('%s p%d = %d;' % (CNAME[t], k, start), '(decl %d %s %s)' % (k, t, sx(conv(('c', 'i', start), t))))], k
        self.count('decl')
        self.count('set')
        return [('%s p%d;' % (CNAME[t], k), '(decl %d %s)' % (k, t)),
                ('p%d = %d;' % (k, start), '(set %d %s %s)' % (k, t, sx(conv(('c', 'i', start), t))))], k

    def step(self, k, up):
        """ctext (without `;`) and tree of `k = k ± 1` in one of its spellings"""
        r = self.rng
        t = self.vtys[k]
        x = r.randrange(3)
        if x == 0:
            self.count('inc' if up else 'dec')
            return (r.choice(['p%d++', '++p%d']) if up else r.choice(['p%d--', '--p%d'])) % k, \
                '(%s %d %s)' % ('inc' if up else 'dec', k, t)
        op = 'add' if up else 'sub'
        tree = conv(mkbinary(op, ('p', t, k), ('c', 'i', 1)), t)
        if x == 1:
            self.count('opset')
            return 'p%d %s= 1' % (k, CSYM[op]), '(set %d %s %s)' % (k, t, sx(tree))
        self.count('set')
        return 'p%d = p%d %s 1' % (k, k, CSYM[op]), '(set %d %s %s)' % (k, t, sx(tree))

    def accstep(self, k):
        """`acc = acc * 3 + p<k>;` (unsigned arithmetic: always defined) - makes the number and order of the
        iterations observable"""
        if self.acc is None or self.rng.random() < 0.3:
            return None
        a = self.acc
        t = self.vtys[a]
        src = ('B', 'add', ('B', 'mul', ('P', a), ('K', 3, '3', True, '')), ('P', k))
        self.count('set')
        return 'p%d = %s' % (a, ctext(src)), '(set %d %s %s)' % (a, t, sx(conv(parse(src, self.vtys), t)))

    def withacc(self, k, stc, stt):
        x = self.accstep(k)
        if x is None:
            return stc, stt
        return '%s; %s' % (stc, x[0]), '%s %s' % (stt, x[1])

    def cond_lt(self, k, n, scope):
        """`p<k> < n`, sometimes `&& e`"""
        r = self.rng
        src = ('B', 'lt', ('P', k), ('K', n, str(n), True, ''))
        if r.random() < 0.25:
            src = ('B', 'land', src, self.expr(scope, 1, risky=0.0, impure=True)[0])
        return src, parse(src, self.vtys)

    def loop(self, scope, depth):
        r = self.rng
        n = r.randrange(0, 4)
        kind = r.choice(['while', 'while0', 'do', 'for', 'for', 'fordecl', 'forever'])
        saved = None
        out = []
        if kind == 'fordecl':
            # for (T i = 0; i < n; i++) body        the counter belongs to the scope of the for statement
            inner = list(scope)
            t = r.choice(CNT_TYS)
            k = self.newvar(t)
            inner.append(k)
            self.init.add(k)
            self.ro.add(k)
            self.count('decl-init')
            self.count('for')
            csrc, ctree = self.cond_lt(k, n, inner)
            stc, stt = self.step(k, True)
            saved = set(self.init)
            bc, bt, _ = self.sub(inner, depth - 1, True)
            self.init = saved
            return [('for (%s p%d = 0; %s; %s) %s' % (CNAME[t], k, ctext(csrc), stc, bc),
                     '(for (decl %d %s %s) %s %s %s)' % (k, t, sx(conv(('c', 'i', 0), t)), sx(ctree), stt, bt))]
        if kind == 'while0':
            # p = n; while (p) { p--; ... }
            pre, k = self.counter(scope, n)
            out += pre
            self.count('while')
            src = ('P', k)
            saved = set(self.init)
            stc, stt = self.withacc(k, *self.step(k, False))
            bc, bt, _ = self.body(scope, depth - 1, True, 3)
            self.init = saved
            bt = '(block %s %s' % (stt, bt[len('(block '):]) if bt != '(block)' else '(block %s)' % stt
            bc = '{ %s; %s' % (stc, bc[2:])
            out.append(('while (%s) %s' % (ctext(src), bc), '(while %s %s)' % (sx(parse(src, self.vtys)), bt)))
            return out
        pre, k = self.counter(scope, 0)
        out += pre
        csrc, ctree = self.cond_lt(k, n, scope)
        saved = set(self.init)
        if kind == 'for':
            self.count('for')
            stc, stt = self.step(k, True)
            bc, bt, _ = self.sub(scope, depth - 1, True)
            self.init = saved
            ini = r.random() < 0.5
            out.append(('for (%s; %s; %s) %s' % ('p%d = 0' % k if ini else '', ctext(csrc), stc, bc),
                        '(for %s %s %s %s)' % ('(set %d %s %s)' % (k, self.vtys[k], sx(conv(('c', 'i', 0), self.vtys[k])))
                                               if ini else '(skip)', sx(ctree), stt, bt)))
            return out
        stc, stt = self.withacc(k, *self.step(k, True))
        bc, bt, _ = self.body(scope, depth - 1, True, 3)
        self.init = saved
        bt = '(block %s %s' % (stt, bt[len('(block '):]) if bt != '(block)' else '(block %s)' % stt
        bc = '{ %s; %s' % (stc, bc[2:])
        if kind == 'while':
            self.count('while')
            out.append(('while (%s) %s' % (ctext(csrc), bc), '(while %s %s)' % (sx(ctree), bt)))
        elif kind == 'do':
            self.count('do')
            out.append(('do %s while (%s);' % (bc, ctext(csrc)), '(do %s %s)' % (bt, sx(ctree))))
        else:
            # for (;;) { if (!(p < n)) break; p++; ... }
            self.count('for')
            self.count('if')
            self.count('break')
            nsrc = ('U', '!', csrc)
            guard_c = 'if (%s) break;' % ctext(nsrc)
            guard_t = '(if %s (break))' % sx(parse(nsrc, self.vtys))
            bt = '(block %s %s' % (guard_t, bt[len('(block '):])
            bc = '{ %s %s' % (guard_c, bc[2:])
            out.append(('for (;;) %s' % bc, '(for (skip) (none) (skip) %s)' % bt))
        return out

    def switch(self, scope, depth, inloop):
        """switch (e) { case K: { ... } [break;] ... [default: ...] }"""
        r = self.rng
        pre, forced, avoid, nt = [], [], None, None
        xn = r.random()
        if xn < 0.16:
            # a controlling expression of a narrow type whose value is known, and case constants outside the range of
            # that type which agree with the value in the low bits: none of them is selected (6.8.4.2p5: the constants
            # are converted to the PROMOTED type)
            nt = r.choice(NARROW)
            lo, hi = _range(nt)
            v0 = r.choice([hi, 0, 1, min(hi, 65), r.randint(0, hi), r.randint(0, hi)])
            k = self.newvar(nt)
            scope.append(k)
            self.init.add(k)
            self.count('decl-init')
            pre = [('%s p%d = %d;' % (CNAME[nt], k, v0), '(decl %d %s %s)' % (k, nt, sx(conv(('c', 'i', v0), nt))))]
            src = ('P', k)
            e = parse(src, self.vtys)
            span = 256 if SIZE[nt] == 1 else 65536
            forced = [v0 + span * r.choice([1, -1, 2, 3, -5, 7])]
            avoid = v0
            self.count('switch-narrow')
        elif xn < 0.32:
            nt = r.choice(NARROW)
            isrc, _ = self.expr(scope, r.randrange(0, 2), impure=True)
            src = ('C', nt, isrc)
            e = parse(src, self.vtys)
            ov = outvals(r, nt)
            forced = r.sample(ov, min(len(ov), r.randrange(1, 4)))
            self.count('switch-narrow')
        else:
            src, e = self.expr(scope, r.randrange(0, 2), impure=True)
        pt = promote(ty(e))
        e = conv(e, pt)                                   # exprpromote
        self.count('switch')
        ngroups = r.randrange(1, 5)
        vals, keys, nkeys = [], set(), set()
        if avoid is not None:
            nkeys.add(avoid & M64)
        for v in forced + r.sample(CASEVALS, len(CASEVALS)):
            k = casekey(pt, v & M64)
            # under a narrow controlling type the constants also differ in the low bits: a compiler that converted them
            # to the narrow type would select a wrong case (rather than reject the duplicate)
            nk = casekey('uc' if nt == 'b' else nt, v & M64) if nt else None
            if k not in keys and not (nt and nk in nkeys):
                keys.add(k)
                nkeys.add(nk)
                vals.append(v)
        vals.reverse()                                    # the forced constants are used first
        saved = set(self.init)
        cparts, tparts = [], []
        dpos = r.randrange(0, ngroups + 2)                # position of `default` (beyond the groups: none)
        jf = 3 if inloop in (1, 3) else 2
        for g in range(ngroups):
            nl = 1 if r.random() < 0.75 else 2
            for _ in range(nl):
                if g == dpos and 'default:' not in cparts:
                    cparts.append('default:')
                    tparts.append('(default)')
                    self.count('default')
                v = vals.pop()
                cparts.append('case %d:' % v)
                tparts.append('(case %d)' % (v & M64))
                self.count('case')
            self.init = set(saved)
            if r.random() < 0.85:
                bc, bt, term = self.body(scope, depth - 1, jf, 2)
                cparts.append(bc)
                tparts.append(bt)
            else:
                term = False
                cparts.append(';')
                tparts.append('(skip)')
            if not term and r.random() < 0.6:
                cparts.append('break;')
                tparts.append('(break)')
                self.count('break')
        if dpos >= ngroups and dpos == ngroups:
            self.init = set(saved)
            cparts.append('default:')
            tparts.append('(default)')
            self.count('default')
            bc, bt, term = self.body(scope, depth - 1, jf, 2)
            cparts.append(bc)
            tparts.append(bt)
        self.init = saved
        return pre + [('switch (%s) { %s }' % (ctext(src), ' '.join(cparts)),
                       '(switch %s (block %s))' % (sx(e), ' '.join(tparts)))]

    def stmts(self, scope, depth, inloop, n):
        """n statements appended to the current scope; stops after a jump statement"""
        r = self.rng
        items = []
        for _ in range(n):
            x = r.random()
            if depth > 0 and self.level != 'A' and x < 0.30:
                src, e = self.expr(scope, impure=True)
                saved = set(self.init)
                ac, at, _ = self.sub(scope, depth - 1, inloop)
                ia = self.init
                self.init = set(saved)
                if r.random() < 0.5:
                    self.count('ifelse')
                    bc, bt, _ = self.sub(scope, depth - 1, inloop)
                    self.init = saved | (ia & self.init)
                    items.append(('if (%s) %s else %s' % (ctext(src), ac, bc), '(ifelse %s %s %s)' % (sx(e), at, bt)))
                else:
                    self.count('if')
                    self.init = saved
                    items.append(('if (%s) %s' % (ctext(src), ac), '(if %s %s)' % (sx(e), at)))
            elif depth > 0 and self.level == 'C' and x < 0.40:
                items += self.loop(scope, depth)
            elif depth > 0 and self.level == 'C' and x < 0.47:
                items += self.switch(scope, depth, inloop)
            elif depth > 0 and x < 0.52:
                self.count('block')
                c, t, term = self.body(scope, depth - 1, inloop, 3)
                items.append((c, t))
                if term:
                    return items, True
            elif x < 0.56 and (inloop or r.random() < 0.3):
                if inloop and r.random() < 0.6:
                    k = r.choice(JUMPS[inloop])
                    self.count(k)
                    items.append((k + ';', '(%s)' % k))
                else:
                    items.append(self.ret(scope))
                return items, True
            else:
                items += self.simple(scope)
        return items, False


def gen2(seed, charsigned, n, nargs=4, prefix='g', level='C'):
    """n functions of fragment F2: list of (c_text, sexpr, func_name, args_samples, statement-kind histogram)"""
    global CS
    CS = bool(charsigned)
    rng = random.Random(((int(seed) << 1) | (1 if charsigned else 0)) * 3 + 2)
    res = []
    for idx in range(n):
        np_ = rng.choice([0, 1, 1, 2, 2, 3])
        ptys = [rng.choice(TYS) for _ in range(np_)]
        ret = rng.choice(TYS)
        g = Gen2(rng, ptys, ret, level)
        scope = list(range(np_))
        pre = []
        if level == 'C' and rng.random() < 0.6:
            t = rng.choice(['u', 'ul', 'us', 'ull'])
            k = g.newvar(t)
            scope.append(k)
            g.init.add(k)
            g.ro.add(k)
            g.acc = k
            g.count('decl-init')
            pre = [('%s p%d = 1;' % (CNAME[t], k), '(decl %d %s %s)' % (k, t, sx(conv(('c', 'i', 1), t))))]
        items, term = g.stmts(scope, rng.randrange(0, 3), False, rng.randrange(0, 6))
        items = pre + items
        if not term:
            if g.acc is not None:
                # return e ^ acc;
                src, e = g.expr(scope)
                src = ('B', 'xor', src, ('P', g.acc))
                g.count('ret')
                items.append(('return %s;' % ctext(src), '(ret %s)' % sx(conv(parse(src, g.vtys), ret))))
            else:
                items.append(g.ret(scope))
        name = '%s%d' % (prefix, idx)
        params = ', '.join('%s p%d' % (CNAME[t], i) for i, t in enumerate(ptys)) or 'void'
        c = '%s %s(%s) { %s }' % (CNAME[ret], name, params, ' '.join(x for x, _ in items))
        s = '(fn2 %s %s (%s) (%s) (block %s))' % (name, ret, ' '.join(ptys), g.locals_sx(np_),
                                                 ' '.join(t for _, t in items))
        res.append((c, s, name, _args(rng, ptys, nargs), g.hist))
    return res


def gen3(seed, charsigned, n, nargs=4, prefix='h'):
    """n PROGRAMS (stage D): 2-4 functions of F2 each, a function may call the ones before it (direct calls as
    statements) and - guarded by its first parameter - itself.  Every function comes as a tuple like gen2's plus a sixth
    component: the `(prog ...)` line for `drv_c01 eval` (its callees and itself, itself last)."""
    global CS
    CS = bool(charsigned)
    rng = random.Random(((int(seed) << 1) | (1 if charsigned else 0)) * 5 + 3)
    res = []
    for pi in range(n):
        nf = rng.randrange(2, 5)
        defined = []           # (name, ret, ptys, sexpr)
        for fi in range(nf):
            name = '%s%d_%d' % (prefix, pi, fi)
            rec = fi > 0 and rng.random() < 0.35
            np_ = rng.choice([1, 1, 2, 2, 3]) if rec else rng.choice([0, 1, 1, 2, 2, 3])
            ptys = [rng.choice(TYS) for _ in range(np_)]
            if rec:
                ptys[0] = rng.choice(['i', 'l', 's', 'sc'])
            aps = []
            if not rec and rng.random() < 0.4:
                aps = [(rng.choice(TYS), rng.choice([1, 2, 2, 3, 4])) for _ in range(rng.choice([1, 1, 2]))]
            ptys = ['ul'] * len(aps) + ptys
            np_ = len(ptys)
            ret = rng.choice(TYS)
            g = Gen2(rng, ptys, ret, 'C')
            for k, ap in enumerate(aps):
                g.ptrs[k] = ap
            g.callees = [(d[0], d[1], d[2], None) for d in defined if not d[4]]
            g.pcallees = [(d[0], d[1], d[4], d[2][len(d[4]):]) for d in defined if d[4]]
            scope = list(range(np_))
            pre = []
            if rec:
                # if (p0 <= 0 || p0 > 5) return K;   ...   the recursive calls pass p0 - 1
                gsrc = ('B', 'lor', ('B', 'le', ('P', 0), ('K', 0, '0', True, '')), ('B', 'gt', ('P', 0), ('K', 5, '5', True, '')))
                kv = rng.choice([0, 1, 2, 7, 100])
                ksrc = ('K', kv, str(kv), True, '')
                g.count('if'); g.count('ret')
                pre = [('if (%s) return %s;' % (ctext(gsrc), ctext(ksrc)),
                        '(if %s (ret %s))' % (sx(parse(gsrc, g.vtys)), sx(conv(parse(ksrc, g.vtys), ret))))]
                g.ro.add(0)
                g.callees.append((name, ret, ptys, ('B', 'sub', ('P', 0), ('K', 1, '1', True, ''))))
            items, term = g.stmts(scope, rng.randrange(0, 2), False, rng.randrange(1, 5))
            items = pre + items
            if not term:
                items.append(g.ret(scope))
            c = '%s %s(%s) { %s }' % (CNAME[ret], name, g.params_c(np_), ' '.join(x for x, _ in items))
            s = '(fn2 %s %s (%s) (%s) (block %s))' % (name, ret, g.params_sx(np_), g.locals_sx(np_),
                                                     ' '.join(t for _, t in items))
            defined.append((name, ret, ptys, s, aps))
            evalsx = '(prog %s)' % ' '.join(d[3] for d in defined)
            # a function with array parameters is exercised through its callers only
            res.append((c, s, name, [] if aps else _args(rng, ptys, nargs), g.hist, evalsx))
    return res


def ret_type_of(sexpr):
    """the TY atom after the function name in `(fn NAME TY (...) ...)`"""
    return sexpr.split()[2]


def ret_matches(ret_ty, c_value, il_value):
    """drv_c01 eval prints `c=<C value>` and `il=ret <N>`: N is the returned temporary read at its class;
    only the low 8*sizeof(ret type) bits are specified (value-representation invariant of Props/C01)."""
    return (int(il_value) - int(c_value)) % (1 << (8 * SIZE[ret_ty])) == 0


def alpha(text):
    """rename temporaries (%.N) and labels (@name.N) by first occurrence"""
    tm, lm = {}, {}

    def tsub(m):
        k = m.group(0)
        if k not in tm:
            tm[k] = '%%t%d' % len(tm)
        return tm[k]

    def lsub(m):
        k = m.group(0)
        if k not in lm:
            lm[k] = '@%s.L%d' % (m.group(1), len(lm))
        return lm[k]
    text = re.sub(r'%\.\d+', tsub, text)
    return re.sub(r'@(\w+)\.\d+', lsub, text)


def split_funcs(out):
    fs, cur = [], []
    for line in out.splitlines():
        cur.append(line)
        if line == '}':
            fs.append('\n'.join(cur) + '\n')
            cur = []
    return fs


if __name__ == '__main__':
    import sys
    for c, s, name, args in gen(int(sys.argv[1]) if len(sys.argv) > 1 else 0, True,
                                int(sys.argv[2]) if len(sys.argv) > 2 else 5):
        print(c); print(s); print(args)
    for c, s, name, args, h in gen2(int(sys.argv[1]) if len(sys.argv) > 1 else 0, True,
                                    int(sys.argv[2]) if len(sys.argv) > 2 else 5):
        print(c); print(s); print(args)

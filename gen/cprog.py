"""Seeded generator of C programs with *defined* behaviour, independent of unspecified evaluation
order, for the execution-based correspondence checks (C01, C03, C19, C20).

Programs use only `void out(long); void outd(double);` as observable effects plus main's status.
Undefined behaviour is avoided by construction (Csmith style):
  * signed + - * are computed in the corresponding unsigned type and converted back
    (implementation-defined wrap, the same in gcc, clang and cproc);
  * / and % are guarded against 0 and MIN/-1; shift counts are masked to the promoted width and
    left shifts are done on unsigned operands;
  * float -> integer conversions are range-guarded; NaNs are never output;
  * array indices are reduced modulo the array length; pointers only point to live objects;
  * at most one function call per full expression, every other expression is side-effect free;
  * loops have bounded trip counts.
Every program is additionally validated by the oracle step of the check (gcc and clang -O0 with
UBSan must agree), so a generator bug cannot become a false alarm.
"""
import random

INT_TYPES = [
    # name, bits, signed (None = plain char, target dependent)
    ("_Bool", 1, False), ("char", 8, None), ("signed char", 8, True), ("unsigned char", 8, False),
    ("short", 16, True), ("unsigned short", 16, False), ("int", 32, True), ("unsigned", 32, False),
    ("long", 64, True), ("unsigned long", 64, False), ("long long", 64, True), ("unsigned long long", 64, False),
]
FLT_TYPES = [("float", 32), ("double", 64)]


class T:
    def __init__(self, name, kind, bits=0, signed=False):
        self.name, self.kind, self.bits, self.signed = name, kind, bits, signed

    @property
    def isint(self):
        return self.kind == "int"

    @property
    def isflt(self):
        return self.kind == "flt"

    def __repr__(self):
        return self.name


def mk_types(charsigned):
    ts = []
    for n, b, s in INT_TYPES:
        ts.append(T(n, "int", b, charsigned if s is None else s))
    for n, b in FLT_TYPES:
        ts.append(T(n, "flt", b, True))
    return ts


def promoted(t):
    """(bits, signed) after integer promotion"""
    if t.bits < 32:
        return (32, True)
    return (t.bits, t.signed)


def common(a, b):
    """usual arithmetic conversions on promoted (bits, signed)"""
    (ab, asg), (bb, bsg) = promoted(a), promoted(b)
    if ab == bb:
        return (ab, asg and bsg)
    if ab > bb:
        return (ab, asg)
    return (bb, bsg)


def cname(bits, signed):
    return {(32, True): "int", (32, False): "unsigned", (64, True): "long", (64, False): "unsigned long"}[(bits, signed)]


class Var:
    def __init__(self, name, t, kind="scalar", n=0, fields=None, const=False):
        self.name, self.t, self.kind, self.n, self.fields, self.const = name, t, kind, n, fields, const


class Struct:
    def __init__(self, name, fields):
        self.name, self.fields = name, fields     # fields: list of (fname, T, bitwidth or None, arraylen or 0)


class ProgGen:
    def __init__(self, rng, charsigned=True, floats=True, structs=True, bitfields=True, pointers=True,
                 switches=True, gotos=True, size=1.0):
        self.r = rng
        self.types = mk_types(charsigned)
        self.itypes = [t for t in self.types if t.isint]
        self.ftypes = [t for t in self.types if t.isflt] if floats else []
        self.opt = dict(floats=floats, structs=structs, bitfields=bitfields, pointers=pointers,
                        switches=switches, gotos=gotos)
        self.size = size
        self.structs = []
        self.globals = []
        self.funcs = []       # (name, ret T, [param T])
        self.uid = 0
        self.features = {}

    def feat(self, k):
        self.features[k] = self.features.get(k, 0) + 1

    def fresh(self, p):
        self.uid += 1
        return "%s%d" % (p, self.uid)

    def anytype(self, flt=True):
        if flt and self.ftypes and self.r.random() < 0.2:
            return self.r.choice(self.ftypes)
        return self.r.choice(self.itypes)

    # ------------------------------------------------------------------ constants
    def const(self, t):
        r = self.r
        if t.isflt:
            v = r.choice([0.0, 1.0, -1.0, 0.5, 2.0, 1e3, -3.25, 7.75, 1e-3, 123456.0, r.uniform(-1000, 1000)])
            s = repr(float(v))
            return "(%s)%s" % (t.name, s + ("f" if t.bits == 32 else ""))
        if t.bits == 1:
            return str(r.choice([0, 1]))
        lo, hi = (-(1 << (t.bits - 1)), (1 << (t.bits - 1)) - 1) if t.signed else (0, (1 << t.bits) - 1)
        c = r.random()
        if c < 0.4:
            v = r.randint(-4, 9)
        elif c < 0.75:
            v = r.choice([lo, hi, lo + 1, hi - 1, 0, 1, -1, 1 << (t.bits - 1), (1 << (t.bits // 2)) + 1, 255, 256, 65535, 65536,
                          0x7fffffff, 0x80000000, 0xffffffff, 0x100000000])
        else:
            v = r.randint(lo, hi)
        return self.lit(v, t)

    def lit(self, v, t):
        """literal expression of type t with value v wrapped into t's range"""
        m = (1 << t.bits) - 1
        v &= m
        if t.signed and v >> (t.bits - 1):
            v -= 1 << t.bits
        if t.bits == 64:
            if t.signed:
                return "(-9223372036854775807L-1)" if v == -2**63 else ("%dL" % v if v >= 0 else "(-%dL)" % -v)
            return "%dUL" % v
        if t.bits == 32:
            if t.signed:
                return "(-2147483647-1)" if v == -2**31 else ("%d" % v if v >= 0 else "(-%d)" % -v)
            return "%dU" % v
        return "(%s)%s" % (t.name, ("%d" % v) if v >= 0 else "(-%d)" % -v)

    # ------------------------------------------------------------------ expressions (side-effect free)
    def leaf(self, t, env):
        """a variable read convertible to t, or a constant"""
        r = self.r
        cands = [v for v in env if v.kind in ("scalar", "array", "struct", "ptr")]
        if cands and r.random() < 0.75:
            v = r.choice(cands)
            e, et = self.read(v, env)
            if e is not None:
                return self.cast(e, et, t)
        return self.const(t)

    def read(self, v, env):
        r = self.r
        if v.kind == "scalar":
            return v.name, v.t
        if v.kind == "array":
            idx = self.index(env)
            self.feat("array-read")
            return "%s[(%s) %% %dU]" % (v.name, idx, v.n), v.t
        if v.kind == "ptr":
            self.feat("ptr-read")
            return "(*%s)" % v.name, v.t
        if v.kind == "struct":
            f = r.choice(v.fields.fields)
            fname, ft, bw, alen = f
            self.feat("bitfield-read" if bw else "member-read")
            if alen:
                idx = self.index(env)
                return "%s.%s[(%s) %% %dU]" % (v.name, fname, idx, alen), ft
            if bw:
                # value of a bit-field: type after promotion is int/unsigned/...; treat as its declared type
                # truncated to bw bits: wrap in a cast to the declared type (value preserving)
                return "((%s)%s.%s)" % (ft.name, v.name, fname), ft
            return "%s.%s" % (v.name, fname), ft
        return None, None

    def index(self, env):
        """a simple unsigned index expression (no nested array reads: keeps generation finite)"""
        r = self.r
        sc = [v for v in env if v.kind == "scalar" and v.t.isint]
        if sc and r.random() < 0.7:
            v = r.choice(sc)
            e = "(unsigned)%s" % v.name
            if r.random() < 0.4:
                e = "(%s + %dU)" % (e, r.randint(1, 9))
            return e
        return "%dU" % r.randint(0, 12)

    def type_named(self, n):
        for t in self.types:
            if t.name == n:
                return t
        raise KeyError(n)

    def cast(self, e, ft, tt):
        if ft is tt:
            return e
        if ft.isflt and tt.isint:
            self.feat("cast-flt-int")
            if tt.bits == 1:
                return "((_Bool)(%s))" % e
            lim = "2147483000.0" if tt.bits >= 32 else ("120.0" if tt.bits == 8 else "32000.0")
            lo = "0.0" if not tt.signed else "-" + lim
            return "((%s) > %s && (%s) < %s ? (%s)(%s) : (%s)1)" % (e, lo, e, lim, tt.name, e, tt.name)
        self.feat("cast-%s-%s" % (ft.kind, tt.kind))
        return "((%s)(%s))" % (tt.name, e)

    def expr(self, t, env, depth):
        """side-effect free expression of exactly type t"""
        r = self.r
        if depth <= 0 or r.random() < 0.25:
            return self.leaf(t, env)
        if t.isflt:
            return self.fexpr(t, env, depth)
        k = r.random()
        if k < 0.45:
            return self.arith(t, env, depth)
        if k < 0.6:
            return self.cmp(t, env, depth)
        if k < 0.7:
            a = self.expr(self.anytype(), env, depth - 1)
            b = self.expr(self.anytype(), env, depth - 1)
            self.feat("logical")
            return self.cast("((%s) %s (%s))" % (a, r.choice(["&&", "||"]), b), self.type_named("int"), t)
        if k < 0.8:
            c = self.expr(self.anytype(), env, depth - 1)
            x = self.expr(t, env, depth - 1)
            y = self.expr(t, env, depth - 1)
            self.feat("conditional")
            return "((%s) ? (%s) : (%s))" % (c, x, y) if t.bits >= 32 else "((%s)((%s) ? (%s) : (%s)))" % (t.name, c, x, y)
        if k < 0.9:
            u = self.anytype()
            self.feat("unary")
            op = r.choice(["~", "!", "-", "+"])
            a = self.expr(u, env, depth - 1)
            if op == "-" and u.isint:
                pb, ps = promoted(u)
                un = cname(pb, False)
                return self.cast("(-(%s)(%s))" % (un, a), self.type_named(un), t)
            if op == "~" and u.isflt:
                op = "-"
            if u.isflt and op in "+-":
                return self.cast("(%s(%s))" % (op, a), u, t)
            res = self.type_named("int") if op == "!" else self.type_named(cname(*promoted(u)))
            return self.cast("(%s(%s))" % (op, a), res, t)
        src = self.anytype()
        return self.cast(self.expr(src, env, depth - 1), src, t)

    def arith(self, t, env, depth):
        r = self.r
        a_t, b_t = r.choice(self.itypes), r.choice(self.itypes)
        a, b = self.expr(a_t, env, depth - 1), self.expr(b_t, env, depth - 1)
        op = r.choice(["+", "-", "*", "/", "%", "&", "|", "^", "<<", ">>"])
        self.feat("op" + op)
        if op in ("<<", ">>"):
            pb, ps = promoted(a_t)
            rt = self.type_named(cname(pb, ps))
            cnt = "((%s) & %d)" % (b, pb - 1)
            if op == "<<":
                ut = cname(pb, False)
                e = "((%s)((%s)(%s) << %s))" % (rt.name, ut, a, cnt)
            else:
                e = "((%s) >> %s)" % (a, cnt)
            return self.cast(e, rt, t)
        cb, cs = common(a_t, b_t)
        rt = self.type_named(cname(cb, cs))
        if op in ("/", "%"):
            if cs:
                mn = "(-2147483647-1)" if cb == 32 else "(-9223372036854775807L-1)"
                guard = "((%s)(%s) == 0 || ((%s)(%s) == %s && (%s)(%s) == -1))" % (rt.name, b, rt.name, a, mn, rt.name, b)
            else:
                guard = "((%s)(%s) == 0)" % (rt.name, b)
            e = "(%s ? (%s)(%s) : ((%s) %s (%s)))" % (guard, rt.name, a, a, op, b)
            return self.cast(e, rt, t)
        if cs and op in ("+", "-", "*"):
            ut = cname(cb, False)
            e = "((%s)((%s)(%s) %s (%s)(%s)))" % (rt.name, ut, a, op, ut, b)
        else:
            e = "((%s) %s (%s))" % (a, op, b)
        return self.cast(e, rt, t)

    def cmp(self, t, env, depth):
        r = self.r
        a_t = self.anytype()
        b_t = self.anytype()
        a, b = self.expr(a_t, env, depth - 1), self.expr(b_t, env, depth - 1)
        op = r.choice(["<", ">", "<=", ">=", "==", "!="])
        self.feat("cmp")
        return self.cast("((%s) %s (%s))" % (a, op, b), self.type_named("int"), t)

    def fexpr(self, t, env, depth):
        r = self.r
        k = r.random()
        if k < 0.6:
            a = self.expr(r.choice(self.ftypes), env, depth - 1)
            b = self.expr(self.anytype(), env, depth - 1)
            op = r.choice(["+", "-", "*", "/"])
            self.feat("fop" + op)
            if op == "/":
                return "((%s)((%s) / (((%s) > 0.001 || (%s) < -0.001) ? (%s) : 1)))" % (t.name, a, b, b, b)
            return "((%s)((%s) %s (%s)))" % (t.name, a, op, b)
        src = self.anytype()
        return self.cast(self.expr(src, env, depth - 1), src, t)

    # ------------------------------------------------------------------ statements
    def lvalue(self, env):
        """(text, type) of a writable location"""
        r = self.r
        cands = [v for v in env if not v.const and v.kind in ("scalar", "array", "struct", "ptr")]
        if not cands:
            return None, None
        v = r.choice(cands)
        if v.kind == "scalar":
            return v.name, v.t
        if v.kind == "array":
            idx = self.index(env)
            self.feat("array-write")
            return "%s[(%s) %% %dU]" % (v.name, idx, v.n), v.t
        if v.kind == "ptr":
            self.feat("ptr-write")
            return "(*%s)" % v.name, v.t
        f = r.choice(v.fields.fields)
        fname, ft, bw, alen = f
        self.feat("bitfield-write" if bw else "member-write")
        if alen:
            idx = self.index(env)
            return "%s.%s[(%s) %% %dU]" % (v.name, fname, idx, alen), ft
        return "%s.%s" % (v.name, fname), ft

    def stmts(self, env, depth, n, ind, ctx):
        out = []
        env = list(env)
        for _ in range(n):
            out.extend(self.stmt(env, depth, ind, ctx))
        return out

    def stmt(self, env, depth, ind, ctx):
        r = self.r
        pad = "\t" * ind
        k = r.random()
        d = 2
        if k < 0.18:
            return self.decl(env, ind)
        if k < 0.40:
            lv, lt = self.lvalue(env)
            if lv is None:
                return self.decl(env, ind)
            op = r.choice(["=", "=", "=", "+=", "-=", "*=", "&=", "|=", "^=", "<<=", ">>="])
            if lt.isflt:
                op = r.choice(["=", "+=", "-=", "*="])
            if op == "=":
                return ["%s%s = %s;" % (pad, lv, self.expr(lt, env, d))]
            self.feat("compound" + op)
            if op in ("<<=", ">>="):
                pb, _ = promoted(lt)
                if op == "<<=" and (lt.signed or lt.bits < 32):
                    # left shift of a signed/promoted-to-int value could overflow: do it unsigned
                    ut = cname(max(pb, 32), False)
                    return ["%s%s = (%s)((%s)%s << ((%s) & %d));" % (pad, lv, lt.name, ut, lv,
                            self.expr(self.type_named("int"), env, 1), pb - 1)]
                return ["%s%s %s ((%s) & %d);" % (pad, lv, op, self.expr(self.type_named("int"), env, 1), pb - 1)]
            if lt.isint and op in ("+=", "-=", "*="):
                safe = (not lt.signed and lt.bits >= 32) or (lt.bits <= 16 and op != "*=") or lt.bits <= 8
                if not safe:
                    ut = cname(max(lt.bits, 32), False)
                    return ["%s%s = (%s)((%s)%s %s (%s)(%s));" % (pad, lv, lt.name, ut, lv, op[0], ut, self.expr(lt, env, d))]
            rhs_t = lt if not lt.isflt else lt
            return ["%s%s %s %s;" % (pad, lv, op, self.expr(rhs_t, env, d))]
        if k < 0.48:
            lv, lt = self.lvalue(env)
            if lv is None or lt.isflt or (lt.signed and lt.bits >= 32):
                return self.out_stmt(env, ind)
            self.feat("incdec")
            return ["%s%s%s;" % (pad, lv, r.choice(["++", "--"])) if r.random() < 0.5 else "%s%s%s;" % (pad, r.choice(["++", "--"]), lv)]
        if k < 0.62:
            return self.out_stmt(env, ind)
        if k < 0.70 and self.funcs:
            return self.call_stmt(env, ind)
        if depth <= 0:
            return self.out_stmt(env, ind)
        if k < 0.78:
            self.feat("if")
            c = self.expr(self.anytype(), env, d)
            out = ["%sif (%s) {" % (pad, c)] + self.stmts(env, depth - 1, r.randint(1, 3), ind + 1, ctx)
            if r.random() < 0.5:
                out += ["%s} else {" % pad] + self.stmts(env, depth - 1, r.randint(1, 3), ind + 1, ctx)
            return out + ["%s}" % pad]
        if k < 0.86:
            return self.loop(env, depth, ind, ctx)
        if k < 0.91 and self.opt["switches"]:
            return self.switch(env, depth, ind, ctx)
        if ctx.get("inloop") and r.random() < 0.5:
            self.feat("break/continue")
            c = self.expr(self.type_named("int"), env, 1)
            if r.random() < 0.4:
                # unreachable code after the jump, in the same block
                self.feat("dead-code")
                return ["%sif (%s) { %s; %s }" % (pad, c, r.choice(["break", "continue"]), self.out_stmt(env, 0)[0])]
            return ["%sif (%s) %s;" % (pad, c, r.choice(["break", "continue"]))]
        if "ret" in ctx and r.random() < 0.5:
            self.feat("early-return")
            c = self.expr(self.type_named("int"), env, 1)
            rt = ctx["ret"]
            val = "" if rt is None else " " + self.expr(rt, env, 1)
            dead = self.out_stmt(env, 0)[0] if r.random() < 0.5 else ""
            if r.random() < 0.5:
                return ["%sif (%s) { return%s; %s } else { %s }" % (pad, c, val, dead, self.out_stmt(env, 0)[0])]
            return ["%sif (%s) { return%s; %s }" % (pad, c, val, dead)]
        if self.opt["gotos"] and not ctx.get("nogoto"):
            self.feat("goto")
            lab = self.fresh("L")
            c = self.expr(self.type_named("int"), env, 1)
            body = self.stmts(env, 0, r.randint(1, 2), ind, dict(ctx, nogoto=True))
            # declarations must not be jumped over in a way that matters: body statements with decls are wrapped
            return ["%sif (%s) goto %s;" % (pad, c, lab), "%s{" % pad] + body + ["%s}" % pad, "%s%s: ;" % (pad, lab)]
        return self.out_stmt(env, ind)

    def out_stmt(self, env, ind):
        pad = "\t" * ind
        t = self.anytype()
        e = self.expr(t, env, 2)
        if t.isflt:
            self.feat("outd")
            return ["%s{ double o_ = (double)(%s); outd(o_ != o_ ? 0.0 : o_); }" % (pad, e)]
        self.feat("out")
        return ["%sout((long)(%s));" % (pad, e)]

    def call_stmt(self, env, ind):
        pad = "\t" * ind
        name, rt, pts = self.r.choice(self.funcs)
        args = ", ".join(self.expr(pt, env, 1) if isinstance(pt, T) else self.struct_arg(pt, env) for pt in pts)
        self.feat("call")
        if isinstance(rt, Struct):
            tmp = self.fresh("r")
            fs = [f for f in rt.fields if not f[3]]
            if not fs:
                return ["%s{ struct %s %s = %s(%s); out((long)%s.%s[0]); }" % (pad, rt.name, tmp, name, args, tmp, rt.fields[0][0])]
            f = self.r.choice(fs)
            return ["%s{ struct %s %s = %s(%s); out((long)%s.%s); }" % (pad, rt.name, tmp, name, args, tmp, f[0])]
        if rt is None:
            return ["%s%s(%s);" % (pad, name, args)]
        lv, lt = self.lvalue(env)
        if lv is None:
            return ["%sout((long)%s(%s));" % (pad, name, args)] if not rt.isflt else ["%s%s(%s);" % (pad, name, args)]
        return ["%s%s = (%s)%s(%s);" % (pad, lv, lt.name, name, args)] if not (rt.isflt and lt.isint) else ["%s%s(%s);" % (pad, name, args)]

    def struct_arg(self, st, env):
        cands = [v for v in env if v.kind == "struct" and v.fields is st]
        if cands:
            return self.r.choice(cands).name
        return "(struct %s){0}" % st.name

    def decl(self, env, ind):
        r = self.r
        pad = "\t" * ind
        k = r.random()
        name = self.fresh("v")
        if k < 0.6 or not env:
            t = self.anytype()
            env.append(Var(name, t))
            self.feat("decl-scalar")
            return ["%s%s %s = %s;" % (pad, t.name, name, self.expr(t, env[:-1], 2))]
        if k < 0.75:
            t = self.anytype()
            n = r.randint(1, 6)
            inits = ", ".join(self.expr(t, env, 1) for _ in range(r.randint(0, n)))
            env.append(Var(name, t, "array", n))
            self.feat("decl-array")
            return ["%s%s %s[%d] = {%s};" % (pad, t.name, name, n, inits if inits else "0")]
        if k < 0.9 and self.structs:
            st = r.choice(self.structs)
            env.append(Var(name, None, "struct", fields=st))
            self.feat("decl-struct")
            same = [v for v in env[:-1] if v.kind == "struct" and v.fields is st]
            if same and r.random() < 0.4:
                self.feat("struct-copy")
                return ["%sstruct %s %s = %s;" % (pad, st.name, name, r.choice(same).name)]
            return ["%sstruct %s %s = %s;" % (pad, st.name, name, self.struct_init(st, env[:-1]))]
        if self.opt["pointers"]:
            tgt = [v for v in env if v.kind == "scalar" and not v.const]
            if tgt:
                v = r.choice(tgt)
                env.append(Var(name, v.t, "ptr"))
                self.feat("decl-ptr")
                return ["%s%s *%s = &%s;" % (pad, v.t.name, name, v.name)]
        t = self.anytype()
        env.append(Var(name, t))
        return ["%s%s %s = %s;" % (pad, t.name, name, self.const(t))]

    def struct_init(self, st, env, const=False):
        r = self.r
        parts = []
        for fname, ft, bw, alen in st.fields:
            if r.random() < 0.2:
                continue
            val = (lambda: self.const(ft)) if const else (lambda: self.expr(ft, env, 1))
            if alen:
                parts.append(".%s = {%s}" % (fname, ", ".join(val() for _ in range(r.randint(1, alen)))))
            else:
                parts.append(".%s = %s" % (fname, val()))
        return "{%s}" % (", ".join(parts) if parts else "0")

    def loop(self, env, depth, ind, ctx):
        r = self.r
        pad = "\t" * ind
        i = self.fresh("i")
        n = r.randint(0, 5)
        body_env = env + [Var(i, self.type_named("int"), const=True)]
        body = self.stmts(body_env, depth - 1, r.randint(1, 3), ind + 1, dict(ctx, inloop=True))
        if r.random() < 0.15:
            # body ends in an unconditional jump (the back edge must not override it)
            self.feat("loop-ends-in-jump")
            body.append("\t" * (ind + 1) + r.choice(["break;", "continue;"]))
        k = r.random()
        if k < 0.5:
            self.feat("for")
            return ["%sfor (int %s = 0; %s < %d; %s++) {" % (pad, i, i, n, i)] + body + ["%s}" % pad]
        if k < 0.75:
            self.feat("while")
            # continue must not skip the increment: put it in the condition
            return ["%s{ int %s = -1;" % (pad, i), "%swhile (++%s < %d) {" % (pad, i, n)] + body + ["%s} }" % pad]
        self.feat("do")
        return ["%s{ int %s = -1;" % (pad, i), "%sdo {" % pad, "%s\t%s++;" % (pad, i)] + body + ["%s} while (%s < %d); }" % (pad, i, n)]

    def switch(self, env, depth, ind, ctx):
        r = self.r
        pad = "\t" * ind
        t = r.choice([x for x in self.itypes if x.bits > 1])
        e = self.expr(t, env, 2)
        self.feat("switch")
        out = ["%sswitch (%s) {" % (pad, e)]
        seen = set()
        pb, ps = promoted(t)
        for _ in range(r.randint(0, 5)):
            v = r.choice([r.randint(-3, 8), 0, 1, -1, 255, 256, 65535, 2**31 - 1, -2**31, 2**32 - 1, 2**63 - 1])
            w = v & ((1 << pb) - 1)
            if w in seen:
                continue
            seen.add(w)
            out.append("%scase %s: ;" % (pad, self.lit(v, self.type_named(cname(pb, ps)))))
            out += self.stmts(env, depth - 1, r.randint(0, 2), ind + 1, dict(ctx, inloop=ctx.get("inloop"), inswitch=True))
            if r.random() < 0.7:
                out.append("%s\tbreak;" % pad)
        if r.random() < 0.6:
            out.append("%sdefault: ;" % pad)
            out += self.stmts(env, depth - 1, r.randint(1, 2), ind + 1, dict(ctx, inswitch=True))
        out.append("%s\t;" % pad)
        return out + ["%s}" % pad]

    # ------------------------------------------------------------------ top level
    def gen_struct(self):
        r = self.r
        name = self.fresh("S")
        fields = []
        for _ in range(r.randint(1, 5)):
            fname = self.fresh("m")
            k = r.random()
            if k < 0.3 and self.opt["bitfields"]:
                t = r.choice([x for x in self.itypes if x.bits >= 8 and x.name != "char"])
                bw = r.randint(1, t.bits)
                # the value model treats a bit-field as its declared type: keep width = full range for
                # exactness unless declared type has exactly bw bits -> use a reduced type wrapper
                fields.append((fname, self.bf_type(t, bw), bw, 0))
            elif k < 0.45:
                t = self.anytype()
                fields.append((fname, t, None, r.randint(1, 4)))
            else:
                fields.append((fname, self.anytype(), None, 0))
        st = Struct(name, fields)
        self.structs.append(st)
        decl = ["struct %s {" % name]
        for fname, t, bw, alen in fields:
            base = getattr(t, "base", t)
            if bw:
                decl.append("\t%s %s : %d;" % (base.name, fname, bw))
            elif alen:
                decl.append("\t%s %s[%d];" % (t.name, fname, alen))
            else:
                decl.append("\t%s %s;" % (t.name, fname))
        decl.append("};")
        return decl

    def bf_type(self, t, bw):
        """type object describing values of a bw-wide bit-field of declared type t; reads are cast to
        the declared type, writes convert modulo 2^bw (implementation-defined for signed)"""
        nt = T(t.name, "int", t.bits, t.signed)
        nt.base = t
        return nt

    def gen_global(self):
        r = self.r
        name = self.fresh("g")
        k = r.random()
        st_kw = r.choice(["", "static "])
        if k < 0.5 or not self.structs:
            t = self.anytype()
            self.globals.append(Var(name, t))
            return ["%s%s %s = %s;" % (st_kw, t.name, name, self.const(t))]
        if k < 0.75:
            t = self.anytype()
            n = r.randint(1, 6)
            self.globals.append(Var(name, t, "array", n))
            return ["%s%s %s[%d] = {%s};" % (st_kw, t.name, name, n, ", ".join(self.const(t) for _ in range(r.randint(1, n))))]
        st = r.choice(self.structs)
        self.globals.append(Var(name, None, "struct", fields=st))
        return ["%sstruct %s %s = %s;" % (st_kw, st.name, name, self.struct_init(st, [], const=True))]

    def gen_func(self):
        r = self.r
        name = self.fresh("f")
        nparams = r.randint(0, 4)
        pts, params, env = [], [], list(self.globals)
        for _ in range(nparams):
            pn = self.fresh("p")
            byval = [x for x in self.structs if not any(f[2] for f in x.fields)]
            if byval and self.opt["structs"] and r.random() < 0.25:
                # structs with bit-fields are not passed by value: known finding bitfield-unit-overlap-descriptor
                st = r.choice(byval)
                pts.append(st)
                params.append("struct %s %s" % (st.name, pn))
                env.append(Var(pn, None, "struct", fields=st))
            else:
                t = self.anytype()
                pts.append(t)
                params.append("%s %s" % (t.name, pn))
                env.append(Var(pn, t))
        k = r.random()
        if k < 0.15:
            rt = None
        elif k < 0.3 and [x for x in self.structs if not any(f[2] for f in x.fields)] and self.opt["structs"]:
            rt = r.choice([x for x in self.structs if not any(f[2] for f in x.fields)])
        else:
            rt = self.anytype()
        rname = "void" if rt is None else ("struct %s" % rt.name if isinstance(rt, Struct) else rt.name)
        body = self.stmts(env, int(2 * self.size), r.randint(2, int(3 + 5 * self.size)), 1,
                          {"ret": rt} if not isinstance(rt, Struct) else {})
        if rt is None:
            ret = []
        elif isinstance(rt, Struct):
            cands = [v for v in env if v.kind == "struct" and v.fields is rt]
            ret = ["\treturn %s;" % (r.choice(cands).name if cands else "(struct %s)%s" % (rt.name, self.struct_init(rt, env)))]
            self.feat("struct-return")
        else:
            ret = ["\treturn %s;" % self.expr(rt, env, 2)]
        # env mutated by decls inside stmts is local to stmts(); fine
        src = ["static %s %s(%s)" % (rname, name, ", ".join(params) if params else "void"), "{"] + body + ret + ["}"]
        self.funcs.append((name, rt, pts))
        return src

    def program(self):
        r = self.r
        src = ["void out(long);", "void outd(double);", ""]
        if self.opt["structs"]:
            for _ in range(r.randint(0, 3)):
                src += self.gen_struct() + [""]
        for _ in range(r.randint(1, 5)):
            src += self.gen_global()
        src.append("")
        for _ in range(r.randint(1, int(2 + 3 * self.size))):
            src += self.gen_func() + [""]
        env = list(self.globals)
        body = self.stmts(env, int(2 * self.size), r.randint(3, 8), 1, {})
        for name, rt, pts in self.funcs:
            body += self.call_stmt(env, 1)
        for g in self.globals:
            if g.kind == "scalar":
                body.append("\t{ double o_ = (double)%s; outd(o_ != o_ ? 0.0 : o_); }" % g.name if g.t.isflt else "\tout((long)%s);" % g.name)
        src += ["int main(void)", "{"] + body + ["\treturn (int)((%s) & 63);" % self.expr(self.type_named("unsigned"), env, 2), "}"]
        return "\n".join(src) + "\n"


def generate(seed, charsigned=True, **kw):
    g = ProgGen(random.Random(seed), charsigned=charsigned, **kw)
    return g.program(), g.features


if __name__ == "__main__":
    import sys
    s = int(sys.argv[1]) if len(sys.argv) > 1 else 0
    p, f = generate(s)
    print(p)

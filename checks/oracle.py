"""Native oracle for generated C programs: a program is *defined* for our purposes when gcc and
clang (-O0, UBSan+ASan, no recovery) both run it without a sanitizer report and produce the same
trace.  Anything else is dropped (and counted), never reported.  Traces use the format of
`drv_c03 run`: lines `out <u64>`, `outd 0x<16 hex>`, final `ret <status>`.
"""
import os
import subprocess

from . import common

OUTDRV = os.path.join(common.VERIF, "harness", "outdrv.c")


def _build_run(cc, src, exe, extra, timeout):
    r = subprocess.run([cc, "-std=gnu11", "-w", "-O0", "-ffp-contract=off", "-fno-builtin",
                        "-fsanitize=undefined,address", "-fno-sanitize-recover=all"] + extra +
                       ["-o", exe, src, OUTDRV], stdout=subprocess.PIPE, stderr=subprocess.STDOUT, text=True)
    if r.returncode != 0:
        return None, "compile: " + r.stdout[-300:]
    try:
        p = subprocess.run([exe], stdout=subprocess.PIPE, stderr=subprocess.PIPE, text=True, timeout=timeout,
                           env=dict(os.environ, ASAN_OPTIONS="detect_leaks=0"))
    except subprocess.TimeoutExpired:
        return None, "timeout"
    if p.returncode < 0 or "runtime error" in p.stderr or "AddressSanitizer" in p.stderr:
        return None, "ub: " + p.stderr[-300:]
    return p.stdout.splitlines() + ["ret %d" % p.returncode], None


def native_trace(src_path, workdir, charsigned=True, timeout=10):
    """Returns (trace, None) when defined, (None, reason) otherwise."""
    extra = ["-fsigned-char" if charsigned else "-funsigned-char"]
    t1, e1 = _build_run("gcc", src_path, os.path.join(workdir, "o_gcc"), extra, timeout)
    if t1 is None:
        return None, "gcc " + e1
    t2, e2 = _build_run("clang", src_path, os.path.join(workdir, "o_clang"), extra, timeout)
    if t2 is None:
        return None, "clang " + e2
    if t1 != t2:
        return None, "gcc and clang disagree"
    return t1, None


def il_trace(drv, ssa_path, func="main", fuel=20000000, timeout=120):
    """Run the emitted IL under the formal semantics (drv_c03 run)."""
    p = subprocess.run([drv, "run", ssa_path, func, "--fuel", str(fuel)], stdout=subprocess.PIPE,
                       stderr=subprocess.PIPE, text=True, timeout=timeout)
    return p.stdout.splitlines()

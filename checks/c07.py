"""C07 - initialised objects contain exactly the specified initial image.

Proof:   lean/CprocVerif/Props/C07.lean over Model/Init.lean (initadd with the `last` cursor,
         emitdata with the cross-byte bit accumulator and string patching, the obj[32] cursor
         machine of parseinit) against Spec/Image.lean (`foldl write zeros`) and Spec/InitRef.lean
         (recursive reading of C11 6.7.9).
Tie:     K-B  generated (type, initialiser) pairs -> C text -> freshly built cproc-qbe (three
              targets) -> every `data` definition decoded to (bytes, relocations, align, flags) ->
              compared with the model pipeline (drv_c07 `full`: parse -> initadd -> emitdata) and
              with the spec (`spec`: InitRef -> Image); sizeof/_Alignof emitted alongside.
         Spec validation: the same unit through `gcc -c` (x86-64): section bytes + relocations
              of every symbol vs Spec/InitRef+Image; a disagreement marks the check broken.
         Automatic half: `long g(int i){ T x = INIT; return ((unsigned char*)&x)[i]; }` executed
              with checks/ilpy.py for every byte; non-padding bits must equal the static image.
         Malformed stream (ASan build): excess initialisers, designator out of range, > 31 nested
              designators / braces, non-constant initialiser: exit 1 with a diagnostic, no crash.
"""
import os
import re
import struct
import subprocess

from . import common, ilpy
from .common import Broken

TARGETS = ["x86_64-sysv", "aarch64", "riscv64"]
FID_UNION = "union-member-switch"
FID_REINIT = "braced-subobject-reinit-keeps-members"
FID_AUTO = "auto-zero-after-patch"

# ----------------------------------------------------------------------------- types
# name: (C text, cls, size, signed(None = target char), kind)
INTS = {
    "char": ("char", 1, 1, None), "schar": ("signed char", 2, 1, True), "uchar": ("unsigned char", 3, 1, False),
    "short": ("short", 4, 2, True), "ushort": ("unsigned short", 5, 2, False),
    "int": ("int", 6, 4, True), "uint": ("unsigned", 7, 4, False),
    "long": ("long", 8, 8, True), "ulong": ("unsigned long", 9, 8, False),
    "llong": ("long long", 10, 8, True), "ullong": ("unsigned long long", 11, 8, False),
    "bool": ("_Bool", 12, 1, False),
}
FLTS = {"float": ("float", 4), "double": ("double", 8)}
PTRS = {"intp": "int *", "charp": "char *", "voidp": "void *", "longp": "long *", "gsp": "struct G *",
        "fnp": "fn_t *", "ccharp": "const char *"}

PRELUDE = """typedef void fn_t(void);
struct G { char c; short h; int w; long l; };
extern int gi[8]; extern long gl[4]; extern char gc[16]; extern struct G gs; void gf(void); void gf2(void);
"""
PRELUDE_DEFS = "int gi[8]; long gl[4]; char gc[16]; struct G gs;\n"
G_OFFS = {"c": 0, "h": 2, "w": 4, "l": 8}


class Sc:
    def __init__(self, name):
        self.name = name
        if name in INTS:
            self.ctext, self.cls, self.size, self.signed = INTS[name]
            self.kind = "int"
        elif name in FLTS:
            self.ctext, self.size = FLTS[name]
            self.kind = "flt"
        else:
            self.ctext, self.size, self.kind = PTRS[name], 8, "ptr"
        self.align = self.size


class Arr:
    def __init__(self, n, elem):
        self.n, self.elem = n, elem       # n None = unknown size (outermost only)
        self.align = elem.align

    @property
    def size(self):
        return (self.n or 0) * self.elem.size


class Mem:
    def __init__(self, name, ty, width=None):
        self.name, self.ty, self.width = name, ty, width   # name None: anonymous member / unnamed bit-field
        self.off = self.before = self.after = 0


class Agg:
    ntag = 0

    def __init__(self, is_union, decls):
        """decls: list of Mem in declaration order (unnamed bit-fields included)."""
        Agg.ntag += 1
        self.tag = Agg.ntag
        self.is_union = is_union
        self.decls = decls
        self.layout()

    def layout(self):
        """decl.c:addmember + the final ALIGNUP, for non-packed structs without _Alignas."""
        size, align, bits = 0, 1, 0
        self.members = []
        for m in self.decls:
            t = m.ty
            if m.width is None:
                a = t.align
                if not self.is_union:
                    m.off = (size + a - 1) // a * a
                    size = m.off + t.size
                else:
                    m.off = 0
                    size = max(size, t.size)
                bits = 0
                self.members.append(m)
                align = max(align, a)
            else:
                w = m.width
                a = t.align
                if not self.is_union:
                    end = (size + t.size - 1) // t.size * t.size
                    if w == 0 or w > (end - size) * 8 + bits:
                        size = end
                        bits = 0
                    if m.name is not None:
                        m.off = (size - (1 if bits else 0)) // t.size * t.size
                        m.before = (size - m.off) * 8 - bits
                        m.after = t.size * 8 - w - m.before
                    size += (w - bits + 7) // 8
                    bits = (bits - w) % 8
                elif m.name is not None:
                    m.off, m.before, m.after = 0, 0, t.size * 8 - w
                    size = max(size, t.size)
                if m.name is not None:
                    self.members.append(m)
                    align = max(align, a)
        self.align = align
        self.size = (size + align - 1) // align * align


def c_type_decl(t, out, done):
    """emit struct/union definitions needed by t (inner first); returns nothing."""
    if isinstance(t, Arr):
        c_type_decl(t.elem, out, done)
    elif isinstance(t, Agg):
        if t.tag in done:
            return
        done.add(t.tag)
        def inner(a):
            for m in a.decls:
                if m.width is not None:
                    continue
                if m.name is None:
                    inner(m.ty)                    # anonymous member: defined inline, its members' types first
                elif isinstance(m.ty, (Agg, Arr)):
                    c_type_decl(m.ty, out, done)
        inner(t)
        out.append(agg_def(t, named=True) + ";")


def agg_def(t, named):
    body = []
    for m in t.decls:
        if m.width is not None:
            body.append("%s %s:%d;" % (m.ty.ctext, m.name or "", m.width))
        elif m.name is None:
            body.append(agg_def(m.ty, named=False) + ";")      # anonymous struct/union member
        else:
            body.append(c_decl(m.ty, m.name) + ";")
    return "%s %s{ %s }" % ("union" if t.is_union else "struct", "T%d " % t.tag if named else "", " ".join(body))


def c_decl(t, name):
    dims = ""
    while isinstance(t, Arr):
        dims += "[%s]" % ("" if t.n is None else t.n)
        t = t.elem
    if isinstance(t, Agg):
        return "%s T%d %s%s" % ("union" if t.is_union else "struct", t.tag, name, dims)
    if t.kind == "ptr":
        base = t.ctext.rstrip("*").rstrip()
        return "%s *%s%s" % (base, name, dims) if not dims else "%s *%s%s" % (base, name, dims)
    return "%s %s%s" % (t.ctext, name, dims)


def c_typename(t):
    return c_decl(t, "").replace(" [", "[").strip() if not isinstance(t, Arr) else c_decl(t, "").strip()


def drv_type(t, tg):
    if isinstance(t, Sc):
        if t.kind == "int":
            sg = t.signed if t.signed is not None else tg["signedchar"]
            return "i%d.%d.%d" % (t.cls, t.size, 1 if sg else 0)
        if t.kind == "flt":
            return "f%d" % t.size
        return "p"
    if isinstance(t, Arr):
        return "A%d(%s)" % (t.n or 0, drv_type(t.elem, tg))
    ms = ";".join("%s:%d.%d.%d:%s" % (m.name or "_", m.off, m.before, m.after, drv_type(m.ty, tg)) for m in t.members)
    return "%s%d.%d{%s}" % ("U" if t.is_union else "S", t.tag, t.size, ms)


TARGINFO = {"x86_64-sysv": {"signedchar": True, "wchar": "int"}, "aarch64": {"signedchar": False, "wchar": "uint"},
            "riscv64": {"signedchar": False, "wchar": "int"}}


# ----------------------------------------------------------------------------- initialiser trees
class E:
    """leaf expression: C text + model syntax."""

    def __init__(self, c, m, tags=()):
        self.c, self.m, self.tags = c, m, tuple(tags)


class L:
    """brace list: items = [(designators, E|L)], designator = int | str."""

    def __init__(self, items):
        self.items = items


def ini_c(x):
    if isinstance(x, E):
        return x.c
    parts = []
    for ds, i in x.items:
        d = "".join("[%d]" % k if isinstance(k, int) else ".%s" % k for k in ds)
        parts.append((d + " = " if d else "") + ini_c(i))
    return "{" + ", ".join(parts) + "}"


def ini_m(x):
    if isinstance(x, E):
        return x.m
    parts = []
    for ds, i in x.items:
        d = "".join("[%d]" % k if isinstance(k, int) else ".%s" % k for k in ds)
        parts.append((d + "=" if d else "") + ini_m(i))
    return "{" + ";".join(parts) + "}"


def f32bits(x):
    return struct.unpack("<I", struct.pack("<f", x))[0]


def f64bits(x):
    return struct.unpack("<Q", struct.pack("<d", x))[0]


def int_lit(v):
    if v < 0:
        if v == -2**63:
            return "(-9223372036854775807LL-1)"
        return "(-%d%s)" % (-v, "" if -v < 2**31 else "LL")
    if v >= 2**63:
        return "%dULL" % v
    return "%d%s" % (v, "" if v < 2**31 else "LL")


STRS = ["", "a", "hi", "abc", "wxyz", "hello", "Q{z}", "a,b", "quo\\\"te", "tab\\tx", "0123456789", "\\377\\001"]


def str_bytes(s):
    """bytes of the C string literal body s (only the escapes used in STRS)."""
    out, i = [], 0
    while i < len(s):
        if s[i] == "\\":
            if s[i + 1] in "01234567":
                out.append(int(s[i + 1:i + 4], 8)); i += 4
            else:
                out.append({"t": 9, "n": 10, '"': 34, "\\": 92}[s[i + 1]]); i += 2
        else:
            out.append(ord(s[i])); i += 1
    return out


class Gen:
    nname = 0

    def __init__(self, rng, tg, stats):
        self.rng, self.tg, self.stats = rng, tg, stats
        self.strlits = {}        # id -> (width, [elements with terminator])
        self.clits = []          # compound literals: (id, type, ini)
        self.budget = 0
        self.top_unsized = False   # `T a[] = …` (historical: `{}` as first element used to be avoided)

    def hist(self, k, sub):
        d = self.stats.setdefault(k, {})
        d[sub] = d.get(sub, 0) + 1

    # ---- types
    def scalar(self, allow_ptr=True):
        r = self.rng.random()
        if r < 0.62:
            return Sc(self.rng.choice(list(INTS)))
        if r < 0.74 or not allow_ptr:
            return Sc(self.rng.choice(list(FLTS)))
        return Sc(self.rng.choice(list(PTRS)))

    def gen_type(self, depth):
        r = self.rng.random()
        if depth <= 0 or r < 0.25:
            return self.scalar()
        if r < 0.5:
            e = self.gen_type(depth - 1)
            if r < 0.32:
                e = Sc(self.rng.choice(["char", "schar", "uchar", "ushort", "uint", "int"]))
            n = self.rng.choice([1, 2, 2, 3, 3, 4, 5, 8])
            while e.size * n > 160 and n > 1:
                n -= 1
            return Arr(n, e)
        return self.gen_agg(depth, self.rng.random() < 0.25)

    def gen_agg(self, depth, is_union):
        n = self.rng.randint(1, 5)
        decls = []

        def names():
            while True:
                Gen.nname += 1
                yield "%d" % Gen.nname
        names = names()
        pre = "m"
        for _ in range(n):
            r = self.rng.random()
            if r < 0.3:
                base = Sc(self.rng.choice(list(INTS)))
                k = self.rng.randint(1, 3)
                for _ in range(k):
                    rr = self.rng.random()
                    maxw = 1 if base.name == "bool" else base.size * 8
                    if rr < 0.12 and not is_union:
                        decls.append(Mem(None, base, self.rng.choice([0, 0, self.rng.randint(1, maxw)])))
                    else:
                        w = self.rng.choice([1, 1, 2, 3, 7, 8, 9, maxw - 1, maxw, self.rng.randint(1, maxw)])
                        w = max(1, min(w, maxw))
                        decls.append(Mem(pre + next(names), base, w))
                        self.hist("bitfield_width", w)
                        self.hist("bitfield_base", base.name)
                    if self.rng.random() < 0.3:
                        base = Sc(self.rng.choice(list(INTS)))
            elif r < 0.42 and depth > 1:
                inner = self.gen_agg(depth - 1, self.rng.random() < 0.3)
                if any(m.name for m in inner.members):
                    decls.append(Mem(None, inner))          # anonymous struct/union member
                    self.hist("shape", "anon-member")
            else:
                decls.append(Mem(pre + next(names), self.gen_type(depth - 1)))
        if not any(m.name is not None or (m.width is None) for m in decls):
            decls.append(Mem(pre + next(names), Sc("int")))
        t = Agg(is_union, decls)
        if not t.members:
            t = Agg(is_union, decls + [Mem(pre + "z", Sc("int"))])
        return t

    # ---- leaves
    def expr_for(self, t, bf_width=None):
        rng = self.rng
        if t.kind == "int":
            r = rng.random()
            if t.name == "bool":
                if r < 0.3:
                    x = rng.choice([0.0, 0.5, 2.25])
                    return E(repr(x), "n%d.%d.%d.%d" % (int(x), x != 0, f32bits(x), f64bits(x)), ["bool<-flt"])
                v = rng.choice([0, 1, 2, 256, -1, 0x100000000])
                return E(int_lit(v), "n%d.%d.0.0" % (v, v != 0), ["bool<-int"])
            bits = bf_width or t.size * 8
            if r < 0.35:
                v = rng.randint(-3, 200)
            elif r < 0.6:
                v = rng.choice([(1 << bits) - 1, 1 << (bits - 1), (1 << (bits - 1)) - 1, -(1 << (bits - 1)), -1, 1 << bits,
                                (1 << bits) + 5, (1 << min(bits + 3, 63)) - 2])
            elif r < 0.8:
                v = rng.randint(-2**63, 2**64 - 1)
            elif r < 0.9:
                v = rng.randint(-2**31, 2**31 - 1)
            else:
                # out-of-range float -> integer conversion is undefined (6.3.1.4): stay inside the field
                x = rng.choice([0.0] + ([1.5] if bits >= 2 else []) + ([2.75, 7.0] if bits >= 4 else []) +
                               ([100.0] if bits >= 8 else []))
                return E(repr(x), "n%d.%d.%d.%d" % (int(x), x != 0, f32bits(x), f64bits(x)), ["int<-flt"])
            v = max(-2**63, min(v, 2**64 - 1))
            if t.size == 1 and bf_width is None and 32 <= v < 127 and v not in (39, 92) and rng.random() < 0.5:
                return E("'%c'" % v, "n%d.1.0.0" % v, ["charconst"])
            return E(int_lit(v), "n%d.%d.0.0" % (v, v != 0), ["int"])
        if t.kind == "flt":
            if rng.random() < 0.3:
                v = rng.randint(-1000, 1000)
                return E(int_lit(v), "n%d.%d.%d.%d" % (v, v != 0, f32bits(float(v)), f64bits(float(v))), ["flt<-int"])
            x = rng.choice([0.0, 1.0, 1.5, -0.25, 3.75, 1024.5, -7.0, 0.125])
            if rng.random() < 0.2:
                x = rng.choice([0.1, 3.14159, 1e10, 2.5e-3])
                suffix = ""
            else:
                suffix = rng.choice(["", "", "f"])
            x32 = struct.unpack("<f", struct.pack("<f", x))[0]
            xv = x32 if suffix == "f" else x
            return E(repr(x) + suffix, "n%d.%d.%d.%d" % (int(xv), xv != 0, f32bits(xv), f64bits(xv)), ["flt"])
        return self.ptr_expr(t)

    def strlit(self, w_kind=""):
        rng = self.rng
        s = rng.choice(STRS)
        b = str_bytes(s)
        if w_kind:
            b = [x for x in b if x < 128]
            s = "".join(chr(x) if 32 <= x < 127 and x not in (34, 92) else "\\%03o" % x for x in b)
        sid = "@s%d" % len(self.strlits)
        width = {"": 1, "u8": 1, "u": 2, "U": 4, "L": 4}[w_kind]
        self.strlits[sid] = (width, b + [0])
        return sid, w_kind + '"' + s + '"', b + [0], width

    def ptr_expr(self, t):
        rng = self.rng
        r = rng.random()
        cast = "(%s)" % c_typename(t)
        if r < 0.15:
            z = rng.choice(["0", "(void *)0", "0L"])
            return E(z if t.name != "fnp" or z != "(void *)0" else "0", "n0.0.0.0", ["ptr-null"])
        if t.name == "fnp":
            f = rng.choice(["gf", "gf2"])
            return E(rng.choice(["%s", "&%s"]) % f, "a%s+0" % f, ["ptr-func"])
        if r < 0.35:
            k = rng.randint(0, 8)
            form = rng.choice(["&gi[%d]", "gi + %d", "%d + gi"]) % k
            return E(cast + "(" + form + ")" if t.name != "intp" else form, "agi+%d" % (4 * k), ["ptr-array-elem"])
        if r < 0.5:
            f = rng.choice(list(G_OFFS))
            return E(cast + "&gs.%s" % f, "ags+%d" % G_OFFS[f], ["ptr-member"])
        if r < 0.65:
            k = rng.randint(0, 15)
            return E(cast + "((char *)&gs + %d)" % k, "ags+%d" % k, ["ptr-cast-offset"])
        if r < 0.75:
            k, j = rng.randint(2, 4), rng.randint(0, 2)
            return E(cast + "(&gl[%d] - %d)" % (k, j), "agl+%d" % (8 * (k - j)), ["ptr-sub"])
        if r < 0.9 or self.budget <= 0 or getattr(self, "nocl", False):
            sid, txt, b, w = self.strlit()
            k = rng.randint(0, len(b) - 1)
            if k == 0 and rng.random() < 0.5:
                return E(cast + txt, "a%s+0" % sid, ["ptr-string"])
            return E(cast + "(%s + %d)" % (txt, k), "a%s+%d" % (sid, k), ["ptr-string-offset"])
        # pointer to a compound literal at file scope
        ct = Arr(rng.randint(1, 3), Sc(rng.choice(["int", "short", "long"]))) if rng.random() < 0.5 else self.gen_agg(1, False)
        self.budget -= 5
        save, self.nocl = getattr(self, "nocl", False), True
        ci = self.gen_braced(ct, depth=0, nocl=True)
        self.nocl = save
        cid = "@c%d" % len(self.clits)
        self.clits.append((cid, ct, ci))
        txt = "(%s)%s" % (c_typename(ct), ini_c(ci))
        return E(cast + ("&" if isinstance(ct, Agg) else "") + txt, "a%s+0" % cid, ["ptr-compound-literal"])

    # ---- initialisers (by construction valid; every leaf knows its target)
    def children(self, t, positional):
        """[(designator, type, bf_width)] of the sub-objects of aggregate t in order."""
        if isinstance(t, Arr):
            n = t.n if t.n is not None else 6
            return [(k, t.elem, None) for k in range(n)]
        ms = t.members[:1] if (t.is_union and positional) else t.members
        return [(m.name, m.ty, m.width) for m in ms]

    def is_strable(self, t):
        return isinstance(t, Arr) and isinstance(t.elem, Sc) and t.elem.kind == "int" and t.elem.name != "bool" and \
            t.elem.name in ("char", "schar", "uchar", "ushort", "uint", "int")

    def string_for(self, t):
        e = t.elem.name
        if e in ("char", "schar", "uchar"):
            kind = self.rng.choice(["", "", "", "u8"])
        elif e == "ushort":
            kind = "u"
        elif e == "uint":
            kind = "U" if self.tg["wchar"] == "int" or self.rng.random() < 0.5 else "L"
        else:
            if self.tg["wchar"] != "int":
                return None
            kind = "L"
        sid, txt, b, w = self.strlit(kind)
        n = t.n
        rel = "unsized" if n is None else ("shorter" if len(b) < n else "exact" if len(b) - 1 == n else
                                           "equal" if len(b) == n else "longer")
        self.hist("strings", "%s%s" % (kind or "plain", "-" + rel))
        if n is not None and len(b) - 1 > n:
            self.hist("strings", "truncated")
        cls = {"": 1, "u8": 3, "u": 5, "U": 7, "L": 6 if self.tg["wchar"] == "int" else 7}[kind]
        return E(txt, "s%d.%d:%s" % (w, cls, "/".join(map(str, b))), ["string"])

    def gen_one(self, t, bfw, depth, may_partial, nocl=False, nobrace=False, noempty=False, nostr=False):
        """(items, complete): undesignated items initialising one sub-object of type t positionally;
        complete = the sub-object was consumed entirely (the cursor stands behind it).
        nobrace: the first item must not begin with `{` (it is the first initialiser of a
        brace-elided aggregate: a brace there would be taken as that aggregate's own, 6.7.9p20)."""
        rng = self.rng
        self.budget -= 1
        if isinstance(t, Sc):
            e = self.expr_for(t, bfw)
            if rng.random() < 0.06 and not nobrace:
                self.hist("shape", "braced-scalar")
                return [([], L([([], e)]))], True
            return [([], e)], True
        # nostr: positional items that follow a nested designator; gcc 12 and clang 14 each mis-place a
        # string literal there (gcc re-initialises the current array, clang drops it), so no reference
        if self.is_strable(t) and rng.random() < 0.45 and not nostr:
            s = self.string_for(t)
            if s is not None:
                if rng.random() < 0.3 and not nobrace:
                    self.hist("strings", "in-braces")
                    return [([], L([([], s)]))], True
                return [([], s)], True
        r = rng.random()
        if (r < 0.62 or self.budget <= 0) and not nobrace:
            return [([], self.gen_braced(t, depth, nocl, noempty))], True
        # brace elision: the flattened sub-objects
        self.hist("shape", "brace-elided")
        ch = self.children(t, True)
        k = len(ch)
        if may_partial and rng.random() < 0.5:
            k = rng.randint(1, len(ch))
        out = []
        for idx, (_, ct, w) in enumerate(ch[:k]):
            one, comp = self.gen_one(ct, w, depth + 1, may_partial and idx == k - 1, nocl, nobrace=(idx == 0),
                                     noempty=isinstance(t, Arr) and idx == 0, nostr=nostr)
            out += one
            if not comp:
                self.hist("shape", "elided-partial")
                return out, False
        if k < len(ch):
            self.hist("shape", "elided-partial")
        return out, k == len(ch)

    def gen_braced(self, t, depth, nocl=False, noempty=False):
        rng = self.rng
        if isinstance(t, Sc):
            return L([([], self.expr_for(t))])
        items = []
        chpos = self.children(t, True)
        chall = self.children(t, False)
        # `{}` (C23) also as the first element of an array: fixed finding empty-brace-first-element
        # (`noempty` is kept in the signatures, it no longer restricts anything)
        if rng.random() < 0.04 and not (isinstance(t, Arr) and t.n is None):
            self.hist("shape", "empty-braces")
            return L([])
        pos = 0
        steps = rng.randint(1, max(1, min(len(chall) + 2, 7)))
        mode = rng.choice(["pos", "pos", "desig", "mixed", "mixed", "override"])
        used_desig = used_pos = False
        after_nested = False
        for s in range(steps):
            last = s == steps - 1
            if self.budget <= -40:
                break
            want_desig = {"pos": 0.0, "desig": 1.0, "mixed": 0.4, "override": 0.6}[mode] > rng.random() or pos is None
            if not want_desig:
                if pos >= len(chpos):
                    if mode == "pos":
                        break
                    want_desig = True
                else:
                    _, ct, w = chpos[pos]
                    one, comp = self.gen_one(ct, w, depth + 1, last, nocl,
                                             noempty=isinstance(t, Arr) and pos == 0 and not items, nostr=after_nested)
                    items += one
                    pos += 1
                    used_pos = True
                    if not comp:
                        break
                    continue
            # designated item: path into the object
            if mode == "override" and pos not in (None, 0) and rng.random() < 0.7:
                p = rng.randint(0, min(pos, len(chall)) - 1)
                self.hist("overrides", "redesignate-earlier")
            else:
                p = rng.randint(0, len(chall) - 1)
            path = [(t, p)]
            d, ct, w = chall[p]
            ds = [d]
            while not isinstance(ct, Sc) and (d is None or rng.random() < 0.4) and len(ds) < 5:
                sub = self.children(ct, False)
                q = rng.randint(0, len(sub) - 1)
                path.append((ct, q))
                d, ct, w = sub[q]
                ds.append(d)
            if d is None:
                continue            # an anonymous member cannot be designated itself
            if any(x is None for x in ds):
                self.hist("designators", "through-anonymous")
            ds = [x for x in ds if x is not None]
            used_desig = True
            after_nested = len(path) > 1
            self.hist("designators", "depth-%d" % len(ds))
            self.hist("designators", "".join("i" if isinstance(x, int) else "f" for x in ds))
            one, comp = self.gen_one(ct, w, depth + 1, last, nocl)
            # the same oracle problem (gcc 12 misplaces a following string literal, clang 14 and cproc agree with
            # the reference) after a designated aggregate whose initialiser has no braces of its own, e.g.
            # `char o[2][1] = {[0] = {[0] = 1}, [0] = 127, "a"};`
            if not isinstance(ct, Sc) and not isinstance(one[0][1], L):
                after_nested = True
            items.append((ds, one[0][1]))
            items += one[1:]
            if not comp:
                break
            # continue forward, level by level (6.7.9p17)
            lvl = len(path) - 1
            cont_ok = True
            stop = False
            while cont_ok and lvl >= 1:
                at, q = path[lvl]
                if isinstance(at, Agg) and at.is_union:
                    rest = []
                else:
                    rest = self.children(at, True)[q + 1:]
                take = rng.randint(0, len(rest)) if rng.random() < 0.5 else 0
                for j, (_, rt, rw) in enumerate(rest[:take]):
                    one, comp = self.gen_one(rt, rw, depth + 1, last and j == take - 1, nocl, nostr=True)
                    items += one
                    self.hist("shape", "continue-after-nested-designator")
                    if not comp:
                        stop = True
                        break
                if stop:
                    break
                if take < len(rest):
                    cont_ok = False
                lvl -= 1
            if stop:
                break
            if cont_ok and not (isinstance(t, Agg) and t.is_union):
                pos = p + 1
            else:
                pos = None
        if not items:
            _, ct, w = chpos[0]
            one, _ = self.gen_one(ct, w, depth + 1, True, nocl, noempty=isinstance(t, Arr))
            items += one
        self.hist("mode", ("designated" if used_desig else "") + ("+" if used_desig and used_pos else "") +
                  ("positional" if used_pos else ""))
        return L(items)


# ----------------------------------------------------------------------------- objects and units
STORAGES = ["", "", "", "static ", "_Thread_local ", "static _Thread_local ", "block-static"]


class Obj:
    def __init__(self, name, ty, ini, storage, gen):
        self.name, self.ty, self.ini, self.storage = name, ty, ini, storage
        self.inc = isinstance(ty, Arr) and ty.n is None
        self.strlits, self.clits = gen.strlits, gen.clits

    def c_text(self):
        out, done = [], set()
        c_type_decl(self.ty, out, done)
        for _, ct, _ in self.clits:
            c_type_decl(ct, out, done)
        decl = "%s = %s;" % (c_decl(self.ty, self.name), ini_c(self.ini))
        if self.storage == "block-static":
            out.append("void fn_%s(void) { static %s }" % (self.name, decl))
        else:
            out.append(self.storage + decl)
            out.append("unsigned long zz_%s[2] = {sizeof %s, _Alignof(%s)};" % (self.name, self.name,
                       c_typename(self.ty) if not self.inc else c_typename(self.ty.elem)))
        return "\n".join(out)

    def auto_text(self):
        out, done = [], set()
        c_type_decl(self.ty, out, done)
        for _, ct, _ in self.clits:
            c_type_decl(ct, out, done)
        out.append("long g_%s(int i) { %s = %s; return ((unsigned char *)&%s)[i]; }" %
                   (self.name, c_decl(self.ty, self.name), ini_c(self.ini), self.name))
        return "\n".join(out)


def gen_object(rng, tg, stats, idx):
    g = Gen(rng, tg, stats)
    g.budget = rng.choice([6, 12, 25, 40])
    storage = rng.choice(STORAGES)
    nocl = storage == "block-static"     # a compound literal in a function body is not static
    r = rng.random()
    if r < 0.12:
        e = g.gen_type(1)
        if rng.random() < 0.4:
            e = Sc(rng.choice(["char", "uchar", "ushort", "uint", "int", "long"]))
        ty = Arr(None, e)
        g.top_unsized = True
        g.hist("shape", "unsized-array")
    elif r < 0.2:
        ty = g.scalar()
    else:
        ty = g.gen_type(rng.choice([1, 2, 2, 3]))
    if nocl:
        g.budget = min(g.budget, 0) if False else g.budget
    g.nocl = nocl
    if isinstance(ty, Sc):
        ini = g.expr_for(ty) if rng.random() < 0.8 else L([([], g.expr_for(ty))])
    elif g.is_strable(ty) and rng.random() < 0.4:
        s = g.string_for(ty)
        ini = s if s is not None else g.gen_braced(ty, 0, nocl)
        if s is not None and rng.random() < 0.3:
            ini = L([([], s)])
    else:
        ini = g.gen_braced(ty, 0, nocl)
    g.hist("storage", storage.strip() or "extern")
    g.hist("type", type_shape(ty))
    return Obj("o%d" % idx, ty, ini, storage, g)


def gen_bf_object(rng, tg, stats, idx):
    """struct of small scalars and bit-fields of mixed base types packed into shared storage units (`char c; int a:4;`,
    `unsigned char lo:4; unsigned mid:10;`, unnamed gaps): the shapes in which a bit-field's unit overlaps its
    neighbours, for the automatic-object stream (funcinit's zeroing and read-modify-write stores)"""
    g = Gen(rng, tg, stats)
    g.budget = 40
    g.nocl = True
    decls = []
    for k in range(rng.randint(2, 7)):
        r = rng.random()
        if r < 0.35:
            decls.append(Mem("b%d" % k, Sc(rng.choice(["char", "uchar", "schar", "short", "ushort", "bool"]))))
        elif r < 0.42 and decls:
            base = Sc(rng.choice(["int", "uint", "uchar", "ushort"]))
            decls.append(Mem(None, base, rng.randint(1, min(12, base.size * 8))))
        else:
            base = Sc(rng.choice(["int", "uint", "uchar", "schar", "ushort", "short", "long", "ulong", "int", "uint"]))
            w = rng.choice([1, 2, 3, 4, 5, 7, 9, 10, 12, rng.randint(1, base.size * 8)])
            decls.append(Mem("b%d" % k, base, max(1, min(w, base.size * 8))))
    if not any(m.name for m in decls):
        decls.append(Mem("bz", Sc("int")))
    ty = Agg(False, decls)
    ini = g.gen_braced(ty, 0, True)
    g.hist("shape", "bitfield-dense")
    return Obj("o%d" % idx, ty, ini, "", g)


def type_shape(t, d=0):
    if isinstance(t, Sc):
        return t.kind
    if d >= 2:
        return "…"
    if isinstance(t, Arr):
        return "arr(%s)" % type_shape(t.elem, d + 1)
    kinds = sorted({("bf" if m.width is not None else type_shape(m.ty, d + 1)) for m in t.members})
    return "%s{%s}" % ("union" if t.is_union else "struct", ",".join(kinds))


# ----------------------------------------------------------------------------- cproc output
class Data:
    def __init__(self):
        self.cells = []          # int or ("rel", sym, addend, k)
        self.align = 0
        self.export = self.thread = False


def parse_items(body):
    """decode the item list between `{` and `}` of a data definition into cells."""
    cells = []
    i, n = 0, len(body)

    def skip():
        nonlocal i
        while i < n and body[i] in " ,\t":
            i += 1
    skip()
    while i < n:
        ty = body[i]
        if ty not in "bhwlsdz" or i + 1 >= n or body[i + 1] != " ":
            raise Broken("cannot parse data item at %r" % body[i:i + 30])
        i += 2
        width = {"b": 1, "h": 2, "w": 4, "l": 8, "s": 4, "d": 8, "z": 0}[ty]
        # values until the next ',' (strings may contain anything)
        while i < n and body[i] != ",":
            if body[i] == " ":
                i += 1
                continue
            if body[i] == '"':
                i += 1
                while body[i] != '"':
                    if body[i] == "\\":
                        cells.append(int(body[i + 1:i + 4], 8)); i += 4
                    else:
                        cells.append(ord(body[i])); i += 1
                i += 1
                continue
            j = i
            while j < n and body[j] not in " ,":
                j += 1
            tok = body[i:j]
            i = j
            if ty == "z":
                cells += [0] * int(tok)
            elif tok.startswith("$"):
                sym, add = tok[1:], 0
                m = re.match(r"\s*\+\s*(\d+)", body[i:])
                if m:
                    add = int(m.group(1))
                    i += m.end()
                cells += [("rel", sym, add, k) for k in range(width)]
            elif tok.startswith("s_"):
                cells += list(struct.pack("<f", float(tok[2:])))
            elif tok.startswith("d_"):
                cells += list(struct.pack("<d", float(tok[2:])))
            else:
                cells += list((int(tok) & ((1 << (8 * width)) - 1)).to_bytes(width, "little"))
        skip()
    return cells


def parse_cproc(text):
    datas = {}
    for ln in text.split("\n"):
        m = re.match(r"(thread )?(export )?data \$(\S+) = align (\d+) \{ (.*)\}\s*$", ln)
        if not m:
            continue
        d = Data()
        d.thread, d.export, d.align = bool(m.group(1)), bool(m.group(2)), int(m.group(4))
        d.cells = parse_items(m.group(5))
        datas[m.group(3)] = d
    return datas


def find_data(datas, name, block):
    if not block:
        return datas.get(name)
    for k, v in datas.items():
        if re.match(r"\.L%s\.\d+$" % re.escape(name), k):
            return v
    return None


def parse_image(txt):
    """driver image syntax -> cells."""
    cells, i = [], 0
    while i < len(txt):
        if txt[i] == "[":
            j = txt.index("]", i)
            m = re.match(r"(.*)\+(\d+):(\d+)$", txt[i + 1:j])
            cells.append(("rel", m.group(1), int(m.group(2)), int(m.group(3))))
            i = j + 1
        else:
            cells.append(int(txt[i:i + 2], 16))
            i += 2
    return cells


# ----------------------------------------------------------------------------- comparing images
def cmp_cells(obj, want, got, resolve):
    """want: model/spec cells with symbolic relocation targets; got: decoded from a compiler.
    resolve(sym, addend, want_sym, want_addend) -> None if the relocation denotes the expected
    object, else a reason.  Returns None or a description of the first difference."""
    if len(want) != len(got):
        return "size %d != %d" % (len(got), len(want))
    for j, (w, g) in enumerate(zip(want, got)):
        if isinstance(w, tuple) != isinstance(g, tuple):
            return "byte %d: %r vs %r" % (j, g, w)
        if isinstance(w, tuple):
            if w[3] != g[3]:
                return "byte %d: relocation byte index %r vs %r" % (j, g, w)
            why = resolve(g[1], g[2], w[1], w[2])
            if why:
                return "byte %d: relocation %s+%d, expected %s+%d: %s" % (j, g[1], g[2], w[1], w[2], why)
        elif w != g:
            return "byte %d: got %#04x expected %#04x" % (j, g, w)
    return None


def hexcells(cells):
    return "".join("%02x" % c if isinstance(c, int) else "[%s+%d:%d]" % c[1:] for c in cells)


# ----------------------------------------------------------------------------- gcc reference
class GccObj:
    def __init__(self, path, workdir):
        self.path = path
        r = common.sh(["objdump", "-t", "-r", path])
        if r.returncode != 0:
            raise Broken("objdump failed: " + r.stdout[-500:])
        self.syms = {}         # name -> (section, value, size)
        self.bysec = {}        # section -> [(value, size, name)]
        self.relocs = {}       # section -> {offset: (symbol, addend)}
        cur = None
        for ln in r.stdout.split("\n"):
            m = re.match(r"RELOCATION RECORDS FOR \[(.*)\]:", ln)
            if m:
                cur = m.group(1)
                self.relocs[cur] = {}
                continue
            m = re.match(r"([0-9a-f]{16}) (\S+)\s+(\S+?)(?:([+-])0x([0-9a-f]+))?$", ln)
            if m and cur and m.group(2).startswith("R_"):
                add = int(m.group(5), 16) if m.group(5) else 0
                if m.group(4) == "-":
                    add = -add
                self.relocs[cur][int(m.group(1), 16)] = (m.group(2), m.group(3), add)
                continue
            m = re.match(r"([0-9a-f]{16}) (.{7}) (\S+)\s+([0-9a-f]{16}) (\S+)$", ln)
            if m and m.group(3) not in ("*UND*", "*ABS*"):
                val, size, name, sec = int(m.group(1), 16), int(m.group(4), 16), m.group(5), m.group(3)
                if "d" in m.group(2) and name == sec:
                    continue      # section symbol
                self.syms[name] = (sec, val, size)
                self.bysec.setdefault(sec, []).append((val, size, name))
        self.secbytes = {}
        self.workdir = workdir

    def section(self, sec):
        if sec not in self.secbytes:
            if sec.startswith((".bss", ".tbss")):
                self.secbytes[sec] = None
            else:
                out = os.path.join(self.workdir, "sec.bin")
                r = common.sh(["objcopy", "-O", "binary", "--only-section=" + sec, self.path, out])
                if r.returncode != 0:
                    raise Broken("objcopy failed: " + r.stdout[-300:])
                self.secbytes[sec] = open(out, "rb").read()
        return self.secbytes[sec]

    def cells(self, name):
        if name not in self.syms:
            return None
        sec, val, size = self.syms[name]
        b = self.section(sec)
        cells = [0] * size if b is None else list(b[val:val + size])
        if len(cells) != size:
            raise Broken("gcc section %s too short for %s" % (sec, name))
        for off, (rty, sym, add) in self.relocs.get(sec, {}).items():
            if val <= off < val + size:
                if rty != "R_X86_64_64":
                    raise Broken("unexpected relocation type %s" % rty)
                for k in range(8):
                    cells[off - val + k] = ("rel", sym, add, k)
        return cells

    def locate(self, sym, add):
        """(symbol, offset) for a section-relative relocation."""
        if sym in self.syms:
            return sym, add
        best = None
        for val, size, name in self.bysec.get(sym, []):
            if val <= add < val + max(size, 1):
                best = (name, add - val)
        return best or (sym, add)


# ----------------------------------------------------------------------------- running one batch
def unit_text(objs):
    return PRELUDE + "\n".join(o.c_text() for o in objs) + "\n"


def run_cc(cc, targ, text, path):
    open(path, "w").write(text)
    return subprocess.run([cc, "-t", targ, path], stdout=subprocess.PIPE, stderr=subprocess.PIPE, text=True,
                          env=dict(os.environ, ASAN_OPTIONS="detect_leaks=0"))


class Runner:
    def __init__(self, ck, cc, drv):
        self.ck, self.cc, self.drv = ck, cc, drv
        self.dir = os.path.join(ck.scratch(), "c07")
        os.makedirs(self.dir, exist_ok=True)
        self.stats = {}
        self.classified = set()
        self.counts = {"objects": 0, "cproc_vs_model": 0, "cproc_vs_spec": 0, "gcc_vs_spec": 0, "auto": 0,
                       "auto_bytes": 0, "relocs": 0, "compound_literals": 0, "size_align": 0,
                       "known_union": 0, "known_reinit": 0, "known_auto": 0, "malformed": 0,
                       "gcc_skipped_layout": 0}

    def drv_lines(self, lines):
        r = subprocess.run([self.drv], input="\n".join(lines) + "\n", stdout=subprocess.PIPE, stderr=subprocess.PIPE,
                           text=True)
        out = r.stdout.split("\n")[:len(lines)]
        if r.returncode != 0 or len(out) != len(lines):
            raise Broken("drv_c07 failed: %s" % r.stderr[-500:])
        return out

    # -- expected images of an object and of the compound literals it points to
    def model_and_spec(self, objs, tg):
        lines = []
        for o in objs:
            for (name, ty, ini) in [(o.name, o.ty, o.ini)] + [(cid, ct, ci) for cid, ct, ci in o.clits]:
                inc = 1 if isinstance(ty, Arr) and ty.n is None else 0
                args = "%d %s %s" % (inc, drv_type(ty, tg), ini_m(ini))
                lines += ["full " + args, "spec " + args, "parse " + args, "class " + args, "imgclass " + args]
        out = self.drv_lines(lines)
        res, k = {}, 0
        for o in objs:
            for name in [o.name] + [c[0] for c in o.clits]:
                res[(o.name, name)] = (out[k], out[k + 1], out[k + 2])
                # which refinement theorem of Props/C07.lean (parseinit_refines_ref…) covers this
                # (type, initialiser) pair: the decidable class predicates of Spec/InitClass.lean
                cls = out[k + 3]
                if cls == "bad-op":
                    raise Broken("drv_c07 cannot classify: %s" % lines[k + 3][:300])
                if (id(o), name) not in self.classified:
                    self.classified.add((id(o), name))
                    key = "refines_ref_proved:" + cls if not cls.startswith("none") else "refines_ref_differential_only:" + cls[5:]
                    self.counts[key] = self.counts.get(key, 0) + 1
                    self.counts["refines_ref_classified"] = self.counts.get("refines_ref_classified", 0) + 1
                    if not cls.startswith("none"):
                        self.counts["refines_ref_proved"] = self.counts.get("refines_ref_proved", 0) + 1
                    # the class of the end-to-end theorem static_image_correct (emitted bytes = C11 image)
                    icl = out[k + 4]
                    ikey = "static_image_proved" if icl == "yes" else "static_image_differential_only:" + icl[3:]
                    self.counts[ikey] = self.counts.get(ikey, 0) + 1
                    if icl == "yes" and not out[k + 2].split(" | ")[0].endswith(" 1"):
                        raise Broken("imgClass holds but the hypotheses of emitdata_image_ev do not (contradicts "
                                     "parseinit_log_laminar): %s" % lines[k + 4][:300])
                k += 5
        return res

    def check_batch(self, objs, targ, use_gcc):
        ck, tg = self.ck, TARGINFO[targ]
        text = unit_text(objs)
        path = os.path.join(self.dir, "u.c")
        r = run_cc(self.cc, targ, text, path)
        if r.returncode != 0:
            if len(objs) > 1:
                for o in objs:
                    self.check_batch([o], targ, use_gcc)
                return
        exp = self.model_and_spec(objs, tg)
        if r.returncode != 0:
            o = objs[0]
            full, spec, _ = exp[(o.name, o.name)]
            self.counts["objects"] += 1
            if spec.startswith("ok") and int(spec.split()[2]) > 0 and full == "emit-error" and r.returncode < 0:
                # several members of a union initialised: the list is not laminar, emitdata's own
                # assert fires (upstream todo/38, the XXX comment in emitdata)
                self.counts["known_union"] += 1
                ck.report({"kind": "union-assert", "program": text, "target": targ, "stderr": r.stderr[-300:],
                           "what": "initialising several union members aborts on emitdata's assert"}, fid=FID_UNION)
            elif full.startswith("ok") or spec.startswith("ok"):
                ck.violation({"kind": "rejected-valid-initialiser", "program": text, "target": targ,
                              "stderr": r.stderr[-600:], "returncode": r.returncode, "model": full[:200], "spec": spec[:200],
                              "what": "cproc-qbe rejects (or crashes on) an initialiser that the model/spec accept"})
            else:
                raise Broken("generator produced an initialiser rejected by everyone: %s\n%s" % (text, r.stderr))
            return
        datas = parse_cproc(r.stdout)
        gcc = None
        if use_gcc:
            cpath = os.path.join(self.dir, "g.c")
            opath = os.path.join(self.dir, "g.o")
            open(cpath, "w").write(text.replace(PRELUDE, PRELUDE + PRELUDE_DEFS.replace("\n", " ") +
                                                "void gf(void){} void gf2(void){}\n")
                                   .replace("\nstatic ", "\n__attribute__((used)) static "))
            g = common.sh(["gcc", "-c", "-w", "-O0", "-fno-common", "-fno-pic", "-o", opath, cpath])
            if g.returncode != 0:
                if len(objs) > 1:
                    for o in objs:
                        self.check_batch([o], targ, use_gcc)
                    return
                # gcc 12 rejects some valid re-initialisations of an elided sub-aggregate holding a
                # string ("array of inappropriate type initialized from string constant"); clang decides
                g2 = common.sh(["clang-14", "-c", "-w", "-O0", "-fno-common", "-fno-pic", "-o", opath, cpath])
                if g2.returncode != 0:
                    raise Broken("gcc and clang reject a generated unit: %s\n%s\n%s" % (g.stdout[-800:], g2.stdout[-500:], text))
                self.counts["gcc_rejected_clang_used"] = self.counts.get("gcc_rejected_clang_used", 0) + 1
            gcc = GccObj(opath, self.dir)
        for o in objs:
            self.check_object(o, targ, tg, datas, gcc, exp, text)

    def check_object(self, o, targ, tg, datas, gcc, exp, text):
        ck = self.ck
        self.counts["objects"] += 1
        full, spec, parse = exp[(o.name, o.name)]
        block = o.storage == "block-static"
        d = find_data(datas, o.name, block)
        replay = {"program": o.c_text(), "target": targ, "type": drv_type(o.ty, tg), "initialiser": ini_m(o.ini)}
        if d is None:
            ck.violation(dict(replay, kind="no-definition", what="no data definition emitted for %s" % o.name))
            return
        if not spec.startswith("ok"):
            raise Broken("spec rejects a generated initialiser: %s / %s" % (spec, o.c_text()))
        sp = spec.split(" | ")
        ssize, nswitch, nreinit = map(int, sp[0].split()[1:4])
        want_spec = parse_image(sp[2]) if len(sp) > 2 else []

        def resolver(datas_or_gcc, kind):
            def res(sym, add, wsym, wadd):
                self.counts["relocs"] += 1
                if wsym.startswith("@s"):
                    w, elems = o.strlits[wsym]
                    lit = b"".join(int(e).to_bytes(w, "little") for e in elems)
                    if kind == "cproc":
                        sd = datas_or_gcc.get(sym)
                        if sd is None or add != wadd:
                            return "not the string literal object / wrong addend"
                        got = bytes(c for c in sd.cells if isinstance(c, int))
                        return None if got == lit else "string object holds %r, expected %r" % (got, lit)
                    name, off = datas_or_gcc.locate(sym, add)
                    if name in datas_or_gcc.syms:
                        sec, val, _ = datas_or_gcc.syms[name]
                        base = val + off - wadd
                    else:
                        sec, base = sym, add - wadd
                    b = datas_or_gcc.section(sec)
                    if b is None or base < 0 or b[base:base + len(lit)] != lit:
                        return "pointer does not point %d bytes into the literal %r" % (wadd, lit)
                    return None
                if wsym.startswith("@c"):
                    self.counts["compound_literals"] += 1
                    cfull, cspec, _ = exp[(o.name, wsym)]
                    if not cspec.startswith("ok"):
                        return "spec rejects the compound literal"
                    cwant = parse_image(cspec.split(" | ")[2])
                    if kind == "cproc":
                        sd = datas_or_gcc.get(sym)
                        if sd is None or add != wadd:
                            return "not a compound literal object / wrong addend"
                        return cmp_cells(o, cwant, sd.cells, res)
                    name, off = datas_or_gcc.locate(sym, add)
                    if off != wadd:
                        return "wrong addend"
                    gc_ = datas_or_gcc.cells(name)
                    if gc_ is None:
                        return "compound literal symbol not found"
                    return cmp_cells(o, cwant, gc_[:len(cwant)], res) if len(gc_) >= len(cwant) else "size"
                if kind == "gcc":
                    sym, add = datas_or_gcc.locate(sym, add)
                return None if (sym, add) == (wsym, wadd) else "wrong symbol or addend"
            return res

        # (1) Spec/InitRef validated against gcc (x86-64 only): can only mark the check broken
        if gcc is not None:
            gcells = gcc.cells(o.name if not block else None) if not block else None
            if block:
                for nm in gcc.syms:
                    if re.match(r"%s\.\d+$" % re.escape(o.name), nm):
                        gcells = gcc.cells(nm)
            if gcells is None:
                # the oracle object has no such symbol (e.g. an object of size zero): the spec is simply not validated on
                # this object; counted, and the check is broken only if that becomes common
                self.counts["gcc_no_symbol"] = self.counts.get("gcc_no_symbol", 0) + 1
                if self.counts["gcc_no_symbol"] > 5 + self.counts.get("gcc_vs_spec", 0) // 200:
                    raise Broken("gcc object has no symbol for %s (and %d others)" % (o.name, self.counts["gcc_no_symbol"] - 1))
            why = cmp_cells(o, want_spec, gcells, resolver(gcc, "gcc")) if gcells is not None else None
            self.counts["gcc_vs_spec"] += 1 if gcells is not None else 0
            if why:
                raise Broken("Spec/InitRef+Image disagrees with gcc on %s: %s\nspec %s\ngcc  %s\n%s" %
                             (o.name, why, hexcells(want_spec), hexcells(gcells), o.c_text()))
        # (2) the property on the code's own output: emitted definition = spec image
        why = cmp_cells(o, want_spec, d.cells, resolver(datas, "cproc"))
        self.counts["cproc_vs_spec"] += 1
        ck.count((type_shape(o.ty), len(ini_m(o.ini)) // 8, nswitch > 0, nreinit > 0))
        known = False
        if why:
            rep = dict(replay, kind="image", what="emitted data differs from the image C prescribes: " + why,
                       expected=hexcells(want_spec), got=hexcells(d.cells))
            if nswitch > 0:
                self.counts["known_union"] += 1
                ck.report(rep, fid=FID_UNION)
                known = True
            elif nreinit > 0:
                self.counts["known_reinit"] += 1
                ck.report(rep, fid=FID_REINIT)
                known = True
            else:
                ck.violation(rep)
        # (3) correspondence: emitted definition = model pipeline
        if full.startswith("ok"):
            want_model = parse_image(full.split(" | ")[1])
            whym = cmp_cells(o, want_model, d.cells, resolver(datas, "cproc"))
            self.counts["cproc_vs_model"] += 1
            if whym and not (why and not known):
                ck.violation(dict(replay, kind="correspondence", expected=hexcells(want_model), got=hexcells(d.cells),
                                  what="cproc-qbe and Model/Init.lean disagree: " + whym,
                                  theorem="CprocVerif.C07.emitdata_image (the model no longer describes init.c/qbe.c)"),
                             nofail=not why)
        elif nswitch > 0:
            # several union members initialised: not laminar, outside emitdata's own assumptions (its XXX)
            self.counts["known_union"] += 1
            ck.report(dict(replay, kind="union-nonlaminar", model=full[:100]), fid=FID_UNION)
        else:
            ck.violation(dict(replay, kind="correspondence", model=full[:300],
                              what="the model rejects an initialiser that cproc-qbe compiles"), nofail=not why)
        # (4) size / alignment / storage keywords
        self.counts["size_align"] += 1
        if not block:
            zz = datas.get("zz_" + o.name)
            if zz is None:
                raise Broken("zz_%s missing" % o.name)
            zs = int.from_bytes(bytes(zz.cells[0:8]), "little")
            za = int.from_bytes(bytes(zz.cells[8:16]), "little")
            if len(d.cells) != zs or d.align != za or zs != ssize:
                ck.violation(dict(replay, kind="size-align", what="definition has size %d align %d; sizeof %d _Alignof %d; "
                                  "spec size %d" % (len(d.cells), d.align, zs, za, ssize)))
        want_thread = "_Thread_local" in o.storage
        want_export = o.storage in ("", "_Thread_local ")
        if d.thread != want_thread or d.export != want_export:
            ck.violation(dict(replay, kind="storage-keywords", what="thread=%s export=%s for storage %r" %
                              (d.thread, d.export, o.storage)))
        # histogram of what happened
        ps = parse.split(" | ")
        if parse.startswith("ok") and len(ps) >= 3:
            hyp = ps[0].split()[3] == "1"
            # how much of the tested population the theorem `emitdata_image_ev` covers
            self.counts["theorem_hypotheses_hold" if hyp else "theorem_hypotheses_fail"] = \
                self.counts.get("theorem_hypotheses_hold" if hyp else "theorem_hypotheses_fail", 0) + 1
            if not hyp and nswitch == 0:
                self.counts["hyp_fail_without_union_switch"] = self.counts.get("hyp_fail_without_union_switch", 0) + 1
                ck.sample({"hypotheses of emitdata_image_ev fail without a union switch": replay}, limit=12)
            # the cursor list must be the list built from the head (initadd_cursor_eq applies)
            if len(ps) >= 4 and ps[2].strip() != ps[3].strip() and nswitch == 0:
                ck.violation(dict(replay, kind="cursor", what="searching from p->last gives a different list than "
                                  "searching from the head", cursor=ps[2][:400], head=ps[3][:400]), nofail=True)
            nlog, nlist = len([e for e in ps[1].split() if not e.startswith("c")]), len(ps[2].split())
            h = self.stats.setdefault("overrides", {})
            if nlist < nlog:
                h["entries-replaced"] = h.get("entries-replaced", 0) + 1
            if "s1:" in ps[2] or "s2:" in ps[2] or "s4:" in ps[2]:
                ents = ps[2].split()
                for a, b in zip(ents, ents[1:]):
                    if re.search(r",s\d:", a) and int(b.split(",")[0]) < int(a.split(",")[1]):
                        h["string-patched"] = h.get("string-patched", 0) + 1
                        break
            if nswitch:
                h["union-member-switch"] = h.get("union-member-switch", 0) + 1
            if nreinit:
                h["braced-reinit"] = h.get("braced-reinit", 0) + 1
        for c in d.cells:
            if isinstance(c, tuple) and c[3] == 0:
                h = self.stats.setdefault("relocations", {})
                k = "string" if c[1].startswith(".Lstring") else "compound-literal" if c[1].startswith(".L.") else \
                    "function" if c[1].startswith("gf") else "object"
                k += "+off" if c[2] else ""
                h[k] = h.get(k, 0) + 1
        return why is None

    # -- automatic objects
    def check_auto(self, o, targ):
        ck, tg = self.ck, TARGINFO[targ]
        if "_Thread_local" in o.storage:
            return
        exp = self.model_and_spec([o], tg)
        full, spec, parse = exp[(o.name, o.name)]
        if not spec.startswith("ok"):
            return
        sp = spec.split(" | ")
        nswitch, nreinit = int(sp[0].split()[2]), int(sp[0].split()[3])
        want = parse_image(sp[2])
        text = PRELUDE + o.auto_text() + "\n"
        r = run_cc(self.cc, targ, text, os.path.join(self.dir, "a.c"))
        replay = {"program": o.auto_text(), "target": targ, "type": drv_type(o.ty, tg), "initialiser": ini_m(o.ini)}
        if r.returncode != 0:
            ck.violation(dict(replay, kind="auto-rejected", stderr=r.stderr[-500:],
                              what="automatic object with a valid initialiser rejected"))
            return
        try:
            funcs, datas = ilpy.parse(r.stdout)
        except ilpy.Unsupported as e:
            raise Broken("ilpy cannot parse: %s" % e)
        alld = parse_cproc(r.stdout)
        # globals: distinct fake addresses, so that stored pointers can be recognised
        gaddr, names = {}, ["gi", "gl", "gc", "gs", "gf", "gf2"] + list(alld)
        for k, nm in enumerate(names):
            gaddr[nm] = 0x100000 * (k + 1)
        mask = pad_mask(o.ty, len(want))
        got = []
        for i in range(len(want)):
            m = ilpy.Machine(funcs)
            m.globals = gaddr
            m.fill = 0xa5          # stack garbage: what is not stored stays visible
            try:
                got.append(m.call("g_" + o.name, [i]))
            except ilpy.Trap as e:
                ck.violation(dict(replay, kind="auto-trap", what="emitted code traps: %s" % e))
                return
            except ilpy.Unsupported as e:
                raise Broken("ilpy: %s\n%s" % (e, r.stdout[-1500:]))
        self.counts["auto"] += 1
        # the model of funcinit/zero (Model/InitAuto.lean; theorem auto_image_correct) against the executed code:
        # it must agree with the run-time bytes on EVERY input, also where the static image differs (known findings)
        inc = 1 if isinstance(o.ty, Arr) and o.ty.n is None else 0
        margs = "%d %s %s" % (inc, drv_type(o.ty, tg), ini_m(o.ini))
        mline, acl = self.drv_lines(["auto " + margs, "autoclass " + margs])
        in_auto_class = acl == "yes"
        self.counts["auto_image_proved" if in_auto_class else "auto_image_differential_only"] = \
            self.counts.get("auto_image_proved" if in_auto_class else "auto_image_differential_only", 0) + 1
        if not mline.startswith("ok"):
            raise Broken("drv_c07 auto: %s" % mline[:200])
        mm = parse_image(mline.split(" | ")[1])
        if len(mm) != len(got):
            ck.violation(dict(replay, kind="auto-model-size", what="model of funcinit: %d bytes, object has %d"
                              % (len(mm), len(got))))
            return
        for i, (w, g) in enumerate(zip(mm, got)):
            if mask[i] == 0 or isinstance(w, tuple):
                continue
            if (w & mask[i]) != (g & mask[i]):
                ck.violation(dict(replay, kind="auto-model", byte=i, model=hexcells(mm),
                                  run_time=" ".join("%02x" % x for x in got),
                                  what="model of funcinit (Model/InitAuto.lean) disagrees with the executed code at byte %d" % i))
                return
        self.counts["auto_model_agrees"] = self.counts.get("auto_model_agrees", 0) + 1
        bad = None
        for i, (w, g) in enumerate(zip(want, got)):
            if mask[i] == 0:
                continue
            self.counts["auto_bytes"] += 1
            if isinstance(w, tuple):
                # byte k of the address sym+addend
                wsym, wadd, k = w[1], w[2], w[3]
                cands = []
                if wsym.startswith("@c"):
                    continue          # a compound literal in a function body is an automatic object
                if wsym.startswith("@"):
                    cands = [a for nm, a in gaddr.items() if nm.startswith(".L")]
                elif wsym in gaddr:
                    cands = [gaddr[wsym]]
                if not any(((a + wadd) >> (8 * k)) & 0xff == g for a in cands):
                    bad = (i, "address byte", g)
                    break
            elif (w & mask[i]) != (g & mask[i]):
                bad = (i, w, g)
                break
        if bad and in_auto_class:
            # auto_image_correct says model memory = static image here, and the model agreed with the code above
            raise Broken("autoClass holds but the run-time bytes differ from the static image (contradicts "
                         "auto_image_correct): %s" % o.auto_text()[:400])
        if bad:
            rep = dict(replay, kind="auto-image", byte=bad[0], expected=bad[1], got=bad[2],
                       what="automatic object byte %d holds %r, the static image has %r" % (bad[0], bad[2], bad[1]),
                       static_image=hexcells(want), run_time=" ".join("%02x" % g for g in got))
            ps = parse.split(" | ")
            nested = False
            if parse.startswith("ok") and len(ps) >= 3:
                ents = [e.split(",") for e in ps[2].split()]
                # the recorded finding: an element patched INSIDE an earlier string/aggregate initialiser (not bit-fields
                # that merely share a storage unit with their neighbours)
                for a, b in zip(ents, ents[1:]):
                    if (int(a[0]) <= int(b[0]) and int(b[1]) <= int(a[1]) and int(b[1]) - int(b[0]) < int(a[1]) - int(a[0])
                            and int(a[2]) == 0 and int(a[3]) == 0):
                        nested = True
            if nswitch:
                ck.report(rep, fid=FID_UNION)
            elif nreinit:
                ck.report(rep, fid=FID_REINIT)
            elif nested:
                self.counts["known_auto"] += 1
                ck.report(rep, fid=FID_AUTO)
            else:
                ck.violation(rep)


def pad_mask(t, size):
    """bit mask per byte of the non-padding bits of an object of type t."""
    mask = [0] * size

    def go(t, off):
        if isinstance(t, Sc):
            for k in range(t.size):
                if off + k < size:
                    mask[off + k] = 0xff
        elif isinstance(t, Arr):
            n = t.n if t.n is not None else (size // t.elem.size if t.elem.size else 0)
            for k in range(n):
                go(t.elem, off + k * t.elem.size)
        elif t.is_union:
            # only bytes that belong to every member are certainly not padding
            sub = []
            for m in t.members:
                mm = [0] * t.size
                save = mask[off:off + t.size]
                for k in range(t.size):
                    if off + k < size:
                        mask[off + k] = 0
                go_m(m, off)
                sub.append(mask[off:off + t.size])
                mask[off:off + t.size] = save
            for k in range(t.size):
                if off + k < size:
                    v = 0xff
                    for s in sub:
                        if k < len(s):
                            v &= s[k]
                    mask[off + k] |= v
        else:
            for m in t.members:
                go_m(m, off)

    def go_m(m, off):
        if m.width is None:
            go(m.ty, off + m.off)
        else:
            lo = m.before
            for b in range(lo, lo + m.width):
                if off + m.off + b // 8 < size:
                    mask[off + m.off + b // 8] |= 1 << (b % 8)
    go(t, 0)
    return mask


# ----------------------------------------------------------------------------- malformed stream
def nest(n, inner, wrap):
    s = inner
    for _ in range(n):
        s = wrap % s
    return s


def malformed_cases():
    """(name, C text, model args or None): must exit 1 with a diagnostic, no crash, no sanitizer report."""
    dims33 = "[1]" * 33
    dims31 = "[1]" * 31
    ty = lambda n: nest(n, "i6.4.1", "A1(%s)")
    return [
        ("too-many-array", "int a[2] = {1, 2, 3};", "0 A2(i6.4.1) {n1.1.0.0;n2.1.0.0;n3.1.0.0}"),
        ("too-many-struct", "struct {int a, b;} s = {1, 2, 3};",
         "0 S1.8{a:0.0.0:i6.4.1;b:4.0.0:i6.4.1} {n1.1.0.0;n2.1.0.0;n3.1.0.0}"),
        ("too-many-nested", "struct {struct {int a;} s; int b;} x = {{1, 2}, 3};",
         "0 S2.8{s:0.0.0:S1.4{a:0.0.0:i6.4.1};b:4.0.0:i6.4.1} {{n1.1.0.0;n2.1.0.0};n3.1.0.0}"),
        ("too-many-union", "union {int a; char b;} u = {1, 2};", "0 U1.4{a:0.0.0:i6.4.1;b:0.0.0:i1.1.1} {n1.1.0.0;n2.1.0.0}"),
        ("too-many-elided", "int a[2][2] = {1, 2, 3, 4, 5};",
         "0 A2(A2(i6.4.1)) {n1.1.0.0;n2.1.0.0;n3.1.0.0;n4.1.0.0;n5.1.0.0}"),
        ("too-many-after-designator", "int a[3] = {[2] = 1, 2};", "0 A3(i6.4.1) {[2]=n1.1.0.0;n2.1.0.0}"),
        ("too-many-bitfields", "struct {int a:3; int b:5;} s = {1, 2, 3};",
         "0 S1.4{a:0.0.29:i6.4.1;b:0.3.24:i6.4.1} {n1.1.0.0;n2.1.0.0;n3.1.0.0}"),
        ("index-out-of-range", "int a[2] = {[2] = 1};", "0 A2(i6.4.1) {[2]=n1.1.0.0}"),
        ("index-out-of-range-nested", "int a[2][3] = {[1][3] = 1};", "0 A2(A3(i6.4.1)) {[1][3]=n1.1.0.0}"),
        ("index-negative", "int a[2] = {[-1] = 1};", None),
        ("index-not-constant", "int n; int a[2] = {[n] = 1};", None),
        ("no-such-member", "struct {int a;} s = {.b = 1};", "0 S1.4{a:0.0.0:i6.4.1} {.b=n1.1.0.0}"),
        ("no-such-member-anon", "struct {int a; struct {int b;};} s = {.c = 1};",
         "0 S2.8{a:0.0.0:i6.4.1;_:4.0.0:S1.4{b:0.0.0:i6.4.1}} {.c=n1.1.0.0}"),
        ("index-on-struct", "struct {int a;} s = {[0] = 1};", "0 S1.4{a:0.0.0:i6.4.1} {[0]=n1.1.0.0}"),
        ("member-on-array", "int a[2] = {.x = 1};", "0 A2(i6.4.1) {.x=n1.1.0.0}"),
        ("designators-33", "int a%s = {%s = 1};" % (dims33, "[0]" * 33), "0 %s {%s=n1.1.0.0}" % (ty(33), "[0]" * 33)),
        ("braces-33", "int a%s = %s;" % (dims33, nest(34, "1", "{%s}")), "0 %s %s" % (ty(33), nest(34, "n1.1.0.0", "{%s}"))),
        ("elision-33", "int a%s = {1};" % dims33, "0 %s {n1.1.0.0}" % ty(33)),
        ("non-constant", "int n; int x = n;", "0 i6.4.1 x"),
        ("non-constant-in-aggregate", "int n; struct {int a, b;} s = {1, n};",
         "0 S1.8{a:0.0.0:i6.4.1;b:4.0.0:i6.4.1} {n1.1.0.0;x}"),
        ("non-constant-call", "int g(void); int x = g();", None),
        ("non-constant-address-of-local", "void f(void) { int l; static int *p = &l; }", None),
        ("non-constant-struct-value", "struct S {int a;} s0; struct {struct S s;} t = {s0};", None),
        ("string-to-int-array", "long a[] = \"abc\";", "1 A0(i8.8.1) s1.1:97/98/99/0"),
        ("wide-string-to-char-array", "char a[4] = L\"ab\";", "0 A4(i1.1.1) s4.6:97/98/0"),
        ("braces-around-scalar-twice", "int x = {{1}};", "0 i6.4.1 {{n1.1.0.0}}"),
        ("empty-braces-unknown-size", "int a[] = {};", "1 A0(i6.4.1) {}"),
        ("incomplete-struct", "struct S; struct S x = {1};", None),
        ("pointer-to-int-member", "struct {int a;} s = {\"abc\"};", None),
    ], [
        # boundary that must be ACCEPTED: 31 designators / 31 braces use obj[31]
        ("designators-31", "int a%s = {%s = 7};" % (dims31, "[0]" * 31), "0 %s {%s=n7.1.0.0}" % (ty(31), "[0]" * 31)),
        ("braces-31", "int a%s = %s;" % (dims31, nest(32, "7", "{%s}")), "0 %s %s" % (ty(31), nest(32, "n7.1.0.0", "{%s}"))),
    ]


def run_malformed(ck, R, ccsan):
    bad, good = malformed_cases()
    lines = ["full " + m for _, _, m in bad + good if m]
    out = iter(R.drv_lines(lines))
    hist = {}
    for name, text, m in bad:
        for targ in TARGETS:
            r = run_cc(ccsan, targ, text + "\n", os.path.join(R.dir, "m.c"))
            ck.count(("malformed", name, targ))
            R.counts["malformed"] += 1
            san = "AddressSanitizer" in r.stderr or "runtime error" in r.stderr
            if r.returncode != 1 or san or not r.stderr.strip() or r.stdout.count("\n}") > 99:
                ck.violation({"kind": "malformed", "name": name, "program": text, "target": targ,
                              "returncode": r.returncode, "stderr": r.stderr[-600:],
                              "what": "invalid initialiser not rejected cleanly (expected exit status 1 with a diagnostic)"})
                break
            hist[name] = r.stderr.strip().split("error: ")[-1][:60]
        if m:
            mo = next(out)
            if not mo.startswith("error") and mo != "emit-error":
                ck.violation({"kind": "correspondence", "name": name, "program": text, "model": mo[:200],
                              "what": "the model accepts an initialiser that cproc-qbe rejects"}, nofail=True)
    for name, text, m in good:
        r = run_cc(ccsan, "x86_64-sysv", text + "\n", os.path.join(R.dir, "m.c"))
        mo = next(out)
        d = parse_cproc(r.stdout).get("a") if r.returncode == 0 else None
        if d is None or d.cells != [7, 0, 0, 0] or not mo.startswith("ok 4 | 07000000"):
            ck.violation({"kind": "depth-boundary", "name": name, "program": text, "returncode": r.returncode,
                          "stderr": r.stderr[-300:], "model": mo[:100],
                          "what": "31 nested designators/braces must be accepted (obj[31] exists)"})
    return hist


# ----------------------------------------------------------------------------- corpus
def run_corpus(ck, R, cc):
    path = os.path.join(common.VERIF, "corpus", "C07", "witnesses.json")
    if not os.path.exists(path):
        return 0
    import json
    n = 0
    for w in json.load(open(path)):
        n += 1
        targ = w.get("target", "x86_64-sysv")
        r = run_cc(cc, targ, w["program"] + "\n", os.path.join(R.dir, "w.c"))
        ck.count(("corpus", w["name"]))
        if "auto" in w:
            # automatic object: g(i) must return the listed bytes
            ok = r.returncode == 0
            got = []
            if ok:
                funcs, _ = ilpy.parse(r.stdout)
                for i in range(len(w["auto"]) // 2):
                    got.append(ilpy.Machine(funcs).call("g", [i]))
                ok = got == list(bytes.fromhex(w["auto"]))
        else:
            datas = parse_cproc(r.stdout) if r.returncode == 0 else {}
            ok = r.returncode == 0 and all(nm in datas and hexcells(datas[nm].cells) == img for nm, img in w["data"].items())
            got = {nm: hexcells(datas[nm].cells) for nm in w["data"] if nm in datas}
        rep = {"kind": "corpus", "name": w["name"], "program": w["program"], "target": targ,
               "expected": w.get("data") or w.get("auto"), "got": got, "returncode": r.returncode,
               "stderr": r.stderr[-300:], "what": "witness %s: %s" % (w["name"], w.get("what", ""))}
        if w.get("status") == "known":
            if ok:
                ck.notes.append("model stale: known finding %s no longer reproduces on its witness" % w.get("fid"))
            else:
                ck.report(rep, fid=w.get("fid"))
        elif not ok:
            ck.violation(rep)
    return n


# ----------------------------------------------------------------------------- the check
def run(ck):
    nobj = 1500 if ck.quick else 60000
    nauto = 150 if ck.quick else 3000
    ck.cov["rule"] = ("K-B: %d generated (type, initialiser) objects (nested structs/unions/arrays, bit-fields of every "
                      "base type and width, positional/designated/mixed/overriding/brace-elided/string initialisers, "
                      "arrays of unknown size, pointers to objects/functions/string literals/compound literals with "
                      "offsets; extern/static/_Thread_local/block-static) in batches of 25 over the 3 targets: each "
                      "emitted data definition decoded and compared with the model pipeline, with Spec/InitRef+Image, "
                      "with sizeof/_Alignof; x86-64 batches also validate the spec against gcc -c; %d of the objects "
                      "re-run as automatic objects through ilpy byte by byte; malformed initialisers under ASan; "
                      "corpus witnesses first. distinct_nontrivial counts distinct (type shape, initialiser length "
                      "class, union-switch, re-initialisation) classes and malformed/corpus cases." % (nobj, nauto))
    ck.lean_build()
    if not ck.proofs_ok:
        ck.notes.append("Props.C07 does not build; searching for a failing input")
    cc = ck.build_cproc_qbe()
    ccsan = ck.build_cproc_qbe(sanitize=True)
    if not ck.drv_ok:
        raise Broken("drv_c07 does not build: %s" % ck.build_log[-1500:])
    R = Runner(ck, cc, ck.drv_path())
    ncorpus = run_corpus(ck, R, cc)
    mal = run_malformed(ck, R, ccsan)
    batch, i, autos = 25, 0, 0
    while i < nobj and len(ck.violations) < 5:
        targ = TARGETS[(i // batch) % 3]
        objs = [gen_object(ck.rng, TARGINFO[targ], R.stats, i + k) for k in range(batch)]
        R.check_batch(objs, targ, use_gcc=(targ == "x86_64-sysv"))
        for o in objs:
            if autos * nobj < nauto * (i + batch) and autos < nauto:
                before = R.counts["auto"]
                R.check_auto(o, targ)
                autos += 1 if R.counts["auto"] > before else 0
        if i == 2 * batch:
            ck.sample({"K-B object": objs[3].c_text()[:900], "target": targ, "model syntax": ini_m(objs[3].ini)[:300]})
        i += batch
    # automatic (and static) objects whose bit-field storage units are shared with their neighbours
    for j in range(60 if ck.quick else 1500):
        if len(ck.violations) >= 5:
            break
        targ = TARGETS[j % 3]
        o = gen_bf_object(ck.rng, TARGINFO[targ], R.stats, nobj + j)
        R.check_batch([o], targ, use_gcc=(targ == "x86_64-sysv"))
        R.check_auto(o, targ)
    ck.cov["kb_counts"] = R.counts
    ck.cov["histogram"] = {k: dict(sorted(v.items(), key=lambda kv: -kv[1])[:40]) for k, v in R.stats.items()}
    ck.cov["malformed_diagnostics"] = mal
    ck.cov["corpus_witnesses"] = ncorpus
    ncls, nprv = R.counts.get("refines_ref_classified", 0), R.counts.get("refines_ref_proved", 0)
    ck.cov["refines_ref_coverage"] = {
        "classified": ncls, "covered_by_parseinit_refines_ref": nprv,
        "fraction": round(nprv / ncls, 4) if ncls else None,
        "by_class": {k.split(":", 1)[1]: v for k, v in sorted(R.counts.items()) if k.startswith("refines_ref_proved:")},
        "differential_only_by_first_failing_hypothesis":
            {k.split(":", 1)[1]: v for k, v in sorted(R.counts.items()) if k.startswith("refines_ref_differential_only:")}}
    nimg = R.counts.get("static_image_proved", 0)
    ck.cov["static_image_coverage"] = {
        "classified": ncls, "covered_by_static_image_correct": nimg,
        "fraction": round(nimg / ncls, 4) if ncls else None,
        "differential_only_by_first_failing_hypothesis":
            {k.split(":", 1)[1]: v for k, v in sorted(R.counts.items()) if k.startswith("static_image_differential_only:")}}
    ck.notes.append("static_image_correct (emitted bytes = C11 image, end to end, proved) covers %d of %d generated "
                    "objects (%.1f%%)" % (nimg, ncls, 100.0 * nimg / max(ncls, 1)))
    ck.notes.append("parseinit_refines_ref (cursor machine = C11 6.7.9 reference, proved) covers %d of %d generated "
                    "(type, initialiser) pairs incl. compound literals (%.1f%%); the others (designated "
                    "union-member switches = known finding union-member-switch) are compared differentially only"
                    % (nprv, ncls, 100.0 * nprv / max(ncls, 1)))
    if R.counts.get("hyp_fail_without_union_switch"):
        ck.notes.append("%d objects outside the hypotheses of emitdata_image_ev although no union member was switched"
                        % R.counts["hyp_fail_without_union_switch"])
    ck.notes.append("excluded from generation (recorded under C19): `int x = {1, 2};` (scalar-excess-assert), initialised "
                    "flexible array member (flexible-init-assert); a string literal "
                    "directly behind a nested designator (gcc and clang disagree with each other)")
    if not ck.proofs_ok and not ck.violations:
        ck.violation({"kind": "proof-broken", "theorem": "CprocVerif.Props.C07 (lake build failed)",
                      "log": ck.build_log[-3000:]}, nofail=True)
    ck.assumptions = [
        "the layout (offsets, bit positions, sizes) handed to parseinit is the one decl.c computes (C06); the check "
        "recomputes it in Python and cross-checks sizeof/_Alignof and, on x86-64, gcc's object",
        "constant folding and conversion of the initialiser expressions (C04); float constants are compared through "
        "their IEEE encodings",
        "QBE lays out data items b/h/w/l/s/d/z and `$sym + off` as documented (little-endian, no padding between items)",
        "checks/ilpy.py executes the integer/float-conversion subset of the IL as QBE would (automatic objects)",
        "gcc 12 (clang 14 as tie-break for inputs gcc rejects) as oracle for Spec/InitRef on x86-64",
    ]


META = {
    "category": "proof",
    "text": ("Lean 4 theorems over a model of init.c (initadd with the `last` cursor, initclear, the obj[32] cursor "
             "machine of parseinit) and of qbe.c:emitdata (string patching, zero gaps, cross-byte bit-field "
             "accumulator and its masks, trailing z): for EVERY laminar sequence of well-formed initialisers, of any "
             "length and with bit-field values of any magnitude, the emitted bytes are exactly `foldl write zeros` "
             "(emitdata_image / emitdata_image_ev), the definition has the object's size, unwritten bits are zero, "
             "strings are truncated/zero-extended, relocations keep symbol and addend, the list stays sorted without "
             "partial overlap, later covering initialisers remove earlier ones, the cursor stack never leaves obj[32], "
             "every produced initialiser lies inside the object; and parseinit_refines_ref: for every well-formed type "
             "and every initialiser of an object of known or unknown (`T a[] = …`) size (positional or with designators of any length incl. "
             "anonymous members, overriding, braced re-initialisation and continuation after the designated member; "
             "fully braced or brace-elided at any depth; partial; strings; struct values; empty braces) in which no "
             "second union member is designated, the image of the cursor machine's log equals the image of the writes "
             "of the independent recursive C11 6.7.9 reference Spec/InitRef (simulation proof by induction on the "
             "reference's recursion; counterexample theorem for designated union-member switches).  End-to-end chain "
             "(static_image_correct): parseinit t inc i = ok st, InitRef.ref t inc i = ok r and the decidable class "
             "imgClass t inc i (refClass; a C layout layOK; no designator designates a union member other than the first; string literals of "
             "their character type's width; every stored value a constant of the member's kind) imply that emitdata "
             "succeeds on the list initadd/initclear built from parseinit's log and that the bytes of its data items "
             "equal image r.size r.writes: (1) parseinit_log_laminar — a machine-only invariant places every logged "
             "initialiser at a node of the object's tree of sub-objects, and under a C layout two nodes are "
             "bit-disjoint or nested (nested later = element of an earlier string), which gives EvsOK and Wf; "
             "(2) emitdata_image_ev — list surgery and emission = fold of writes; (3) parseinit_refines_ref — that "
             "fold = the reference's image.  Automatic objects (auto_image_correct): Model/InitAuto.lean models "
             "qbe.c funcinit/zero on the object's bytes (gap zero-filling with the offset/max bookkeeping, element stores "
             "of strings, funcstore with bit-field read-modify-write after zero-filling the storage unit); "
             "funcinit_image_correct: for every flat sorted list and any previous memory content the object ends up "
             "holding the static image; with autoClass (imgClass and no element patched inside an earlier string = "
             "known finding auto-zero-after-patch, auto_image_counterexample) the run-time memory equals the C11 image "
             "and the static bytes.  Tied to /repo on every run by compiling generated "
             "(type, initialiser) objects with the freshly built cproc-qbe for all targets and comparing every data "
             "definition with the model pipeline and with the recursive C11 6.7.9 reference (itself validated against "
             "gcc), by executing automatic objects, and by malformed inputs under ASan."),
    "design_ref": "DESIGN.md section 4, C07",
    "note": ("Trusted: Lean kernel + propext/Classical.choice/Quot.sound; the hand-written model (tied by the "
             "differential run); the Python layout/generator/decoders; gcc as oracle for Spec/InitRef; ilpy for "
             "automatic objects.  The correspondence between the cursor machine and Spec/InitRef is PROVED "
             "(parseinit_refines_ref / _unb / _class: designators, overriding, brace elision, arrays of unknown size; "
             "hypothesis: no designated union-member switch, where model and reference really differ — "
             "parseinit_refines_ref_counterexample); evidence field refines_ref_coverage gives the fraction of the "
             "generated objects inside the proved class (drv_c07 `class`), the rest is differential only.  The "
             "hypotheses of emitdata_image_ev are no longer assumed: static_image_correct has hypotheses on "
             "(t, inc, i) only (imgClass, drv_c07 `imgclass`; evidence field static_image_coverage; the check raises "
             "if imgClass holds while the driver's hyp flag is 0); outside imgClass (arrays of unknown size other than scalar "
             "elements with a flat expression list, designated non-first union members, "
             "non-constant values — static_image_correct_counterexample) the chain is differential only.  The model "
             "of funcinit is tied by the automatic-object stream: its memory (drv_c07 `auto`) must equal the bytes "
             "the executed IL leaves (ilpy) on EVERY object, also on the known findings (counter auto_model_agrees); "
             "the check raises if autoClass holds while run-time bytes and static image differ.  "
             "Known findings: union-member-switch (several union members initialised: not laminar, emitdata's own "
             "XXX), auto-zero-after-patch (funcinit)."),
    "technique": "Lean 4 proof (invariants over list/accumulator/stack) + differential correspondence on emitted data, gcc-validated spec, executed IL",
}

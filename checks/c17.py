"""C17 - the driver runs exactly the documented stages with the documented arguments.

Proof:  lean/CprocVerif/Props/C17.lean: for every command line formed from the option grammar
        of cproc(1) (Spec/DriverDoc.lean: items, attached/detached rendering, any length) the
        model of driver.c (Model/Driver.lean) plans exactly the documented process plan: routing of
        every option to its tool in order, stage sets per file type cut at the mode, pipeline
        order, output names, refusals decided before anything is planned, link inputs in order.
        Gen/DriverTables.lean (extracted from driver.c by tools/gen_c17.py) = the model's tables
        (`decide`).
Tie:    K-C  the real driver.c + util.c compiled unmodified (ASan+UBSan) next to a config.h made
        by /repo/configure whose tools are harness/stubtool.c; generated command lines x target
        triples; the stubs' logs (argv per tool, pipe wiring by pipe inode, output paths, files
        created/removed, temporaries) are compared with (1) the model's plan (drv_c17 `run`) and
        (2) the plan the documentation prescribes (drv_c17 `doc`, the `ok` predicate).
"""
import concurrent.futures
import json
import os
import re

from . import common, drvkc
from .common import CompileError

SAFE = set("abcdefghijklmnopqrstuvwxyzABCDEFGHIJKLMNOPQRSTUVWXYZ0123456789._/-=+:,@")

FIDS = {"pthread-not-lpthread", "emit-qbe-default-output-not-stdout"}


# ----------------------------------------------------------------------------- protocol
def enc(s):
    return "'" + "".join(c if c in SAFE else "%%%x;" % ord(c) for c in s)


def dec(t):
    assert t[0] == "'", t
    return re.sub(r"%([0-9a-f]+);", lambda m: chr(int(m.group(1), 16)), t[1:])


def enc_item(it):
    kind, det, vals = it
    return "|".join([kind, "1" if det else "0"] + [enc(v) for v in vals])


JOINED = {"D": "-D", "U": "-U", "I": "-I", "L": "-L", "l": "-l", "o": "-o", "x": "-x"}
SEP = {"include": "-include", "idirafter": "-idirafter", "isystem": "-isystem", "iquote": "-iquote",
       "MT": "-MT", "MF": "-MF"}
FLAG = {"c": "-c", "S": "-S", "E": "-E", "emit-qbe": "-emit-qbe", "s": "-s", "v": "-v", "static": "-static",
        "nostdlib": "-nostdlib", "nostdinc": "-nostdinc", "pthread": "-pthread", "pipe": "-pipe",
        "pedantic": "-pedantic", "M": "-M", "MM": "-MM", "MD": "-MD", "MMD": "-MMD"}
PREFIXED = {"g": "-g", "O": "-O", "W": "-W", "std": "-std=", "P": "-P"}


def render_item(it):
    """Python's own rendering of an item (cross-checked against Spec/DriverDoc `render`)."""
    kind, det, vals = it
    if kind == "input":
        return [vals[0]]
    if kind in JOINED:
        return [JOINED[kind], vals[0]] if det else [JOINED[kind] + vals[0]]
    if kind in SEP:
        return [SEP[kind], vals[0]]
    if kind in FLAG:
        return [FLAG[kind]]
    if kind in PREFIXED:
        return [PREFIXED[kind] + vals[0]]
    if kind in ("Wp", "Wa", "Wl"):
        return ["-" + kind + "," + ",".join(vals)]
    raise AssertionError(kind)


def render(items):
    return [a for it in items for a in render_item(it)]


# ----------------------------------------------------------------------------- generator
EXTS = ["c", "h", "i", "qbe", "s", "S", "o", "a", "", "C", "cc", "so.1"]
STEMS = ["a", "b", "main", "x.y", "dir/f", "out/g", "my file", "a,b", "k=v", "ü", ".hid", "t-1", "dir/x.c"]
LANGS = ["none", "c", "c-header", "cpp-output", "qbe", "assembler", "assembler-with-cpp"]
VALUES = ["X", "X=1", "a b", "x,y", "-foo", "é", "'q'", '"dq"', "a\\b", "%41;", "*", "$HOME", "a\tb", "N=(1+2)",
          "inc/dir", "..", "-", "--", "a|b", "#1"]
OUTS = ["out.bin", "dir/o", "out/x.o", "-", "a b", "x,y", "res.s", "-", "r.qbe"]
WARGS = ["--gc-sections", "-z", "now", "", "-MD", "a=b", "-rpath", "/x y", "-O"]   # never "-o": the stubs take `-o X` as their output
MODES = [None, None, None, "c", "c", "S", "E", "E", "emit-qbe", "M", "MM"]
OPTS = (["D", "U", "I", "L", "l", "include", "idirafter", "isystem", "iquote", "MT", "MF"] * 2 +
        ["s", "v", "static", "nostdlib", "nostdinc", "pthread", "pipe", "pedantic", "MD", "MMD",
         "g", "O", "W", "std", "P", "Wp", "Wa", "Wl", "Wp", "Wa", "Wl"])
DANGLING = ["-D", "-U", "-I", "-L", "-l", "-o", "-x", "-include", "-isystem", "-idirafter", "-iquote", "-MT", "-MF"]
UNKNOWN = ["-z", "--", "--help", "-cfoo", "-Efoo", "-Sx", "-sx", "-vv", "-staticx", "-MQ", "-MDx", "-Wx,foo",
           "-emit-qbe2", "-nostdlibx", "-includex", "-pthreads", "-std", "-e", "-n", "-i", "-p", "-X", "-pipes",
           "-isystemx", "-é", "-W,,x", "-Wq,a", "-h", "-Cfoo", "-tx86"]


def gen_input_name(rng):
    r = rng.random()
    if r < 0.03:
        return rng.choice(["a", "b", "x"])       # fewer than two characters
    stem = rng.choice(STEMS)
    ext = rng.choice(EXTS[:7]) if r < 0.85 else rng.choice(EXTS)
    return stem + ("." + ext if ext else "")


def gen_option(rng, kind=None):
    kind = kind or rng.choice(OPTS)
    if kind in JOINED:
        det = rng.random() < 0.5
        if kind == "x":
            v = rng.choice(LANGS)
        elif kind == "o":
            v = rng.choice(OUTS)
        else:
            v = rng.choice(VALUES) if rng.random() < 0.9 else ""
        if v == "" and not det:
            det = True
        if kind == "o" and v == "":
            v = "o"
        return (kind, det, [v])
    if kind in SEP:
        return (kind, True, [rng.choice(VALUES)])
    if kind in FLAG:
        return (kind, False, [])
    if kind == "g":
        return (kind, False, [rng.choice(["", "3", "gdb", "0"])])
    if kind == "O":
        return (kind, False, [rng.choice(["", "2", "s", "fast", "3"])])
    if kind == "W":
        return (kind, False, [rng.choice(["", "all", "extra", "no-parentheses", "error=x", "p", "a", "l", "pa"])])
    if kind == "std":
        return (kind, False, [rng.choice(["c11", "c99", "gnu11", "", "c2x"])])
    if kind == "P":
        return (kind, False, [rng.choice(["", "", "x"])])
    if kind in ("Wp", "Wa", "Wl"):
        n = rng.choice([1, 1, 2, 3])
        return (kind, False, [rng.choice(WARGS) for _ in range(n)])
    raise AssertionError(kind)


def gen_items(rng, force=None):
    """A well-formed item list.  `force`: an option kind that must occur."""
    items = []
    nin = rng.choice([0, 1, 1, 1, 2, 2, 3, 3, 4, 5, 6]) if rng.random() < 0.97 else 0
    for _ in range(nin):
        r = rng.random()
        if r < 0.25:
            items.append(("x", rng.random() < 0.5, [rng.choice(LANGS)]))
        if r < 0.04:
            items.append(("input", False, ["-"]))
        else:
            items.append(("input", False, [gen_input_name(rng)]))
    if rng.random() < 0.01:
        v = rng.choice(["c++", "", "C", "objective-c"])
        items.append(("x", v == "" or rng.random() < 0.5, [v]))
    nopt = rng.choice([0, 1, 2, 3, 4, 6, 8])
    opts = [gen_option(rng) for _ in range(nopt)]
    if force:
        opts.append(gen_option(rng, force))
    m = rng.choice(MODES)
    if m:
        opts.append((m, False, []))
        if rng.random() < 0.1:
            opts.append((rng.choice(["c", "S", "E", "emit-qbe"]), False, []))
    if rng.random() < 0.4:
        opts.append(gen_option(rng, "o"))
    if rng.random() < 0.25:
        opts.append(gen_option(rng, "l"))
    for o in opts:   # options are interleaved with the inputs at random positions
        items.insert(rng.randint(0, len(items)), o)
    # an `-x` must not land between... (any position is legal; it changes the types, which is the point)
    return items


def gen_case(rng, i):
    """-> dict(items=[...]|None, argv=[...], kind=...)"""
    r = rng.random()
    force = OPTS[i % len(OPTS)] if i % 3 == 0 else None
    items = gen_items(rng, force)
    if r < 0.80:
        return {"items": items, "argv": render(items), "kind": "grammar"}
    # malformed variants of a well-formed line
    argv_items = [render_item(it) for it in items]
    which = rng.choice(["dangling", "unknown", "unknown", "noinputs"])
    if which == "dangling":
        argv = [a for g in argv_items for a in g] + [rng.choice(DANGLING)]
    elif which == "unknown":
        pos = rng.randint(0, len(argv_items))
        argv_items.insert(pos, [rng.choice(UNKNOWN)])
        argv = [a for g in argv_items for a in g]
    else:
        argv = [a for it, g in zip(items, argv_items) if it[0] not in ("input", "l") for a in g]
    return {"items": None, "argv": argv, "kind": "malformed-" + which}


def files_for(argv):
    """Files to create in the private cwd: everything that looks like a relative input file."""
    fs = {"dir/.keep", "out/.keep", "inc/.keep"}
    for a in argv:
        if a and not a.startswith("-") and not a.startswith("/") and "\n" not in a and a not in (".", "..") \
                and not a.endswith("/") and len(a) < 100 and a not in ("dir", "out", "inc"):
            if "/" in a and a.split("/")[0] not in ("dir", "out", "inc"):
                continue
            if any(p in ("", ".", "..") for p in a.split("/")):
                continue
            fs.add(a)
    # never create something that is a prefix directory of another file
    return sorted(f for f in fs if not any(g.startswith(f + "/") for g in fs))


# ----------------------------------------------------------------------------- comparison
WHY_TEXT = {"plain": None, "stdin-needs-x": "reading from standard input requires -x",
            "unknown-language": "unknown language", "unknown-option": "unknown option",
            "object-to-stdout": "cannot write object to stdout",
            "o-with-multiple-inputs": "cannot specify -o with multiple input files", "doc": ""}
ROLE_OF_STAGE = {v: k for k, v in drvkc.STAGE_OF_ROLE.items()}


def chains(starts):
    """Group the non-link stub invocations of a run into pipelines by pipe identity, ordered by
    first appearance in the log; each chain is ordered upstream -> downstream."""
    st = [e for e in starts if e["role"] != "ld"]
    by_in = {}
    for e in st:
        if e["stdin"]["kind"] == "pipe":
            by_in[(e["stdin"]["dev"], e["stdin"]["ino"])] = e
    heads = [e for e in st if e["stdin"]["kind"] != "pipe"]
    out = []
    used = set()
    for h in heads:
        ch = [h]
        used.add(id(h))
        cur = h
        while cur["stdout"]["kind"] == "pipe":
            nxt = by_in.get((cur["stdout"]["dev"], cur["stdout"]["ino"]))
            if nxt is None or id(nxt) in used:
                break
            ch.append(nxt)
            used.add(id(nxt))
            cur = nxt
        out.append(ch)
    orphans = [e for e in st if id(e) not in used]
    pos = {id(e): i for i, e in enumerate(starts)}
    out.sort(key=lambda ch: min(pos[id(e)] for e in ch))
    return out, orphans


class Unify:
    def __init__(self, temps):
        self.map = {}
        self.temps = set(temps)

    def word(self, w, actual):
        if w.startswith("#"):
            if w in self.map:
                return self.map[w] == actual
            if actual in self.map.values() or not re.fullmatch(r"/tmp/cproc-[A-Za-z0-9]{6}", actual) \
                    or actual not in self.temps:
                return False
            self.map[w] = actual
            return True
        return dec(w) == actual

    def argv(self, ws, actual):
        return len(ws) == len(actual) and all(self.word(w, a) for w, a in zip(ws, actual))


def same_id(fdinfo, ident):
    return (fdinfo["dev"], fdinfo["ino"]) == ident


def compare(plan, r):
    """Differences between an expected plan (JSON of drv_c17) and an observed run; [] = agree."""
    d = []
    oc = plan["outcome"]
    if r.hang:
        return ["driver did not terminate"]
    if r.sanitizer:
        d.append("sanitizer report: " + r.stderr[-400:])
    if oc == "usage":
        if r.rc != 2:
            d.append("expected usage error (exit 2), got exit %s" % r.rc)
        if r.starts:
            d.append("tools were started although the command line must be refused: %s" % [e["role"] for e in r.starts])
        if "usage: cproc" not in r.stderr:
            d.append("no usage line on stderr")
        txt = WHY_TEXT[plan["why"]]
        if txt is None:
            if not r.stderr.startswith("usage:"):
                d.append("expected bare usage line, stderr=%r" % r.stderr[:120])
        elif txt not in r.stderr:
            d.append("expected message %r, stderr=%r" % (txt, r.stderr[:160]))
        if r.after != r.before or r.temps:
            d.append("files changed by a refused command line: %s -> %s temps=%s" % (r.before, r.after, r.temps))
        return d
    if oc == "fatal-target":
        if r.rc != 1 or "unsupported target" not in r.stderr or r.starts:
            d.append("expected fatal 'unsupported target' (exit 1), got exit %s stderr=%r" % (r.rc, r.stderr[:120]))
        return d
    if r.rc != 0:
        d.append("expected exit 0, got %s; stderr=%r" % (r.rc, r.stderr[:200]))
    u = Unify(r.temps)
    obs, orphans = chains(r.starts)
    if orphans:
        d.append("stages with a pipe on stdin that no stage writes to: %s" % [e["role"] for e in orphans])
    exp = plan["pipelines"]
    if len(obs) != len(exp):
        d.append("pipelines: expected %d, observed %d (%s)" % (len(exp), len(obs), [[e["role"] for e in c] for c in obs]))
    created = set()
    for k, (pe, po) in enumerate(zip(exp, obs)):
        se = pe["stages"]
        if [ROLE_OF_STAGE[s["stage"]] for s in se] != [e["role"] for e in po]:
            d.append("pipeline %d (input %d): expected stages %s, observed %s" %
                     (k, pe["input"], [s["stage"] for s in se], [e["role"] for e in po]))
            continue
        for j, (s, e) in enumerate(zip(se, po)):
            if not u.argv(s["argv"], e["argv"]):
                d.append("pipeline %d %s argv: expected %s, observed %s" %
                         (k, s["stage"], [w if w.startswith("#") else dec(w) for w in s["argv"]], e["argv"]))
            if s["src"] in ("file", "inherit"):
                if not same_id(e["stdin"], r.stdin_id):
                    d.append("pipeline %d %s: stdin is not the driver's stdin" % (k, s["stage"]))
            else:
                prev = po[j - 1]
                if e["stdin"]["kind"] != "pipe" or (e["stdin"]["dev"], e["stdin"]["ino"]) != \
                        (prev["stdout"]["dev"], prev["stdout"]["ino"]):
                    d.append("pipeline %d %s: stdin is not the previous stage's stdout" % (k, s["stage"]))
            if s["dst"] == "pipe":
                if e["stdout"]["kind"] != "pipe":
                    d.append("pipeline %d %s: stdout is not a pipe" % (k, s["stage"]))
            else:
                if not same_id(e["stdout"], r.stdout_id):
                    d.append("pipeline %d %s: stdout is not the driver's stdout" % (k, s["stage"]))
                if s["dst"] == "path" and not s["out"].startswith("#"):
                    created.add(os.path.normpath(dec(s["out"])))
    lds = [e for e in r.starts if e["role"] == "ld"]
    if plan["link"] is None:
        if lds:
            d.append("link step started although none is expected")
    else:
        if len(lds) != 1:
            d.append("expected one link step, observed %d" % len(lds))
        else:
            e = lds[0]
            if r.starts[-1] is not e:
                d.append("link step is not the last tool started")
            if not u.argv(plan["link"], e["argv"]):
                d.append("link argv: expected %s, observed %s" %
                         ([w if w.startswith("#") else dec(w) for w in plan["link"]], e["argv"]))
            if e["o"] is not None:
                created.add(os.path.normpath(e["o"]))
    ntmp = len({w for p in exp for s in p["stages"] for w in s["argv"] if w.startswith("#")})
    if len(r.temps) != ntmp:
        d.append("temporary objects: expected %d, created %d" % (ntmp, len(r.temps)))
    if r.temps_left:
        d.append("temporary objects left behind: %s" % r.temps_left)
    removed = {os.path.normpath(dec(w)) for w in plan["unlink"] if not w.startswith("#")}
    want = sorted((set(r.before) - removed) | {c for c in created if not c.startswith("/") and not c.startswith("..")})
    if want != r.after:
        d.append("files: expected %s, found %s" % (want, r.after))
    nspawn = len(re.findall(r"^cproc: spawning ", r.stderr, re.M))
    ninv = sum(len(p["stages"]) for p in exp) + (1 if plan["link"] is not None else 0)
    if plan.get("verbose"):
        if nspawn != ninv:
            d.append("-v: expected %d 'spawning' lines, got %d" % (ninv, nspawn))
    elif r.stderr.strip() and not r.sanitizer:
        d.append("unexpected stderr: %r" % r.stderr[:200])
    return d


# ----------------------------------------------------------------------------- model side
def cfg_lines(mc):
    out = ["cfg\ttarget\t" + enc(mc["target"])]
    for k in ("startfiles", "endfiles", "preprocesscmd", "compilecmd", "codegencmd", "assemblecmd", "linkcmd"):
        out.append("\t".join(["cfg", k] + [enc(v) for v in mc[k]]))
    return out


def model_batch(ck, drv, cases):
    """Adds to each case: model (plan of Model/Driver), doc (docPlan, manual reading), doc_impl
    (docPlan, as-implemented reading), devs, and checks the rendering."""
    lines = cfg_lines(drv.model_config())
    ncfg = len(lines)
    idx = []
    for c in cases:
        lines.append("\t".join(["run"] + [enc(a) for a in c["argv"]]))
        if c["items"] is not None:
            its = [enc_item(it) for it in c["items"]]
            lines.append("\t".join(["doc", "11"] + its))
            lines.append("\t".join(["doc", "00"] + its))
            lines.append("\t".join(["dev"] + its))
            lines.append("\t".join(["render"] + its))
            idx.append(5)
        else:
            idx.append(1)
    out = ck.run_drv("\n".join(lines) + "\n")
    if len(out) != len(lines) or any(o != "ok" for o in out[:ncfg]):
        raise common.Broken("drv_c17 protocol error: %s" % out[:ncfg + 1])
    pos = ncfg
    for c, n in zip(cases, idx):
        o = out[pos:pos + n]
        pos += n
        if any(x in ("bad-op", "not-wf") for x in o):
            raise common.Broken("drv_c17 rejected a generated case: %s -> %s" % (c, o))
        c["model"] = json.loads(o[0])
        if n == 5:
            c["doc"] = json.loads(o[1])
            c["doc_impl"] = json.loads(o[2])
            c["devs"] = json.loads(o[3])
            if [dec(t) for t in json.loads(o[4])] != c["argv"]:
                raise common.Broken("Spec render differs from the generator's rendering: %s vs %s" % (o[4], c["argv"]))


def judge(ck, drv, c, r, stats):
    """Classify one executed case.  Returns None or a replay dict describing the failure."""
    base = {"target": drv.triple, "argv": c["argv"], "items": c["items"], "kind": c["kind"],
            "exit": r.rc, "stderr": r.stderr[-600:], "observed": [[e["role"]] + e["argv"][1:] for e in r.starts]}
    # (1) ok predicate: the documentation
    if c["items"] is None:
        supported = drv.cfg["target"].startswith(("x86_64-", "amd64-", "aarch64-", "riscv64-"))
        expect_doc = {"outcome": "usage", "why": "doc"} if supported else {"outcome": "fatal-target"}
    else:
        expect_doc = c["doc"]
    dd = compare(expect_doc, r)
    verdict = None
    if dd:
        devs = c.get("devs") or []
        if devs and not compare(c["doc_impl"], r):
            for fid in devs:
                stats["findings"][fid] = stats["findings"].get(fid, 0) + 1
            verdict = ("finding", devs, dd)
        else:
            verdict = ("violation", None, dd)
    # (2) correspondence with the model
    dm = compare(c["model"], r)
    if verdict and verdict[0] == "violation":
        rep = dict(base, what="the driver does not do what cproc(1) prescribes for this command line",
                   differences=verdict[2][:6], model_agrees_with_code=not dm)
        return ("violation", rep)
    if dm:
        rep = dict(base, what="driver.c and Model/Driver.lean disagree although the run satisfies the documentation",
                   differences=dm[:6], theorem="CprocVerif.C17.plan_eq_docPlan (model no longer describes driver.c)")
        return ("nofail", rep)
    if verdict:
        return ("finding", dict(base, fids=verdict[1], differences=verdict[2][:4],
                                what="known difference between cproc(1) and the driver"))
    return None


def shrink(ck, drv, c, rng_unused):
    """Greedy item/argument removal keeping the `violation` verdict."""
    def fails(cand):
        model_batch(ck, drv, [cand])
        if cand["items"] is None and cand["model"]["outcome"] != "usage":
            return False, None      # a malformed line must stay malformed while it is shrunk
        r = drv.run(cand["argv"], files=files_for(cand["argv"]))
        v = judge(ck, drv, cand, r, {"findings": {}})
        return v is not None and v[0] == "violation", v
    cur = c
    budget = 60
    changed = True
    while changed and budget > 0:
        changed = False
        seq = cur["items"] if cur["items"] is not None else cur["argv"]
        for i in range(len(seq)):
            budget -= 1
            if budget <= 0:
                break
            if cur["items"] is not None:
                its = cur["items"][:i] + cur["items"][i + 1:]
                cand = {"items": its, "argv": render(its), "kind": cur["kind"]}
            else:
                av = cur["argv"][:i] + cur["argv"][i + 1:]
                cand = {"items": None, "argv": av, "kind": cur["kind"]}
            try:
                bad, v = fails(cand)
            except common.Broken:
                continue
            if bad:
                cur, changed = cand, True
                cur["_verdict"] = v
                break
    return cur


def histogram(cases, stats):
    h = {"options": {}, "modes": {}, "filetypes_by_suffix": {}, "filetypes_by_x": {}, "ninputs": {},
         "kinds": {}, "outcomes": {}}
    for c in cases:
        h["kinds"][c["kind"]] = h["kinds"].get(c["kind"], 0) + 1
        oc = c["model"]["outcome"] + (":" + c["model"]["why"] if c["model"]["outcome"] == "usage" else "")
        h["outcomes"][oc] = h["outcomes"].get(oc, 0) + 1
        if c["items"] is None:
            continue
        nin, lang, mode = 0, "none", "link"
        for kind, det, vals in c["items"]:
            if kind == "input":
                nin += 1
                if lang == "none":
                    ext = vals[0].rsplit(".", 1)[1] if "." in vals[0] else "(none)"
                    h["filetypes_by_suffix"][ext] = h["filetypes_by_suffix"].get(ext, 0) + 1
                else:
                    h["filetypes_by_x"][lang] = h["filetypes_by_x"].get(lang, 0) + 1
            else:
                key = kind + ("(detached)" if det and kind in JOINED else "(attached)" if kind in JOINED else "")
                h["options"][key] = h["options"].get(key, 0) + 1
                if kind == "x":
                    lang = vals[0]
                if kind in ("c", "S", "E", "emit-qbe", "M", "MM"):
                    mode = kind
        h["modes"][mode] = h["modes"].get(mode, 0) + 1
        h["ninputs"][nin] = h["ninputs"].get(nin, 0) + 1
    h["findings"] = stats["findings"]
    return h


CORPUS = [
    # former defects (fixed in /repo by b0535ed, a990b8e) and the two documentation differences
    {"items": [("input", False, ["foo.h"]), ("input", False, ["main.c"])]},
    {"items": [("x", True, ["c-header"]), ("input", False, ["a.c"]), ("x", False, ["none"]), ("input", False, ["b.c"])]},
    {"argv": ["-D", "x", "-include"]},
    {"argv": ["-o", "out.bin", "a.c", "-MF"]},
    {"items": [("emit-qbe", False, []), ("input", False, ["a.c"])]},
    {"items": [("pthread", False, []), ("input", False, ["a.o"]), ("l", False, ["foo"])]},
    {"items": [("input", False, ["a"])]},
    {"items": [("c", False, []), ("input", False, ["dir/x.c"]), ("input", False, ["b.S"]), ("input", False, ["c.qbe"]),
               ("input", False, ["d.i"]), ("input", False, ["e.o"]), ("input", False, ["f.h"]), ("input", False, ["g.s"])]},
    {"items": [("x", True, ["c"]), ("input", False, ["-"]), ("o", True, ["-"]), ("S", False, [])]},
    {"items": [("Wl", False, ["-a", "", "b"]), ("Wp", False, [""]), ("Wa", False, ["--x"]), ("input", False, ["a.c"]),
               ("L", True, ["-L"]), ("D", False, ["A=1 2"]), ("s", False, []), ("static", False, []), ("nostdlib", False, [])]},
    {"argv": ["-c", "a.c", "b.c", "-o", "x.o"]},
    {"argv": ["-o", "-", "-c", "a.c"]},
    {"argv": []},
    {"argv": ["-"]},
    {"items": [("input", False, [""]), ("input", False, ["b"]), ("c", False, [])]},
]


def load_corpus():
    cases = []
    for e in CORPUS:
        if "items" in e:
            cases.append({"items": e["items"], "argv": render(e["items"]), "kind": "corpus"})
        else:
            cases.append({"items": None, "argv": e["argv"], "kind": "corpus-malformed"})
    d = os.path.join(common.VERIF, "corpus", "C17")
    if os.path.isdir(d):
        for f in sorted(os.listdir(d)):
            if f.endswith(".json"):
                e = json.load(open(os.path.join(d, f)))
                its = [tuple([k, bool(dt), list(v)]) for k, dt, v in e["items"]] if e.get("items") else None
                cases.append({"items": its, "argv": render(its) if its else e["argv"], "kind": "corpus"})
    return cases


def run(ck):
    n_total = 800 if ck.quick else 40000
    ck.cov["rule"] = ("K-C: %d generated command lines (0..6 inputs of all file types by suffix and by -x, every mode "
                      "flag, every forwarding option attached and detached, -W[pal], lists, -o file / -o -, plus "
                      "malformed lines: dangling option argument, unknown option, no inputs) spread over the target "
                      "triples %s (+ amd64-unknown-openbsd and the unsupported i686-linux-gnu); every run compared "
                      "with the model plan and with the documented plan (argv per tool, pipe wiring by inode, output "
                      "paths, files created/removed, temporaries). distinct_nontrivial counts distinct "
                      "(target, outcome class, stage shapes, option kinds) tuples." % (n_total, drvkc.TRIPLES))
    ck.lean_build()
    if not ck.proofs_ok:
        ck.notes.append("Props.C17 does not build; searching for a failing input")
    if getattr(ck, "gen_error", None):
        ck.notes.append("tools/gen_c17.py could not extract the driver tables; the tie for C17 is K-C alone")
    stats = {"findings": {}}
    all_cases = []
    if not ck.drv_ok:
        raise common.Broken("drv_c17 does not build: %s" % ck.build_log[-1500:])
    triples = list(drvkc.TRIPLES) + ["amd64-unknown-openbsd", "i686-linux-gnu"]
    drvs = {}
    for t in triples:
        try:
            drvs[t] = drvkc.build(ck, t, extra=["--with-ldso=/lib/ld.so.1"] if t.startswith("i686") else [])
        except CompileError as e:
            ck.violation({"kind": "correspondence-broken", "target": t,
                          "what": "driver.c no longer builds next to a config.h generated by configure",
                          "compiler_output": str(e)[-3000:]}, nofail=True)
            return
    corpus = load_corpus()
    reported = 0
    for ti, t in enumerate(triples):
        drv = drvs[t]
        if t in drvkc.TRIPLES:
            n = n_total // 3
        else:
            n = 30 if ck.quick else 300
        cases = ([dict(c) for c in corpus] if ti < 3 else []) + [gen_case(ck.rng, i) for i in range(n)]
        model_batch(ck, drv, cases)
        with concurrent.futures.ThreadPoolExecutor(min(6, max(2, common.NPROC))) as ex:
            runs = list(ex.map(lambda c: drv.run(c["argv"], files=files_for(c["argv"])), cases))
        for c, r in zip(cases, runs):
            shape = tuple(tuple(s["stage"][0] for s in p["stages"]) for p in c["model"].get("pipelines", []))
            kinds = tuple(sorted({it[0] for it in c["items"]})) if c["items"] else tuple(sorted(set(c["argv"])))[:6]
            ck.count((t, c["model"]["outcome"], c["model"].get("why"), shape, kinds))
            v = judge(ck, drv, c, r, stats)
            if v is None:
                continue
            if v[0] == "finding":
                for fid in v[1]["fids"]:
                    ck.report(dict(v[1], finding=fid), fid=fid)
                continue
            if reported >= 3:
                ck.violations.append(None)
                continue
            reported += 1
            if v[0] == "violation":
                small = shrink(ck, drv, c, None)
                rep = small.get("_verdict", v)[1] if small is not c else v[1]
                ck.violation(dict(rep, original_argv=c["argv"]))
            else:
                ck.violation(v[1], nofail=True)
        all_cases.extend(cases)
        if ti == 0:
            for c in cases[len(corpus):len(corpus) + 3]:
                ck.sample({"argv": c["argv"], "model": c["model"]["outcome"],
                           "stages": [[s["stage"] for s in p["stages"]] for p in c["model"].get("pipelines", [])]})
    ck.cov["distribution"] = histogram(all_cases, stats)
    ck.cov["documentation_gaps"] = [
        "accepted but not in cproc(1): -S (usage line only), -emit-qbe (mentioned under -o only), -P, -M, -MM, -MD, "
        "-MMD, -MT, -MF, -std=, -include, -isystem, -idirafter, -iquote, -W<warning> (ignored), `-` as standard input",
        "refusal not in cproc(1): -o with more than one input (libraries and skipped inputs count) unless linking; "
        "-o - with -c or when linking",
        "mode flags: the last one given wins (cproc(1) is silent)"]
    if not ck.proofs_ok and not ck.violations:
        ck.violation({"kind": "proof-broken", "theorem": "CprocVerif.Props.C17 (lake build failed)",
                      "log": ck.build_log[-3000:]}, nofail=True)
    ck.assumptions = ["posix_spawnp passes argv unchanged and dup2()s the pipe ends named in the file actions (libc)",
                      "configure writes the config.h the driver is built with (the check runs /repo/configure itself)",
                      "command-line arguments contain no NUL"]


META = {
    "category": "proof",
    "text": ("Lean 4 theorems over a model of driver.c (argument loop as the option table in source order, file type "
             "detection, stage masks, -o checks, buildobj naming, spawnphase argv/pipe wiring, buildexe) against "
             "cproc(1) written as data (Spec/DriverDoc.lean): for every command line formed from the documented "
             "option grammar, of any length, with every option argument attached or detached, the planned processes "
             "are exactly the documented ones (routing in command-line order with nothing leaking to another tool, "
             "stage sets per file type cut at the mode flag, pipeline order and wiring, output names, link inputs in "
             "order) and every refusal is decided before any stage is planned.  The tables of the model equal those "
             "extracted from driver.c on every run.  Tied to /repo by running the real driver.c (unmodified, "
             "ASan+UBSan) against stub tools configured through /repo/configure for three target triples and "
             "comparing argv, pipe wiring, output paths and files with the model and with the documented plan."),
    "design_ref": "DESIGN.md section 4, C17",
    "note": ("Trusted: Lean kernel + propext/Classical.choice/Quot.sound; the hand-written model (tied by the K-C run "
             "and by Gen/DriverTables); harness/stubtool.c, harness/drvwrap.c (records mkstemp names), "
             "checks/drvkc.py; libc's posix_spawnp/pipe.  Two documented behaviours differ from the code and are "
             "classified as known findings (-emit-qbe default output, -pthread placement); full-strength statements "
             "and counterexamples are in Props/C17.lean."),
    "technique": "Lean 4 proof (induction over command lines) + differential correspondence with the real driver run against stub tools",
}

"""C01 - compiled programs behave as the C abstract machine prescribes.

Proof:   lean/CprocVerif/Props/C01.lean (when present): semantic preservation of the model of
         cproc's lowering (`Model/Lower.lean`) for the fragment described there, against the formal
         IL semantics `Spec/Qbe.lean` and the C semantics `Model/CSem.lean`.
Tie:     (a) for fragment programs the model's emitted text must equal cproc-qbe's text up to
             alpha-renaming (`drv_c01 emit`), which makes the theorem speak about this compiler;
         (b) for the whole generated language (gen/cprog.py: all integer/float types, bit-fields,
             structs by value, arrays, pointers, loops, switch, goto, calls) the IL that cproc-qbe
             really emitted is EXECUTED under the formal IL semantics (`drv_c03 run`) and its trace
             and exit status compared with the native oracle (gcc and clang, -O0, UBSan+ASan, must
             agree with each other); all three char/wchar conventions.
"""
import os
import re
import subprocess

import sys

from . import common, oracle, progrun

sys.path.insert(0, common.VERIF)
from gen import c01frag  # noqa: E402


def alpha(text):
    """alpha-canonicalise temporaries and labels by first occurrence"""
    names = {}

    def sub(m):
        k = m.group(0)
        if k not in names:
            names[k] = "%s%d" % (k[0], len(names))
        return names[k]
    return re.sub(r"[%@][A-Za-z_.0-9]+", sub, text)



# ----------------------------------------------------------------------------- fragment F1
OPS = set("cast neg cond mul div mod add sub shl shr and or xor lt gt le ge eq ne lor land".split())


def _drv01(ck, args, text, timeout=600):
    r = subprocess.run([ck.drv_path()] + args, input=text, stdout=subprocess.PIPE, stderr=subprocess.PIPE,
                       text=True, timeout=timeout)
    if r.returncode != 0:
        raise common.Broken("drv_c01 %s failed rc=%d: %s" % (args, r.returncode, r.stderr[-500:]))
    return r.stdout


def _frag_program(funcs, calls):
    """C text: the functions + a main that prints f(args) for every (index, args) of `calls`"""
    body = ["void out(long);"] + [f[0] for f in funcs] + ["int main(void) {"]
    for i, a in calls:
        ptys = funcs[i][1].split("(")[2].split(")")[0].split()
        lits = []
        for t, v in zip(ptys, a):
            suf = {"l": "L", "ll": "LL", "ul": "UL", "ull": "ULL", "u": "U"}.get(t, "")
            if v < 0:       # INT_MIN-style values as (-MAX - 1)
                lits.append("(%s)(-%d%s - 1)" % (c01frag.CNAME[t], -(v + 1), "LL" if not suf else suf.replace("U", "")))
            else:
                lits.append("(%s)%d%s" % (c01frag.CNAME[t], v, suf or ("ULL" if v >= 2 ** 63 else "LL" if v >= 2 ** 31 else "")))
        body.append("\tout((long)%s(%s));" % (funcs[i][2], ", ".join(lits)))
    body += ["\treturn 0;", "}"]
    return "\n".join(body) + "\n"


def _native_calls(prog, wd, cs):
    """value printed by every call of main under gcc and clang (UBSan in recover mode); None for a call during
    which the sanitizer reported something, or on which the two compilers disagree"""
    src = os.path.join(wd, "native.c")
    lines = prog.replace("void out(long);", "#include <stdio.h>\n#include <setjmp.h>\n#include <signal.h>\n"
                         "static void out(long v) { printf(\"out %lu\\n\", (unsigned long)v); fflush(stdout); }\n"
                         "static sigjmp_buf jb;\nstatic void onsig(int s) { (void)s; siglongjmp(jb, 1); }")
    q = [0]

    def mark(m):
        # a call whose undefined operation traps natively (e.g. `% 0` reached through an undefined constant shift that
        # the sanitizer only reports) must not take the other calls down: it counts as `runtime error`
        q[0] += 1
        return ("\tfprintf(stderr, \"@%d\\n\"); if (!sigsetjmp(jb, 1)) out((long)%s); "
                "else { fprintf(stderr, \"runtime error: signal\\n\"); out(0); }" % (q[0] - 1, m.group(1)))
    lines = re.sub(r"\tout\(\(long\)(.*)\);", mark, lines)
    lines = lines.replace("int main(void) {", "int main(void) {\n\tsignal(SIGFPE, onsig);", 1)
    open(src, "w").write(lines)
    # undefined operations inside CONSTANT subexpressions are folded by the compilers at translation time and never reach
    # the sanitizer; gcc's diagnostics name them (every generated function sits on one line of its own)
    w = subprocess.run(["gcc", "-std=gnu11", "-fsyntax-only", "-Wshift-count-overflow", "-Wshift-count-negative", "-Woverflow",
                        "-Wdiv-by-zero", "-Wshift-negative-value", "-Wshift-overflow=2", src],
                       stdout=subprocess.PIPE, stderr=subprocess.STDOUT, text=True)
    src_lines = lines.split("\n")
    warned = set()
    for m in re.finditer(r"native\.c:(\d+):\d+: warning: .*\[-W(shift-count-overflow|shift-count-negative|overflow|div-by-zero|"
                         r"shift-negative-value|shift-overflow=?2?)\]", w.stdout):
        fm = re.search(r"\b([fgh]\d+(?:_\d+)+)\(", src_lines[int(m.group(1)) - 1])
        if fm:
            warned.add(fm.group(1))
    res = []
    for comp in ("gcc", "clang"):
        exe = os.path.join(wd, "n_" + comp)
        r = subprocess.run([comp, "-std=gnu11", "-w", "-O0", "-fsanitize=undefined", "-fsigned-char" if cs else "-funsigned-char",
                            "-o", exe, src], stdout=subprocess.PIPE, stderr=subprocess.STDOUT, text=True)
        if r.returncode != 0:
            raise common.Broken("native build of fragment program failed: " + r.stdout[-500:])
        p = subprocess.run([exe], stdout=subprocess.PIPE, stderr=subprocess.PIPE, text=True, timeout=120)
        vals = p.stdout.splitlines()
        bad, cur = set(), None
        for ln in p.stderr.splitlines():
            if ln.startswith("@"):
                cur = int(ln[1:])
            elif "runtime error" in ln and cur is not None:
                bad.add(cur)
        if p.returncode != 0 or len(vals) != q[0]:
            raise common.Broken("native fragment program failed rc=%d: %s" % (p.returncode, p.stderr[-300:]))
        res.append([None if i in bad else v for i, v in enumerate(vals)])
    # a function that calls a warned one is as unreliable natively (stage D programs: callees stand before callers)
    changed = bool(warned)
    while changed:
        changed = False
        for ln in src_lines:
            fm = re.match(r"[\w ]*?\b([fgh]\d+(?:_\d+)+)\(", ln)
            if fm and fm.group(1) not in warned and any(re.search(r"\b%s\(" % w_, ln[fm.end():]) for w_ in warned):
                warned.add(fm.group(1))
                changed = True
    callee = re.findall(r"out\(\(long\)([fgh]\d+(?:_\d+)+)\(", lines)
    return [a if a == b and callee[i] not in warned else None for i, (a, b) in enumerate(zip(*res))]


def run_fragment(ck, cc, d):
    """Tie of the theorems `lower_correct` (F1) and `lower2_correct` (F2) to this compiler.  For generated functions
    of fragment F1 (`T f(params) { return E; }`) and of fragment F2 (bodies with declarations, assignments, ++/--,
    if/else, while/do/for, switch/case/default, break/continue, return, local arrays with subscripted loads and
    stores; gen/c01frag.py: typed tree as expr.c/stmt.c/
    decl.c build it), and for generated PROGRAMS of such functions calling each other and themselves (stage D:
    `lower3_correct`; same three comparisons, the IL run is that of the whole module):
      (1) the text `Lower.emitFunc` / `Lower2.emitFunc` gives for the tree is byte-identical to what cproc-qbe emits;
      (2) `CSem.evalC` / `CSem2.runC` agrees with gcc and clang (UBSan-clean) on sample arguments - validates the C
          semantics the theorems are stated against (a disagreement marks the check broken, never a violation);
      (3) the IL cproc-qbe really emitted, run under Spec/Qbe, returns the C semantics' value (the property itself).
    A text difference with (3) intact is reported as `no-failing-input-found` naming the theorem."""
    n = 240 if ck.quick else 2500
    n2 = 110 if ck.quick else 1500
    n3 = 20 if ck.quick else 300
    st = {"functions": 0, "functions-F2": 0, "text-identical": 0, "calls-defined": 0, "calls-defined-F2": 0,
          "calls-ub-skipped": 0, "il-runs": 0, "native-runs": 0}
    ophist = {}
    stmthist = ck.cov.setdefault("fragment_F2_statement_histogram", {})
    for k, (targ, cs) in enumerate(progrun.TARGETS):
        funcs = c01frag.gen(ck.seed * 1009 + k, cs, n, prefix="f%d_" % k)
        funcs2 = c01frag.gen2(ck.seed * 1009 + k, cs, n2, prefix="g%d_" % k)
        # stage D: programs - functions calling the ones before them (and themselves); `drv_c01 eval` gets the
        # whole program for these (sixth component), everything else is per function as for F2
        funcs3 = c01frag.gen3(ck.seed * 1009 + k, cs, n3, prefix="h%d_" % k)
        st["functions-in-programs"] = st.get("functions-in-programs", 0) + len(funcs3)
        funcs2 = funcs2 + funcs3
        for f in funcs2:
            for kind, cnt in f[4].items():
                stmthist[kind] = stmthist.get(kind, 0) + cnt
        nf1 = len(funcs)
        evalsx = [f[1] for f in funcs] + [f[5] if len(f) > 5 else f[1] for f in funcs2]
        funcs = funcs + [f[:4] for f in funcs2]      # one translation unit: mkblock's counter runs on
        st["functions"] += len(funcs)
        st["functions-F2"] += len(funcs2)
        for f in funcs:
            for op in re.findall(r"\((\w+) ", f[1]):
                if op in OPS:
                    ophist[op] = ophist.get(op, 0) + 1
        src = os.path.join(d, "frag%d.c" % k)
        open(src, "w").write("\n".join(f[0] for f in funcs) + "\n")
        r = subprocess.run([cc, "-t", targ, src], stdout=subprocess.PIPE, stderr=subprocess.PIPE, text=True)
        real = c01frag.split_funcs(r.stdout)
        if r.returncode != 0:
            bad = funcs[min(len(real), len(funcs) - 1)]
            g = subprocess.run(["gcc", "-std=c11", "-w", "-fsyntax-only", "-x", "c", "-"], input=bad[0] + "\n",
                               stdout=subprocess.PIPE, stderr=subprocess.STDOUT, text=True)
            if g.returncode == 0:
                ck.violation({"kind": "valid-function-rejected", "program": bad[0], "target": targ, "status": r.returncode,
                              "stderr": r.stderr[-600:], "what": "a valid function of fragment F1/F2 is rejected (or the compiler crashed)"})
                return st, ophist
            raise common.Broken("gen/c01frag.py produced a function gcc rejects too: %s" % bad[0])
        model = _drv01(ck, ["--cs", "1" if cs else "0", "emit"], "\n".join(f[1] for f in funcs) + "\n").split("--\n")
        differ = [i for i in range(len(funcs)) if i >= len(real) or real[i] != model[i]]
        st["text-identical"] += len(funcs) - len(differ)
        # sample arguments on which the C semantics is defined
        lines = ["%s | %s" % (evalsx[i], " ".join(map(str, a))) for i, f in enumerate(funcs) for a in f[3]]
        ev = _drv01(ck, ["--cs", "1" if cs else "0", "eval"], "\n".join(lines) + "\n").splitlines()
        calls, want = [], []
        j = 0
        for i, f in enumerate(funcs):
            for a in f[3]:
                m = re.match(r"(wt=0 )?(wf=0 )?c=(\S+) il=(.*)$", ev[j])
                j += 1
                if not m or m.group(1):
                    raise common.Broken("drv_c01 eval: generated function is ill-typed for the model: %s -> %s" % (f[1], ev[j - 1]))
                if m.group(2):
                    ck.violation({"kind": "model-output-not-wf", "function": f[0], "theorem": "CprocVerif.C01.emit_wf_full",
                                  "what": "Lower.emitFunc / Lower2.emitFunc output fails the IL validator"}, nofail=True)
                    return st, ophist
                if m.group(3) == "ub":
                    st["calls-ub-skipped"] += 1
                    continue
                c = int(m.group(3))
                il = m.group(4)
                if not (il.startswith("ret ") and c01frag.ret_matches(c01frag.ret_type_of(f[1]), c, il.split()[1])):
                    raise common.Broken("theorem instance fails in the driver (model/driver out of sync): %s %s -> %s" % (f[1], a, ev[j - 1]))
                calls.append((i, a))
                if i >= nf1:
                    st["calls-defined-F2"] += 1
                rt = c01frag.ret_type_of(f[1])
                v = c % (1 << (8 * c01frag.SIZE[rt]))
                if c01frag.signed(rt) if rt != "c" else cs:
                    if v >> (8 * c01frag.SIZE[rt] - 1):
                        v -= 1 << (8 * c01frag.SIZE[rt])
                want.append("out %d" % (v % (1 << 64)))
        st["calls-defined"] += len(calls)
        prog = _frag_program(funcs, calls)
        pp = os.path.join(d, "fragmain%d.c" % k)
        open(pp, "w").write(prog)
        wd = os.path.join(d, "fragw%d" % k)
        os.makedirs(wd)
        nat = _native_calls(prog, wd, cs)
        st["native-runs"] += len(calls)
        for q, (i, a) in enumerate(calls):
            if nat[q] is None:
                # undefined at the source level although the tree's value is defined: the undefined operation sits
                # in a constant subexpression that expr.c folded away (e.g. `1L << 65535` inside a ?: condition)
                st["native-ub-folded-away"] = st.get("native-ub-folded-away", 0) + 1
            elif nat[q] != want[q]:
                raise common.Broken("%s disagrees with gcc/clang on %s%s: native %s, C semantics %s" % (
                    "CSem.evalC" if i < nf1 else "CSem2.runC", funcs[i][0], a, nat[q], want[q]))
        if sum(1 for x in nat if x is None) > 0.2 * len(nat) + 5:
            raise common.Broken("too many calls undefined natively but defined for CSem.evalC")
        rc, err = progrun.compile_c(cc, targ, pp, pp + ".ssa")
        if rc != 0:
            ck.violation({"kind": "valid-program-rejected", "program": prog[-3000:], "target": targ, "stderr": err[-600:]})
            return st, ophist
        il = oracle.il_trace(progrun.drv03(), pp + ".ssa", fuel=200000000, timeout=600)
        st["il-runs"] += len(calls)
        for q, (i, a) in enumerate(calls):
            ck.count(("frag", targ, i, q))
        if il[:-1] != want or il[-1] != "ret 0":
            q = common.diff_lines(il[:-1], want)
            if q is None or q >= len(calls):
                q = len(calls) - 1
            i, a = calls[q]
            single = _frag_program([funcs[i]], [(0, a)])
            ck.violation({"kind": "fragment-behaviour-differs", "program": single, "target": targ,
                          "expected (C semantics, = gcc = clang)": want[q], "il_semantics": il[q] if q < len(il) else il[-1:],
                          "what": ("the IL emitted for a pure integer expression function returns a value other than the one C prescribes"
                                   if i < nf1 else
                                   "the IL emitted for a function of fragment F2 (integer locals, assignments, if/else, loops) "
                                   "returns a value other than the one C prescribes")})
            return st, ophist
        if differ:
            i = differ[0]
            ck.violation({"kind": "lowering-model-differs",
                          "theorem": ("CprocVerif.C01.lower_correct (tie: Lower.emitFunc = qbe.c funcexpr)" if i < nf1 else
                                      "CprocVerif.C01.lower2_correct, lower3_correct (tie: Lower2.emitFunc = stmt.c stmt / decl.c funcinit / "
                                      "qbe.c funcexpr, funcstore, funcalloc, funcjnz, funclabel)"),
                          "function": funcs[i][0], "tree": funcs[i][1], "target": targ,
                          "cproc": real[i] if i < len(real) else None, "model": model[i],
                          "functions_differing": len(differ),
                          "what": "cproc-qbe's text for a fragment function is no longer what the proved lowering model emits; "
                                  "its executed behaviour on the sample arguments is still right"}, nofail=True)
            return st, ophist
    return st, ophist


def run(ck):
    rng = ck.rng
    have_proofs = os.path.exists(os.path.join(common.LEAN, "CprocVerif", "Props", "C01.lean"))
    if have_proofs:
        ck.lean_build()
    else:
        ck.level = "translation_validation"
        ck.proofs_ok = True
        ck.notes.append("Props/C01.lean not present yet: this run is translation validation only")
    progrun.ensure_drv03(ck)
    cc = ck.build_cproc_qbe()
    d = os.path.join(ck.scratch(), "c01")
    os.makedirs(d)
    # known-finding witness: must still fail (else note 'model stale')
    wsrc = ("void out(long);\nstruct S {long long a; float b[3]; unsigned char c; unsigned long d:5; unsigned short e;};\n"
            "static long g(struct S s){ return s.a + s.c + s.d + s.e; }\n"
            "int main(void){ struct S v = {1, {0}, 2, 3, 4}; out(g(v)); return 0; }\n")
    wp = os.path.join(d, "witness_bf.c")
    open(wp, "w").write(wsrc)
    rc, err = progrun.compile_c(cc, "x86_64-sysv", wp, wp + ".ssa")
    il = oracle.il_trace(progrun.drv03(), wp + ".ssa") if rc == 0 else ["rejected"]
    if il != ["out 10", "ret 0"]:
        ck.report({"kind": "known-witness", "program": wsrc, "il_semantics": il}, fid="bitfield-unit-overlap-descriptor")
    else:
        ck.notes.append("model stale: witness of bitfield-unit-overlap-descriptor now behaves correctly")
    fst, fops = ({}, {})
    if have_proofs and ck.drv_ok:
        fst, fops = run_fragment(ck, cc, d)
    ck.cov["fragment_F1"] = fst
    ck.cov["fragment_F1_operator_histogram"] = dict(sorted(fops.items(), key=lambda kv: -kv[1]))
    if ck.violations:
        return
    n = 90 if ck.quick else 2400
    stats = {"programs": 0, "dropped-undefined": 0, "compared": 0, "trace-items": 0, "drop-reasons": {}}
    feats = {}
    jobs = []
    for i in range(n):
        targ, cs = progrun.TARGETS[i % 3]
        seed = ck.seed * 7919 + i
        size = [0.6, 1.0, 1.4][(i // 3) % 3]
        text, g = progrun.gen_program(seed, cs, size=size)
        p = os.path.join(d, "p%d.c" % i)
        open(p, "w").write(text)
        for k, v in g.features.items():
            feats[k] = feats.get(k, 0) + v
        jobs.append((i, p, targ, cs))

    def one(job):
        i, p, targ, cs = job
        wd = os.path.join(d, "w%d" % i)
        os.makedirs(wd)
        nat, why = oracle.native_trace(p, wd, charsigned=cs)
        if nat is None:
            return (job, "drop", why)
        ssa = p + ".ssa"
        rc, err = progrun.compile_c(cc, targ, p, ssa)
        if rc != 0:
            return (job, "rejected", err)
        try:
            il = oracle.il_trace(progrun.drv03(), ssa, fuel=30000000)
        except subprocess.TimeoutExpired:
            return (job, "il-timeout", "")
        return (job, "cmp", (nat, il))

    for job, kind, data in progrun.run_many(one, jobs):
        i, p, targ, cs = job
        stats["programs"] += 1
        if kind == "drop":
            stats["dropped-undefined"] += 1
            key = data.split(":")[0][:40]
            stats["drop-reasons"][key] = stats["drop-reasons"].get(key, 0) + 1
            continue
        src = open(p).read()
        if kind == "rejected":
            ck.violation({"kind": "valid-program-rejected", "program": src, "target": targ, "stderr": data[-800:],
                          "what": "a program with defined behaviour (gcc and clang agree, sanitizer-clean) is rejected"})
            break
        if kind == "il-timeout":
            ck.notes.append("IL interpreter timeout on program %d (not counted)" % i)
            continue
        nat, il = data
        stats["compared"] += 1
        stats["trace-items"] += len(nat)
        ck.count((i, targ, len(nat)))
        if il and il[-1].startswith("fuel"):
            ck.notes.append("fuel exhausted on program %d (not counted)" % i)
            continue
        if nat != il:
            k = common.diff_lines(nat, il)
            ck.violation({"kind": "behaviour-differs", "program": src, "target": targ,
                          "first_difference_at": k, "native": nat[max(0, k - 2):k + 3], "il_semantics": il[max(0, k - 2):k + 3],
                          "what": "the emitted IL, run under the formal IL semantics, does not behave as the C program"})
            break
    if stats["programs"] and stats["dropped-undefined"] > 0.5 * stats["programs"]:
        raise common.Broken("generator produces mostly undefined programs: %s" % stats["drop-reasons"])
    ck.cov["programs"] = stats["compared"]
    ck.cov["disagreements_checked"] = stats["compared"]
    ck.cov["stats"] = stats
    ck.cov["feature_histogram"] = dict(sorted(feats.items(), key=lambda kv: -kv[1]))
    ck.cov["rule"] = ("seeded programs from gen/cprog.py (3 sizes x 3 targets); a program counts when gcc and clang agree and are "
                      "sanitizer-clean; distinct_nontrivial = compared programs (each has a distinct trace)")
    ck.sample({"program (head)": open(jobs[0][1]).read()[:700]})
    if have_proofs and not ck.proofs_ok and not ck.violations:
        ck.violation({"kind": "proof-broken", "theorem": "CprocVerif.Props.C01 (lake build failed)", "log": ck.build_log[-3000:]}, nofail=True)
    ck.assumptions = ["gcc and clang at -O0 implement C11 for UB-free programs (they must agree, else the program is dropped)",
                      "Spec/Qbe.lean is the semantics of the IL (QBE's own code generation is outside the sandbox)",
                      "float arithmetic: Lean Float/Float32 = IEEE binary64/32 as on the native host"]


META = {
    "category": "proof",
    "text": ("Semantic preservation is PROVED in Lean for two fragments of the language and for programs of functions of the second.  F1 - functions `T f(params) { return E; }` "
             "over all 12 integer types with every arithmetic, bitwise, shift, comparison, logical (short-circuit), conditional, cast "
             "and unary-minus operator, any nesting depth, any number of parameters (Props/C01.lean: lower_correct, "
             "lower_correct_in, lower_correct_exact).  F2 - functions whose body is built from declarations of integer block-scope "
             "objects with and without initialiser, assignment and compound assignment, ++/-- (also on _Bool objects), expression "
             "statements, compound statements, if, if-else, while, do-while, for (any clause missing, declaration in the first), "
             "switch with case/default labels anywhere in its body (fall-through, nested loops and blocks, controlling type int..unsigned "
             "long long, also controlling expressions of the narrow types _Bool/char/short with case constants OUTSIDE the range of "
             "that type - they are converted to the PROMOTED type -, the comparison ladder of casesearch over the AVL tree of tree.c), "
             "break, continue and return anywhere (no code after a jump statement in the same block unless it is labelled), "
             "local ARRAYS of integers (`T a[n];`, `x = a[i];`, `a[i] = e;` with any index expression: out-of-bounds index or a read of an "
             "element without value = undefined; the element address is `(unsigned long)i * sizeof *a` added to the one allocation of the "
             "array, elements laid out in its bytes), ARRAY INITIALISERS `T a[n] = {e0, [3] = e3, e4};` (positional and designated "
             "in increasing order, zeros for the other elements: funcinit's address-value-store per element and zero()'s stores), "
             "`sizeof` of objects and types as constants of type unsigned long; the expressions of assignments, initialisers, expression statements, `return`, "
             "the conditions of if/while/do/for, the controlling expression of switch and stored array values may READ ARRAY "
             "ELEMENTS and CALL FUNCTIONS anywhere inside (a[i] and f(args) with pure index/arguments, under casts, unary minus, "
             "binary operators, &&, ||, ?:, the COMMA operator `(a, b)` (a evaluated and discarded - it must be defined -, value of b) "
             "- except an array read in the first operand of ?:, which condexpr constant-folds); "
             "all over F1's expressions on "
             "parameters and locals (lower2_correct, lower2_correct_in, lower2_correct_exact).  Statement: whenever the C semantics "
             "(Model/CSem.lean, Model/CSem2.lean over Spec/CInt.lean: big-step execution with fuel over a store in which "
             "uninitialised objects are indeterminate; `none` = undefined behaviour) makes the call return v on arguments rho, the IL "
             "that the model of the lowering (Model/Lower.lean, Model/Lower2.lean: transliteration of qbe.c funcexpr/convert/funcload/"
             "funcstore/funcalloc/funcjnz/funclabel/funcjmp/funcret/emitfunc, stmt.c stmt, decl.c funcinit path) emits returns a "
             "representation of v under the formal IL semantics (Spec/Qbe.lean) for every sufficiently large fuel, without trapping, "
             "getting stuck, touching memory outside its own slots or producing output - for all such functions (unbounded size "
             "and nesting, loops included), all in-range arguments, both char conventions, any block-counter start.  The theorems "
             "are tied to THIS compiler on every run: for generated F1 and F2 functions (typed trees as expr.c/stmt.c/decl.c build "
             "them) the text cproc-qbe emits must be byte-identical to the model's, the C semantics must agree with gcc and clang on "
             "sample arguments, and the real IL executed under Spec/Qbe must return the C semantics' value.  PROGRAMS: lists of F2 "
             "functions that call each other and themselves by direct calls as statements `[x =] f(args);` (lower3_correct, "
             "lower3_correct_in, lower3_correct_exact; CSem2.exec over the function table / CSem3.runP: arguments converted as by "
             "assignment, callee on a fresh store with fuel one less, result converted and stored or dropped; Lower2's lowering of "
             "qbe.c EXPRCALL): if the C execution of entry(rho) returns v within fuel n and the 64 MiB IL stack has room for n+1 "
             "activations (64 bytes + at most 32 per variable each), the module of ALL emitted functions run from entry returns a "
             "representation of v - nested frames, recursion, the caller's memory untouched by the callee; tied to the compiler by "
             "the same three comparisons on generated programs.  READ-ONLY ARRAY PARAMETERS: functions of a program may declare "
             "their first parameters as arrays `const T p[w]` (pointers), read them with `x = p[i];` and be called with LOCAL ARRAYS "
             "of the caller as arguments (`[x =] f(a, b, args);`): the C semantics shows the callee copies of the caller's elements "
             "(index outside the declared length or element without value = undefined), the IL passes the address in the array's "
             "slot, spills it and loads through it from the CALLER's allocation - proved inside lower3_correct* (the entry function "
             "itself has no array parameter: hypothesis hpw; the same hypothesis on lower2_correct*).  Outside F1/F2/programs (floats, "
             "pointers other than the implicit one of a subscripted local array and these read-only array parameters, writes through "
             "pointers, `&`/`*` as operators, pointer arithmetic, designators out of order or repeated, initialisers in braces for scalars, nested subscripts/calls inside "
             "an index or an argument, side effects inside expressions, aggregates, bit-fields, goto, indirect and variadic calls, "
             "non-scalar initialisers, "
             "VLAs, unreachable code after a jump) "
             "nothing is proved: there the check is translation validation - every program of the typed generator "
             "gen/cprog.py is compiled by the freshly built cproc-qbe, its real IL is executed under the formal IL semantics and the "
             "trace/exit status compared with gcc and clang (UBSan/ASan-clean, agreeing), for the char conventions of all three "
             "targets."),
    "design_ref": "DESIGN.md section 4, C01 and section 12.2",
    "note": ("Trusted: Lean kernel + propext/Classical.choice/Quot.sound; Spec/Qbe.lean as the reading of the QBE IL reference "
             "(QBE's own code generation is outside the sandbox); Model/CSem.lean + Spec/CInt.lean as the reading of C11 6.5 "
             "(validated against gcc/clang on every run); gen/c01frag.py's transliteration of expr.c's typing, which the "
             "byte-for-byte text comparison with the real compiler checks on every generated function; gcc/clang at -O0 as "
             "the oracle outside F1/F2.  Partial: the proofs cover F1 and F2; the rest of the property's language is validated "
             "per generated program, not proved."),
    "technique": "Lean 4 proofs of semantic preservation (simulation: induction on expressions; for statements induction on the fuel of "
                 "a big-step C semantics - over all activations at once for calls, with nested frames on a shared stack -, loops, switch "
                 "ladders (C15's search-tree lemmas), break/continue and pending jumps) for the integer expression and statement "
                 "fragments + text-level correspondence with cproc-qbe + translation validation of generated programs under a formal "
                 "IL semantics",
}

"""C01 - compiled programs behave as the C abstract machine prescribes.

Proof:   lean/CprocVerif/Props/C01.lean (when present): semantic preservation of the model of
         cproc's lowering (`Model/Lower.lean`) for the fragment described there, against the formal
         IL semantics `Spec/Qbe.lean` and the C semantics `Model/CSem.lean`.
Tie:     (a) for fragment programs the model's emitted text must equal cproc-qbe's text up to
             alpha-renaming (`drv_c01 emit`), which makes the theorem speak about this compiler;
         (b) for the whole generated language (gen/cprog.py: all integer/float types, bit-fields,
             structs by value, arrays, pointers, loops, switch, goto, calls) the IL that cproc-qbe
             really emitted is EXECUTED under the formal IL semantics (`drv_c03 run`) and its trace
             and exit status compared with the native oracle (gcc and clang, -O0, UBSan+ASan, must
             agree with each other); all three char/wchar conventions.
"""
import os
import re
import subprocess

from . import common, oracle, progrun


def alpha(text):
    """alpha-canonicalise temporaries and labels by first occurrence"""
    names = {}

    def sub(m):
        k = m.group(0)
        if k not in names:
            names[k] = "%s%d" % (k[0], len(names))
        return names[k]
    return re.sub(r"[%@][A-Za-z_.0-9]+", sub, text)


def run(ck):
    rng = ck.rng
    have_proofs = os.path.exists(os.path.join(common.LEAN, "CprocVerif", "Props", "C01.lean"))
    if have_proofs:
        ck.lean_build()
    else:
        ck.level = "translation_validation"
        ck.proofs_ok = True
        ck.notes.append("Props/C01.lean not present yet: this run is translation validation only")
    progrun.ensure_drv03(ck)
    cc = ck.build_cproc_qbe()
    d = os.path.join(ck.scratch(), "c01")
    os.makedirs(d)
    # known-finding witness: must still fail (else note 'model stale')
    wsrc = ("void out(long);\nstruct S {long long a; float b[3]; unsigned char c; unsigned long d:5; unsigned short e;};\n"
            "static long g(struct S s){ return s.a + s.c + s.d + s.e; }\n"
            "int main(void){ struct S v = {1, {0}, 2, 3, 4}; out(g(v)); return 0; }\n")
    wp = os.path.join(d, "witness_bf.c")
    open(wp, "w").write(wsrc)
    rc, err = progrun.compile_c(cc, "x86_64-sysv", wp, wp + ".ssa")
    il = oracle.il_trace(progrun.drv03(), wp + ".ssa") if rc == 0 else ["rejected"]
    if il != ["out 10", "ret 0"]:
        ck.report({"kind": "known-witness", "program": wsrc, "il_semantics": il}, fid="bitfield-unit-overlap-descriptor")
    else:
        ck.notes.append("model stale: witness of bitfield-unit-overlap-descriptor now behaves correctly")
    n = 90 if ck.quick else 2400
    stats = {"programs": 0, "dropped-undefined": 0, "compared": 0, "trace-items": 0, "drop-reasons": {}}
    feats = {}
    jobs = []
    for i in range(n):
        targ, cs = progrun.TARGETS[i % 3]
        seed = ck.seed * 7919 + i
        size = [0.6, 1.0, 1.4][(i // 3) % 3]
        text, g = progrun.gen_program(seed, cs, size=size)
        p = os.path.join(d, "p%d.c" % i)
        open(p, "w").write(text)
        for k, v in g.features.items():
            feats[k] = feats.get(k, 0) + v
        jobs.append((i, p, targ, cs))

    def one(job):
        i, p, targ, cs = job
        wd = os.path.join(d, "w%d" % i)
        os.makedirs(wd)
        nat, why = oracle.native_trace(p, wd, charsigned=cs)
        if nat is None:
            return (job, "drop", why)
        ssa = p + ".ssa"
        rc, err = progrun.compile_c(cc, targ, p, ssa)
        if rc != 0:
            return (job, "rejected", err)
        try:
            il = oracle.il_trace(progrun.drv03(), ssa, fuel=30000000)
        except subprocess.TimeoutExpired:
            return (job, "il-timeout", "")
        return (job, "cmp", (nat, il))

    for job, kind, data in progrun.run_many(one, jobs):
        i, p, targ, cs = job
        stats["programs"] += 1
        if kind == "drop":
            stats["dropped-undefined"] += 1
            key = data.split(":")[0][:40]
            stats["drop-reasons"][key] = stats["drop-reasons"].get(key, 0) + 1
            continue
        src = open(p).read()
        if kind == "rejected":
            ck.violation({"kind": "valid-program-rejected", "program": src, "target": targ, "stderr": data[-800:],
                          "what": "a program with defined behaviour (gcc and clang agree, sanitizer-clean) is rejected"})
            break
        if kind == "il-timeout":
            ck.notes.append("IL interpreter timeout on program %d (not counted)" % i)
            continue
        nat, il = data
        stats["compared"] += 1
        stats["trace-items"] += len(nat)
        ck.count((i, targ, len(nat)))
        if il and il[-1].startswith("fuel"):
            ck.notes.append("fuel exhausted on program %d (not counted)" % i)
            continue
        if nat != il:
            k = common.diff_lines(nat, il)
            ck.violation({"kind": "behaviour-differs", "program": src, "target": targ,
                          "first_difference_at": k, "native": nat[max(0, k - 2):k + 3], "il_semantics": il[max(0, k - 2):k + 3],
                          "what": "the emitted IL, run under the formal IL semantics, does not behave as the C program"})
            break
    if stats["programs"] and stats["dropped-undefined"] > 0.5 * stats["programs"]:
        raise common.Broken("generator produces mostly undefined programs: %s" % stats["drop-reasons"])
    ck.cov["programs"] = stats["compared"]
    ck.cov["disagreements_checked"] = stats["compared"]
    ck.cov["stats"] = stats
    ck.cov["feature_histogram"] = dict(sorted(feats.items(), key=lambda kv: -kv[1]))
    ck.cov["rule"] = ("seeded programs from gen/cprog.py (3 sizes x 3 targets); a program counts when gcc and clang agree and are "
                      "sanitizer-clean; distinct_nontrivial = compared programs (each has a distinct trace)")
    ck.sample({"program (head)": open(jobs[0][1]).read()[:700]})
    if have_proofs and not ck.proofs_ok and not ck.violations:
        ck.violation({"kind": "proof-broken", "theorem": "CprocVerif.Props.C01 (lake build failed)", "log": ck.build_log[-3000:]}, nofail=True)
    ck.assumptions = ["gcc and clang at -O0 implement C11 for UB-free programs (they must agree, else the program is dropped)",
                      "Spec/Qbe.lean is the semantics of the IL (QBE's own code generation is outside the sandbox)",
                      "float arithmetic: Lean Float/Float32 = IEEE binary64/32 as on the native host"]


META = {
    "disabled": True,
    "category": "translation_validation",
    "text": "",
    "design_ref": "DESIGN.md section 4, C01",
    "note": "",
    "technique": "",
}

"""C16 - names always resolve to the declaration C scoping selects.

Proof:   lean/CprocVerif/Props/C16.lean over Model/Map.lean (map.c) and Model/Scope.lean (scope.c):
         for EVERY hash assignment / collision pattern and EVERY history the table is a plain
         dictionary (map_refines, get_put_same/other across growth, keyindex_terminates,
         len_counts, hash_independent), scoped lookup returns the innermost declaration
         (scope_innermost, scope_refines, tags_decls_independent, block_scope_vanishes).
Tie:     K-A  /repo/map.c through harness/map_h.c and /repo/scope.c (+map.c, targ.c, type.c)
              through harness/scope_h.c against the model driver drv_c16 AND an independent Python
              dictionary / scope-chain reference; histories with engineered low-bit collisions at
              every table size, full-hash collisions, equal bytes, NULL values, putkeep, growth
              8 -> 2^15 (thorough 2^17); harness under a timeout (a non-terminating probe loop
              is a result).
         K-B  generated C units compiled by the freshly built cproc-qbe: which declaration a name
              resolved to is read off the emitted `data` values (200-deep blocks, every
              scope-creating construct, tag vs ordinary name space, typedef vs object, prototype
              scope, labels, thousands of FNV-colliding and very long names), the string-literal
              pool (shared object iff same bytes and element width), labels (goto targets in the
              IL), macro define/undef histories through -E.
"""
import collections
import os
import re
import subprocess
import time

from . import common
from .common import CompileError

M64 = (1 << 64) - 1
FNV_BASIS = 0x811c9dc5
FNV_PRIME = 0x1000193
ENV = dict(os.environ, ASAN_OPTIONS="detect_leaks=0")


def fnv_ext(h, bs):
    for c in bs:
        h = ((h ^ c) * FNV_PRIME) & M64
    return h


def fnv(bs):
    """hash() of map.c as of this writing: FNV-1a constants of the 32-bit variant, computed in
    unsigned long (64 bit).  Only used to ENGINEER collisions; whether it still is the real hash is
    asked from the harness (probe_hash_function), and nothing fails if it is not."""
    return fnv_ext(FNV_BASIS, bs)


ENGINEER = [True]     # False: the hash function of map.c changed, collision engineering is off


def hexs(bs):
    return bs.hex() if bs else "-"


# ============================================================================= harness plumbing
def run_proc(exe, text, timeout):
    """Returns (stdout lines, status) with status in ok / timeout / crash:<rc>; partial output kept."""
    p = subprocess.Popen([exe], stdin=subprocess.PIPE, stdout=subprocess.PIPE, stderr=subprocess.PIPE,
                         text=True, env=ENV)
    try:
        out, err = p.communicate(text, timeout=timeout)
        status = "ok" if p.returncode == 0 else "crash:%d" % p.returncode
    except subprocess.TimeoutExpired:
        p.kill()
        out, err = p.communicate()
        status = "timeout"
    keep = [l for l in err.splitlines() if "ERROR" in l or "SUMMARY" in l or re.match(r"\s+#[0-4] ", l)]
    return out.splitlines(), status, "\n".join(keep[:12]) or err[-800:]


def shrink(ops, fails, keep_head=1, budget_s=60.0, max_runs=150):
    """Greedy delta debugging on a list of operation lines (the first `keep_head` lines stay)."""
    t0 = time.time()
    runs = 0
    head, body = ops[:keep_head], ops[keep_head:]
    chunk = max(1, len(body) // 2)
    while body:
        i = 0
        progress = False
        while i < len(body):
            if runs >= max_runs or time.time() - t0 > budget_s:
                return head + body
            cand = body[:i] + body[i + chunk:]
            runs += 1
            if fails(head + cand):
                body = cand
                progress = True
            else:
                i += chunk
        if chunk == 1:
            if not progress:
                break
        else:
            chunk = max(1, chunk // 2)
    return head + body


# ============================================================================= K-A: map.c
def map_ref_check(ops, out):
    """Independent dictionary reference evaluated on the implementation's own output.
    Returns None or (index of first offending line, reason)."""
    d = {}
    for i, op in enumerate(ops):
        if i >= len(out):
            return (i, "no answer (process stopped or probe loop did not terminate)")
        t = op.split()
        line = out[i]
        try:
            if t[0] == "init":
                d = {}
                if line != "ok":
                    return (i, "init answered %r" % line)
            elif t[0] in ("put", "putkeep"):
                key = (int(t[1]), t[2])
                v = int(t[3])
                if t[0] == "putkeep":
                    old = d.get(key, 0)
                    v = old if old != 0 else v
                d[key] = v
                f = [int(x) for x in line.split()]
                if len(f) != (3 if t[0] == "put" else 4):
                    return (i, "malformed answer %r" % line)
                ln, cap, idx = f[:3]
                if ln != len(d):
                    return (i, "len=%d but %d distinct keys were put" % (ln, len(d)))
                if cap < 1 or cap & (cap - 1):
                    return (i, "cap=%d is not a power of two" % cap)
                if ln > cap // 2 + 1:
                    return (i, "len=%d exceeds cap/2+1 (cap=%d): growth did not happen" % (ln, cap))
                if idx >= cap:
                    return (i, "slot index %d outside the table (cap=%d)" % (idx, cap))
                if t[0] == "putkeep" and f[3] != v:
                    return (i, "putkeep left value %d, dictionary says %d" % (f[3], v))
            elif t[0] == "get":
                key = (int(t[1]), t[2])
                if int(line) != d.get(key, 0):
                    return (i, "get returned %s, last put value is %d" % (line, d.get(key, 0)))
            elif t[0] == "dump":
                f = line.split()
                cap = int(f[0].split("=")[1])
                ln = int(f[1].split("=")[1])
                seen = {}
                idxs = set()
                for e in f[2:]:
                    idx, h, b, v = e.split(":")
                    if (int(h), b) in seen:
                        return (i, "key %s:%s stored twice" % (h, b))
                    seen[(int(h), b)] = int(v)
                    if int(idx) >= cap or int(idx) in idxs:
                        return (i, "bad slot index %s" % idx)
                    idxs.add(int(idx))
                if ln != len(d) or seen != d:
                    return (i, "table content differs from the dictionary (len=%d, %d entries, dictionary %d)"
                            % (ln, len(seen), len(d)))
        except (ValueError, IndexError):
            return (i, "malformed answer %r" % line[:200])
    return None


class KeyPool:
    """Keys (hash, bytes) of one history, by collision class."""

    def __init__(self, rng, maxk):
        self.rng = rng
        self.maxk = maxk
        self.classes = collections.Counter()
        self.n = 0

    def fresh_bytes(self, tag=b""):
        self.n += 1
        return tag + b"%x" % self.n

    def cluster(self):
        """A list of keys that belong together (collide), and the class name."""
        rng = self.rng
        r = rng.random()
        size = rng.randint(2, 12)
        if r < 0.22:      # collide at EVERY table size: equal low 20 bits
            c = rng.randrange(1 << 20)
            ks = [((rng.randrange(1 << 40) << 20) | c, self.fresh_bytes()) for _ in range(size)]
            name = "lowbits-all-sizes"
        elif r < 0.44:    # hash = j * 2^k + c: collide while cap <= 2^k
            k = rng.randint(2, self.maxk)
            c = rng.randrange(1 << k)
            ks = [(rng.randrange(1 << 30) * (1 << k) + c, self.fresh_bytes()) for _ in range(size)]
            name = "lowbits-2^%d" % k
        elif r < 0.56:    # home slot is the last / second last slot: the probe wraps around
            k = rng.randint(2, self.maxk)
            c = (1 << k) - rng.choice([1, 1, 2])
            ks = [(rng.randrange(1 << 30) * (1 << k) + c, self.fresh_bytes()) for _ in range(size)]
            name = "wraparound"
        elif r < 0.72:    # full-hash collisions, different bytes
            h = rng.choice([0, 1, M64, rng.randrange(1 << 64), rng.randrange(1 << 12)])
            base = self.fresh_bytes(b"k")
            ks = [(h, base)]
            for j in range(size - 1):
                m = rng.random()
                if m < 0.3:       # extension (stored key is a prefix of the new one)
                    ks.append((h, ks[-1][1] + bytes([rng.randrange(256)])))
                elif m < 0.5:     # same length, last byte differs
                    b = bytearray(base)
                    b[-1] = (b[-1] + 1 + j) % 256
                    ks.append((h, bytes(b)))
                elif m < 0.65:    # same length, first byte differs
                    b = bytearray(base)
                    b[0] = (b[0] + 1 + j) % 256
                    ks.append((h, bytes(b)))
                elif m < 0.75:    # proper prefix / empty
                    ks.append((h, base[:rng.randrange(len(base))]))
                else:
                    ks.append((h, self.fresh_bytes(b"z")))
            ks = list(dict.fromkeys(ks))
            name = "fullhash-diffbytes"
        elif r < 0.80:    # equal bytes, different hash fields (impossible for a real hash; free in the model)
            b = self.fresh_bytes(b"e")
            c = rng.randrange(1 << 10)
            ks = [((rng.randrange(1 << 30) << 10) | c, b) for _ in range(size)]
            ks = list(dict.fromkeys(ks))
            name = "equalbytes-diffhash"
        elif r < 0.90:    # the real hash function
            ks = []
            for _ in range(size):
                b = bytes(rng.randrange(256) for _ in range(rng.randint(0, 12)))
                ks.append((fnv(b), b))
            ks = list(dict.fromkeys(ks))
            name = "fnv1a"
        else:
            ks = [(rng.randrange(1 << 64), self.fresh_bytes()) for _ in range(size)]
            name = "random64"
        self.classes[name] += len(ks)
        return ks, name


def gen_map_history(rng, nops, cap0, maxk, put_bias, classes):
    pool = KeyPool(rng, maxk)
    ops = ["init %d" % cap0]
    present = []           # keys put so far
    pending = []           # keys of opened clusters not yet put
    absent = []            # cluster mates kept out of the table for miss lookups
    kinds = collections.Counter()
    while len(ops) < nops:
        if len(pending) < 4:
            ks, _ = pool.cluster()
            rng.shuffle(ks)
            if len(ks) > 2 and rng.random() < 0.5:
                absent.append(ks.pop())
            pending.extend(ks)
        r = rng.random()
        if r < put_bias:
            if present and rng.random() < 0.2:
                k = rng.choice(present)
                kinds["put-overwrite"] += 1
            else:
                k = pending.pop(rng.randrange(len(pending)))
                present.append(k)
                kinds["put-new"] += 1
            v = 0 if rng.random() < 0.15 else rng.randint(1, 10**6)
            if v == 0:
                kinds["null-value"] += 1
            ops.append("put %d %s %d" % (k[0], hexs(k[1]), v))
        elif r < put_bias + 0.08:
            if present and rng.random() < 0.6:
                k = rng.choice(present)
            else:
                k = pending.pop(rng.randrange(len(pending)))
                present.append(k)
            kinds["putkeep"] += 1
            ops.append("putkeep %d %s %d" % (k[0], hexs(k[1]), rng.choice([0, rng.randint(1, 10**6), rng.randint(1, 10**6)])))
        else:
            m = rng.random()
            if present and m < 0.55:
                k = rng.choice(present)
                kinds["get-present"] += 1
            elif absent and m < 0.85:
                k = rng.choice(absent)
                kinds["get-absent-colliding"] += 1
            else:
                k = (rng.randrange(1 << 64), b"nokey")
                kinds["get-absent"] += 1
            ops.append("get %d %s" % (k[0], hexs(k[1])))
        if rng.random() < (0.02 if nops < 400 else 3.0 / nops):
            ops.append("dump")
            kinds["dump"] += 1
    ops.append("dump")
    for k, v in pool.classes.items():
        classes[k] += v
    return ops, kinds


def gen_threshold_history(rng, cap0, parity_step):
    """Exactly fill a table to cap/2+1 with keys whose hashes are all congruent mod `parity_step`
    (a probe that advances by more than one slot, or a late growth test, meets a full class)."""
    ops = ["init %d" % cap0]
    cap = cap0
    n = 0
    for rounds in range(3):
        while n < cap // 2 + 1:
            ops.append("put %d %s %d" % (rng.randrange(1 << 20) * parity_step * 64 + parity_step * rng.randrange(8), hexs(b"t%x" % n), n + 1))
            n += 1
        ops.append("get %d %s" % (parity_step * rng.randrange(64), hexs(b"absent")))
        ops.append("get %d %s" % (rng.randrange(1 << 32), hexs(b"absent2")))
        cap *= 2
    ops.append("dump")
    return ops


def corpus(ext):
    """Hand-written witnesses and minimised past failures: corpus/C16/*.<ext>, run first."""
    d = os.path.join(common.VERIF, "corpus", "C16")
    res = []
    for f in sorted(os.listdir(d)) if os.path.isdir(d) else []:
        if f.endswith("." + ext):
            res.append((f, [l.strip() for l in open(os.path.join(d, f)) if l.strip()]))
    return res


def gen_map_histories(ck):
    rng = ck.rng
    hs = []
    classes = collections.Counter()
    kinds = collections.Counter()
    for name, ops in corpus("maphist"):
        hs.append(("corpus:" + name, ops))
    for cap0 in (4, 8, 16, 32, 64):
        for step in (2, 4, 3):
            hs.append(("threshold-fill", gen_threshold_history(rng, cap0, step)))
    nsmall = 60 if ck.quick else 600
    for i in range(nsmall):
        cap0 = rng.choice([4, 8, 8, 32, 64, 64])
        ops, kd = gen_map_history(rng, rng.randint(10, 120), cap0, 8, rng.choice([0.4, 0.6, 0.8]), classes)
        hs.append(("small-cap%d" % cap0, ops))
        kinds.update(kd)
    big = 20000 if ck.quick else 100000
    ops, kd = gen_map_history(rng, big, 8, 15 if ck.quick else 17, 0.62, classes)
    hs.append(("big-growth", ops))
    kinds.update(kd)
    return hs, classes, kinds


def run_ka_map(ck):
    try:
        h = ck.build_harness("map_h.c", ["map", "util"])
    except CompileError as e:
        ck.harness_broken("map_h.c", e)
        return
    hs, classes, kinds = gen_map_histories(ck)
    lines = [l for _, ops in hs for l in ops]
    text = "\n".join(lines) + "\n"
    t0 = time.time()
    out_c, status, err = run_proc(h, text, 15 if ck.quick else 90)
    tnorm = time.time() - t0
    out_m = ck.run_drv(text) if ck.drv_ok else None
    small_timeout = 3.0 if status == "timeout" else max(3.0, 4 * tnorm)

    def fails_ref(ops):
        o, st, _ = run_proc(h, "\n".join(ops) + "\n", small_timeout)
        return st != "ok" or map_ref_check(ops, o) is not None

    def differs_model(ops):
        txt = "\n".join(ops) + "\n"
        o, st, _ = run_proc(h, txt, small_timeout)
        return st == "ok" and map_ref_check(ops, o) is None and o != ck.run_drv(txt)

    # pass 1: the implementation's own answers against the dictionary reference (a failing input)
    pos = 0
    maxcap = 0
    for kind, ops in hs:
        n = len(ops)
        oc = out_c[pos:pos + n]
        pos += n
        ck.count(("map", kind, n, ops[1][:40] if n > 1 else ""))
        bad = map_ref_check(ops, oc)
        if bad is not None:
            i, why = bad
            incomplete = i >= len(oc)
            small = shrink(ops[:i + 1], fails_ref)
            o2, st2, _ = run_proc(h, "\n".join(small) + "\n", small_timeout)
            b2 = map_ref_check(small, o2)
            if b2 is not None:
                why = b2[1]
            ck.violation({"kind": "map-not-a-dictionary" if not incomplete else
                          ("probe-loop-hang" if status == "timeout" else "harness-crash"),
                          "what": "map.c: " + why, "history_kind": kind, "status": status,
                          "ops": small, "ops_len_before_shrinking": i + 1,
                          "impl_answer": oc[i][:300] if i < len(oc) else None, "stderr": err if incomplete else ""})
            return
        for l in oc:
            if l and l[0].isdigit() and " " in l:
                maxcap = max(maxcap, int(l.split()[1]))
    # pass 2: correspondence with the model (slot indices, cap, layout)
    pos = 0
    for kind, ops in hs:
        n = len(ops)
        oc = out_c[pos:pos + n]
        om = out_m[pos:pos + n] if out_m is not None else None
        pos += n
        if om is not None and oc != om:
            i = common.diff_lines(oc, om)
            small = shrink(ops[:i + 1], differs_model)
            ck.violation({"kind": "correspondence", "what": "map.c and Model/Map.lean disagree (slot index / cap / "
                          "layout) although map.c behaves like a dictionary on every generated history",
                          "history_kind": kind, "ops": small, "impl": oc[i][:300], "model": om[i][:300],
                          "theorem": "CprocVerif.C16.map_refines (the model no longer describes map.c)"}, nofail=True)
            return
    if status != "ok":
        ck.violation({"kind": "harness-crash", "status": status, "stderr": err})
        return
    ck.cov["ka_map"] = {"histories": len(hs), "operations": len(lines), "max_cap_reached": maxcap,
                        "op_kinds": dict(kinds), "collision_classes_keys": dict(classes),
                        "harness_seconds": round(tnorm, 2)}
    ck.sample({"K-A map history (small)": hs[-2][1][:10]})


# ============================================================================= K-A: scope.c
ALPH = b"abcdefghijklmnopqrstuvwxyzABCDEFGHIJKLMNOPQRSTUVWXYZ_0123456789"


def collision_clusters(rng, prefix, bits, nclusters, size, tail=b""):
    """Identifier-like byte strings prefix+suffix whose FNV-1a hash (of name+tail) agrees in the low
    `bits` bits within a cluster.  Returns a list of clusters (lists of names)."""
    if not ENGINEER[0]:   # un-engineered random names of the same shape
        return [list(dict.fromkeys(prefix + bytes(rng.choice(ALPH) for _ in range(4)) for _ in range(size)))
                for _ in range(nclusters)]
    h0 = fnv_ext(FNV_BASIS, prefix)
    mask = (1 << bits) - 1
    buckets = {}
    alph = list(ALPH)
    rng.shuffle(alph)
    P = FNV_PRIME
    need = max(4096, int((1 << bits) * max(size, 2) * 1.1))
    suffix_len = 1
    while len(alph) ** suffix_len < need:
        suffix_len += 1
    count = 0

    def gen(h, suf, depth):
        nonlocal count
        if depth == suffix_len:
            count += 1
            buckets.setdefault((fnv_ext(h, tail) if tail else h) & mask, []).append(suf)
            return
        for a in alph:
            if count >= need:
                return
            gen(((h ^ a) * P) & M64, suf + bytes([a]), depth + 1)

    gen(h0, b"", 0)
    good = sorted((b for b in buckets.values() if len(b) >= 2), key=len, reverse=True)
    return [[prefix + s for s in b[:size]] for b in good[:nclusters]]


def name_pool(rng, n, bits, longnames=True):
    """n distinct C identifiers: clusters colliding in the low `bits` bits of FNV-1a, some sharing a
    long common prefix, a few very long ones, plus ordinary ones."""
    names = []
    per = 6
    ncl = max(1, (n * 6 // 10) // per)
    for pfx in (b"n", b"_q", b"Zz9"):
        for cl in collision_clusters(rng, pfx, bits, ncl // 3 + 1, per):
            names.extend(cl)
    if longnames:
        for L in (10000, 4093, 257):
            base = bytes(rng.choice(ALPH[:53]) for _ in range(L - 4))
            for cl in collision_clusters(rng, b"L" + base, min(bits, 8), 1, 2):
                names.extend(cl)
            names.append(b"M" + base[::-1] + b"_end")
    i = 0
    while len(names) < n:
        i += 1
        names.append(b"id%d_%s" % (i, bytes(rng.choice(ALPH[:52]) for _ in range(rng.randint(0, 9)))))
    names = list(dict.fromkeys(names))
    rng.shuffle(names)
    return names[:n]


def scope_ref_check(ops, out):
    chain = [({}, {})]
    for i, op in enumerate(ops):
        if i >= len(out):
            return (i, "no answer (process stopped or did not terminate)")
        t = op.split()
        line = out[i]
        if t[0] == "mkscope":
            chain.append(({}, {}))
            want = "ok"
        elif t[0] == "delscope":
            if len(chain) > 1:
                chain.pop()
                want = "ok"
            else:
                want = "bad-op"
        elif t[0] in ("putdecl", "puttag"):
            chain[-1][0 if t[0] == "putdecl" else 1][t[2]] = int(t[3])
            want = "ok"
        else:
            ns = 0 if t[0] == "getdecl" else 1
            scopes = reversed(chain) if t[1] == "1" else [chain[-1]]
            want = "0"
            for sc in scopes:
                if t[3] in sc[ns]:
                    want = str(sc[ns][t[3]])
                    break
        if line != want:
            return (i, "%s answered %s, C scoping says %s" % (t[0], line[:100], want))
    return None


def scope_harness(ck):
    """Path of the built scope harness (None after reporting that it no longer builds)."""
    if not hasattr(ck, "_scope_h"):
        try:
            ck._scope_h = ck.build_harness("scope_h.c", ["scope", "map", "util", "targ", "type"])
        except CompileError as e:
            ck.harness_broken("scope_h.c", e)
            ck._scope_h = None
    return ck._scope_h


def harness_hashes(h, names):
    """The real mapkey() hash of each name (bytes without NUL), one preliminary harness pass."""
    out, status, err = run_proc(h, "".join("hash %s\n" % hexs(n) for n in names), 60)
    if status != "ok" or len(out) != len(names) or not all(x.isdigit() for x in out):
        raise common.Broken("scope harness `hash` pass failed: %s %s" % (status, err[:300]))
    return [int(x) for x in out]


def probe_hash_function(ck):
    """Is checks/c16.py's fnv() still the hash of /repo/map.c?  If not, only the collision
    ENGINEERING is switched off; the property and every comparison stay meaningful."""
    h = scope_harness(ck)
    if h is None:
        ENGINEER[0] = False
        return
    sample = [b"a", b"abc", b"x_1", b"Zz9", b"_q", b"n" * 300, bytes(range(1, 256))]
    a = harness_hashes(h, sample)
    b = harness_hashes(h, sample)           # second process: an address-dependent hash differs here
    ENGINEER[0] = a == b == [fnv(x) for x in sample]
    if not ENGINEER[0]:
        ck.notes.append("collision engineering disabled: hash function changed"
                        + (" (hash differs from process to process)" if a != b else ""))


def gen_scope_history(ck, h):
    rng = ck.rng
    nops = 10000 if ck.quick else 40000
    names = name_pool(rng, 300 if ck.quick else 1500, 9 if ck.quick else 11)
    keyed = list(zip(harness_hashes(h, names), [hexs(n) for n in names]))   # the REAL hashes feed the model
    ops = []
    for _, cops in corpus("scopehist"):     # each corpus history must return to file scope
        ops.extend(cops)
    depth = 0
    val = 1000
    kinds = collections.Counter()
    target = 0
    ck.scope_maxdepth = 0
    while len(ops) < nops:
        ck.scope_maxdepth = max(ck.scope_maxdepth, depth)
        if rng.random() < 0.004:
            target = rng.choice([0, 1, 3, 10, 50, 210, 210])
        r = rng.random()
        if r < (0.45 if depth < target else 0.10):
            if depth < target or (depth == target and rng.random() < 0.5):
                ops.append("mkscope")
                depth += 1
                kinds["mkscope"] += 1
            elif depth > 0:
                ops.append("delscope")
                depth -= 1
                kinds["delscope"] += 1
            else:
                ops.append("delscope")
                kinds["delscope-at-file-scope"] += 1
            continue
        h, b = rng.choice(keyed[:40] if rng.random() < 0.5 else keyed)
        if r < 0.35:
            val += 1
            ops.append("putdecl %d %s %d" % (h, b, val))
            kinds["putdecl"] += 1
        elif r < 0.5:
            val += 1
            ops.append("puttag %d %s %d" % (h, b, val))
            kinds["puttag"] += 1
        elif r < 0.8:
            ops.append("getdecl %d %d %s" % (rng.random() < 0.8, h, b))
            kinds["getdecl"] += 1
        else:
            ops.append("gettag %d %d %s" % (rng.random() < 0.8, h, b))
            kinds["gettag"] += 1
    return ops, kinds


def run_ka_scope(ck):
    h = scope_harness(ck)
    if h is None:
        return
    ops, kinds = gen_scope_history(ck, h)
    text = "\n".join(ops) + "\n"
    t0 = time.time()
    oc, status, err = run_proc(h, text, 15 if ck.quick else 90)
    tnorm = time.time() - t0
    small_timeout = 3.0 if status == "timeout" else max(3.0, 4 * tnorm)
    ck.count(("scope-history", len(ops)))

    def fails_ref(o2):
        o, st, _ = run_proc(h, "\n".join(o2) + "\n", small_timeout)
        return st != "ok" or scope_ref_check(o2, o) is not None

    bad = scope_ref_check(ops, oc)
    if bad is not None:
        i, why = bad
        small = shrink(ops[:i + 1], fails_ref, keep_head=0)
        o2, st2, _ = run_proc(h, "\n".join(small) + "\n", small_timeout)
        b2 = scope_ref_check(small, o2)
        if b2 is not None:
            why = b2[1]
        ck.violation({"kind": "scope-lookup", "what": "scope.c: " + why, "status": status, "ops": small,
                      "ops_len_before_shrinking": i + 1, "stderr": err if status != "ok" else ""})
        return
    if status != "ok":
        ck.violation({"kind": "harness-crash", "status": status, "stderr": err})
        return
    if ck.drv_ok:
        om = ck.run_drv(text)
        if om != oc:
            i = common.diff_lines(oc, om)
            ck.violation({"kind": "correspondence", "what": "scope.c and Model/Scope.lean disagree although scope.c "
                          "follows C scoping on this history", "ops": ops[max(0, i - 40):i + 1], "impl": oc[i][:200],
                          "model": om[i][:200], "theorem": "CprocVerif.C16.scope_refines"}, nofail=True)
            return
    ck.cov["ka_scope"] = {"operations": len(ops), "op_kinds": dict(kinds), "max_depth": ck.scope_maxdepth,
                          "harness_seconds": round(tnorm, 2)}


# ============================================================================= K-B: generated units
CHK_RE = re.compile(r"^(?:export )?data \$(?:\.L)?chk_(\d+)(?:\.\d+)? = align 4 \{ w (\d+), \}", re.M)


class Unit:
    """Generator of one translation unit together with the Python scope-chain reference."""

    def __init__(self, rng, names):
        self.rng = rng
        self.names = [n.decode() for n in names]
        self.out = []
        self.v = 1
        self.nchk = 0
        self.expect = {}        # chk index -> (value, description)
        self.chain = [({}, {})]  # (ordinary, tags); innermost last
        self.fn = 0
        self.stats = collections.Counter()
        self.maxdepth = 0
        self.kinds = []          # per emitted line: open / close / goto / stmt
        self.cstk = None         # cons list of the closers pending after each line
        self.cstks = []

    # --- reference
    def push(self):
        self.chain.append(({}, {}))
        self.maxdepth = max(self.maxdepth, len(self.chain) - 1)

    def pop(self):
        self.chain.pop()

    def lookup(self, ns, name):
        for d, sc in enumerate(reversed(self.chain)):
            if name in sc[ns]:
                return sc[ns][name], d
        return None, None

    def newv(self):
        self.v += 1
        return self.v

    def emit(self, s, kind="stmt"):
        self.out.append(s)
        self.kinds.append(kind)
        self.cstks.append(self.cstk)

    def open_(self, text, closer):
        self.cstk = (closer, self.cstk)
        self.emit(text, "open")

    def close_(self):
        txt = self.cstk[0]
        self.cstk = self.cstk[1]
        self.emit(txt, "close")

    @property
    def infunc(self):
        return len(self.chain) > 1

    # --- declarations
    def declare(self, name, kind=None):
        """Declare `name` as an ordinary identifier in the current scope (if legal)."""
        if name in self.chain[-1][0]:
            return False
        kind = kind or self.rng.choice(["enum", "typedef", "obj"])
        v = self.newv()
        if kind == "enum":
            self.emit("enum { %s = %d };" % (name, v))
        elif kind == "typedef":
            self.emit("typedef char %s[%d];" % (name, v))
        else:
            self.emit(("char %s[%d];" if self.infunc else "extern char %s[%d];") % (name, v))
        self.chain[-1][0][name] = (kind, v)
        self.stats["decl-" + kind] += 1
        return True

    def declare_tag(self, name):
        if name in self.chain[-1][1]:
            return False
        kw = self.rng.choice(["struct", "union"])
        v = self.newv()
        self.emit("%s %s { char c[%d]; };" % (kw, name, v))
        self.chain[-1][1][name] = (kw, v)
        self.stats["decl-tag"] += 1
        return True

    def forward_tag(self, name):
        """6.7.2.3p7: `struct NAME;` declares a NEW incomplete tag in the current scope, hiding an outer NAME; a pointer
        declared before the tag is completed must refer to the tag completed in THIS scope."""
        if name in self.chain[-1][1]:
            return False
        kw = self.rng.choice(["struct", "union"])
        v = self.newv()
        self.fn += 1
        ptr = "fwp_%d" % self.fn
        self.emit("%s %s; %s%s %s *%s; %s %s { char c[%d]; };" % (kw, name, "" if self.infunc else "extern ", kw, name, ptr, kw, name, v))
        self.chain[-1][1][name] = (kw, v)
        self.stats["decl-tag-forward" + ("-shadowing" if self._shadowed(1, name) else "")] += 1
        self._chk("sizeof(*%s)" % ptr, v, "%s %s; declared a new tag hiding the outer one: the pointer declared before its "
                  "completion refers to the tag completed in the same scope" % (kw, name[:40]), (1, name))
        return True

    def prototype(self, name):
        """A function declaration whose prototype scope redeclares `name`; nothing may leak."""
        v = self.newv()
        self.fn += 1
        self.emit("void pn_%d(char (*%s)[%d], char (*q_)[sizeof(*%s)]); void pn_%d(char (*a_)[%d], char (*b_)[%d]);"
                  % (self.fn, name, v, name, self.fn, v, v))
        self.stats["prototype-scope"] += 1

    # --- probes
    def probe(self, name):
        ent, dist = self.lookup(0, name)
        if ent is None:
            return False
        kind, v = ent
        if kind == "enum":
            expr, want = name, v
        elif kind == "typedef":
            expr, want = "sizeof(%s) * 8 + sizeof(%s[3])" % (name, name), 11 * v
        elif kind == "obj":
            expr, want = "sizeof(%s) * 8 + sizeof(%s[3])" % (name, name), 8 * v + 1
        else:  # param: char (*name)[v]
            expr, want = "sizeof(*%s)" % name, v
        self._chk(expr, want, "%s resolves to the %s declared %d scope(s) out (value %d)" % (name[:40], kind, dist, v),
                  (0, name))
        self.stats["probe-%s-%s" % (kind, "shadowing" if self._shadowed(0, name) else "plain")] += 1
        return True

    def probe_tag(self, name):
        ent, dist = self.lookup(1, name)
        if ent is None:
            return False
        kw, v = ent
        self._chk("sizeof(%s %s)" % (kw, name), v, "%s %s resolves to the tag declared %d scope(s) out" % (kw, name[:40], dist),
                  (1, name))
        self.stats["probe-tag-%s" % ("shadowing" if self._shadowed(1, name) else "plain")] += 1
        return True

    def _shadowed(self, ns, name):
        return sum(1 for sc in self.chain if name in sc[ns]) > 1

    def _chk(self, expr, want, desc, key):
        n = self.nchk
        self.nchk += 1
        self.emit("%sint chk_%d = %s;" % ("static " if self.infunc else "", n, expr))
        ns, name = key
        snap = [(depth, sc[nsx][name]) for depth, sc in enumerate(self.chain) for nsx in (0, 1) if name in sc[nsx]]
        self.expect[n] = (want, desc, (name, expr, len(self.chain), snap))

    @staticmethod
    def slice_text(n, info):
        """Minimal unit with only the declarations of this name along the chain at the probe."""
        name, expr, nchain, snap = info
        lines = []
        for depth in range(nchain):
            if depth == 1:
                lines.append("void f(void) {")
            elif depth > 1:
                lines.append("{")
            for dd, (k, v) in snap:
                if dd != depth:
                    continue
                if k == "enum":
                    lines.append("enum { %s = %d };" % (name, v))
                elif k == "typedef":
                    lines.append("typedef char %s[%d];" % (name, v))
                elif k == "obj":
                    lines.append(("char %s[%d];" if depth else "extern char %s[%d];") % (name, v))
                elif k == "param":
                    lines.append("char (*%s)[%d];" % (name, v))
                else:
                    lines.append("%s %s { char c[%d]; };" % (k, name, v))
        lines.append("%sint chk_%d = %s;" % ("static " if nchain > 1 else "", n, expr))
        lines.extend("}" for _ in range(nchain - 1))
        return "\n".join(lines) + "\n"

    # --- functions with nested blocks
    def function(self, steps, maxdepth):
        rng = self.rng
        self.fn += 1
        params = rng.sample(self.names, rng.randint(0, 3))
        pv = [(p, self.newv()) for p in params]
        plist = ", ".join("char (*%s)[%d]" % x for x in pv) or "void"
        self.nfunc = getattr(self, "nfunc", 0) + 1
        if self.nfunc % 2 == 1:
            # a definition whose declarator has TWO parameter lists (a function returning a pointer to function): the body
            # is parsed in the scope of the FIRST list; the names of the second list are prototype scope only
            p2 = [(q, self.newv()) for q in rng.sample(self.names, rng.randint(1, 3))]
            self.open_("void (*fn_%d(%s))(%s) {" % (self.fn, plist, ", ".join("char (*%s)[%d]" % x for x in p2)), "}")
            self.stats["function-returning-function-pointer"] += 1
        else:
            self.open_("void fn_%d(%s) {" % (self.fn, plist), "}")
        self.push()
        for p, v in pv:
            self.chain[-1][0][p] = ("param", v)
            self.stats["decl-param"] += 1
        closers = []          # (text, number of scopes popped)
        labels, gotos = set(), set()
        target = maxdepth if self.fn % 2 else rng.choice([3, 20, maxdepth])
        for _ in range(steps):
            r = rng.random()
            depth = len(self.chain) - 2
            if rng.random() < 0.004:
                target = rng.choice([0, 2, 8, 40, maxdepth, maxdepth])
            if r < (0.40 if depth < target else 0.12):
                if depth < target:
                    kind = rng.choice(["plain", "plain", "if", "else", "while", "do", "switch", "for"])
                    self.stats["open-" + kind] += 1
                    if kind == "plain":
                        self.open_("{", "}"); self.push(); closers.append(1)
                    elif kind == "if":
                        self.open_("if (1) {", "}"); self.push(); closers.append(1)
                    elif kind == "else":
                        self.open_("if (0) ; else {", "}"); self.push(); closers.append(1)
                    elif kind == "while":
                        self.open_("while (0) {", "}"); self.push(); closers.append(1)
                    elif kind == "do":
                        self.open_("do {", "} while (0);"); self.push(); closers.append(1)
                    elif kind == "switch":
                        self.open_("switch (0) { default: {", "} }"); self.push(); self.push(); closers.append(2)
                    else:
                        nm = rng.choice(self.names)
                        v = self.newv()
                        self.open_("for (char %s[%d]; 0; ) {" % (nm, v), "}")
                        self.push()
                        self.chain[-1][0][nm] = ("obj", v)
                        self.push()
                        closers.append(2)
                elif closers:
                    n = closers.pop()
                    self.close_()
                    for _ in range(n):
                        self.pop()
                    self.stats["close"] += 1
            elif r < 0.40:
                self.declare(rng.choice(self.names))
            elif r < 0.47:
                self.declare_tag(rng.choice(self.names))
            elif r < 0.50:
                self.forward_tag(rng.choice(self.names))
            elif r < 0.53:
                self.prototype(rng.choice(self.names))
            elif r < 0.57:
                nm = rng.choice(self.names)
                if nm not in labels:
                    labels.add(nm)
                    self.emit("%s: ;" % nm)
                    self.stats["label-same-spelling"] += 1
            elif r < 0.60:
                nm = rng.choice(self.names)
                gotos.add(nm)
                self.emit("if (0) goto %s;" % nm, "goto")
            elif r < 0.88:
                nm = rng.choice(self.names)
                self.probe(nm)
            else:
                self.probe_tag(rng.choice(self.names))
        while closers:
            n = closers.pop()
            self.close_()
            for _ in range(n):
                self.pop()
            # on the way out: the outer declarations reappear
            for nm in rng.sample(self.names, 2):
                self.probe(nm)
                self.probe_tag(nm)
        for nm in sorted(gotos - labels):
            self.emit("%s: ;" % nm)
        self.close_()
        self.pop()

    def text(self):
        return "\n".join(self.out) + "\n"


def gen_shadow_unit(ck, names):
    rng = ck.rng
    u = Unit(rng, names)
    for nm in u.names:
        if rng.random() < 0.6:
            u.declare(nm)
        if rng.random() < 0.4:
            u.declare_tag(nm)
    for nm in u.names:
        u.probe(nm)
        u.probe_tag(nm)
    for _ in range(2 if ck.quick else 4):
        u.function(2500 if ck.quick else 6000, 200)
        for nm in rng.sample(u.names, min(10, len(u.names))):
            u.probe(nm)
            u.probe_tag(nm)
            if rng.random() < 0.3:
                u.prototype(nm)
    return u


def gen_big_unit(ck, names):
    """Thousands of file-scope identifiers of every kind, then shadowing of a subset in a block."""
    rng = ck.rng
    u = Unit(rng, names)
    for nm in u.names:
        r = rng.random()
        if r < 0.85:
            u.declare(nm)
        if r > 0.6:
            u.declare_tag(nm)     # same spelling in both name spaces for r in (0.6, 0.85)
    order = list(u.names)
    rng.shuffle(order)
    for nm in order:
        u.probe(nm)
        u.probe_tag(nm)
    u.open_("void big(void) {", "}")
    u.push()
    sub = rng.sample(u.names, min(len(u.names), 400))
    for nm in sub:
        u.declare(nm)
        if rng.random() < 0.5:
            u.declare_tag(nm)
    u.open_("{", "}")
    u.push()
    for nm in sub[:150]:
        u.declare(nm)
    for nm in rng.sample(u.names, min(len(u.names), 1500)):
        u.probe(nm)
        u.probe_tag(nm)
    u.close_()
    u.pop()
    for nm in sub:
        u.probe(nm)
        u.probe_tag(nm)
    u.close_()
    u.pop()
    for nm in sub:
        u.probe(nm)
        u.probe_tag(nm)
    return u


CPROC_TIMEOUT = [20]


def cproc(cc, path, args=(), timeout=None):
    timeout = timeout or CPROC_TIMEOUT[0]
    try:
        r = subprocess.run([cc] + list(args) + [path], stdout=subprocess.PIPE, stderr=subprocess.PIPE, text=True,
                           timeout=timeout, errors="replace")
        return r.returncode, r.stdout, r.stderr
    except subprocess.TimeoutExpired:
        return "timeout", "", ""


def save_unit(ck, tag, text):
    """Big units are stored next to the replay instead of inside it."""
    if len(text) <= 6000:
        return text
    p = os.path.join(common.VERIF, "replays", "%s-%s-s%d-%s.c" % (ck.pid, ck.tier, ck.seed, tag))
    open(p, "w").write(text)
    return "(%d bytes) stored in %s" % (len(text), p)


def gcc_accepts(path):
    r = common.sh(["gcc", "-std=gnu11", "-fsyntax-only", "-w", path])
    return r.returncode == 0, r.stdout[-600:]


def structural_slice(u, line_index, names):
    """Lines 0..line_index of the unit restricted to block structure and to the lines that mention
    one of `names`, followed by the closers pending at that point."""
    pats = [re.compile(r"(?<![A-Za-z0-9_])%s(?![A-Za-z0-9_])" % re.escape(n)) for n in names]
    keep = []
    for i in range(line_index + 1):
        k = u.kinds[i]
        if k == "goto":
            continue
        if k in ("open", "close") or i == line_index or any(p.search(u.out[i]) for p in pats):
            keep.append(u.out[i])
    c = u.cstks[line_index]
    while c:
        keep.append(c[0])
        c = c[1]
    return "\n".join(keep) + "\n"


def names_on_line(u, line_index):
    pool = set(u.names)
    return [t for t in set(re.findall(r"[A-Za-z_][A-Za-z0-9_]*", u.out[line_index])) if t in pool]


def check_unit(ck, cc, u, tag, d):
    src = u.text()
    path = os.path.join(d, tag + ".c")
    open(path, "w").write(src)
    rc, out, err = cproc(cc, path)
    ck.count(("unit", tag, u.nchk))
    if rc != 0:
        ok, gout = gcc_accepts(path)
        if not ok:
            raise common.Broken("checks/c16.py generated an invalid unit (%s): %s" % (tag, gout))
        small = src
        m = re.search(r"%s:(\d+):\d+: error" % re.escape(path), err) if rc != "timeout" else None
        if rc == "timeout":
            # smallest prefix of the unit (plus pending closers) on which the compiler still hangs
            sp = os.path.join(d, "slice.c")
            lo, hi = 0, len(u.out) - 1
            while lo < hi:
                mid = (lo + hi) // 2
                open(sp, "w").write(structural_slice(u, mid, u.names))
                if cproc(cc, sp, timeout=5)[0] == "timeout":
                    hi = mid
                else:
                    lo = mid + 1
            cand = structural_slice(u, lo, u.names)
            open(sp, "w").write(cand)
            if cproc(cc, sp, timeout=5)[0] == "timeout" and gcc_accepts(sp)[0]:
                small = cand
        elif m and 0 < int(m.group(1)) <= len(u.out):
            li = int(m.group(1)) - 1
            sp = os.path.join(d, "slice.c")
            for cand in (structural_slice(u, li, names_on_line(u, li)), structural_slice(u, li, u.names)):
                open(sp, "w").write(cand)
                if cproc(cc, sp)[0] not in (0, "timeout") and gcc_accepts(sp)[0]:
                    small = cand
                    break
        ck.violation({"kind": "valid-unit-rejected" if rc != "timeout" else "compiler-hang",
                      "what": "cproc-qbe %s a unit that gcc accepts: a name was resolved to the wrong kind of entity "
                      "or lookup did not terminate" % ("rejected" if rc != "timeout" else "did not finish"),
                      "stderr": err[-600:], "unit": save_unit(ck, tag, small), "found_in": tag})
        return False
    got = {int(m.group(1)): int(m.group(2)) for m in CHK_RE.finditer(out)}
    for n in range(u.nchk):
        want, desc, info = u.expect[n]
        if got.get(n) != want:
            slc = Unit.slice_text(n, info)
            # try the minimal slice (only this name's declarations along the chain)
            sp = os.path.join(d, "slice.c")
            open(sp, "w").write(slc)
            rc2, out2, _ = cproc(cc, sp)
            g2 = {int(m.group(1)): int(m.group(2)) for m in CHK_RE.finditer(out2)} if rc2 == 0 else {}
            if rc2 == 0 and g2.get(n) != want:
                ck.violation({"kind": "wrong-declaration", "what": "name resolved to the wrong declaration: " + desc,
                              "unit": slc, "probe": "chk_%d" % n, "expected_value": want, "got_value": g2.get(n),
                              "found_in": tag})
            else:
                small = src
                li = next(i for i, l in enumerate(u.out) if ("int chk_%d =" % n) in l)
                cand = structural_slice(u, li, [info[0]])
                open(sp, "w").write(cand)
                rc3, out3, _ = cproc(cc, sp)
                if rc3 == 0 and dict((int(a), int(b)) for a, b in CHK_RE.findall(out3)).get(n) != want:
                    small = cand
                ck.violation({"kind": "wrong-declaration", "what": "name resolved to the wrong declaration (only in the "
                              "large unit: depends on table state / collisions): " + desc,
                              "unit": save_unit(ck, tag, small), "probe": "chk_%d" % n, "expected_value": want,
                              "got_value": got.get(n), "declarations_of_this_name_only": slc})
            return False
    return True


# ----------------------------------------------------------------------------- labels
def run_labels(ck, cc, names, d):
    rng = ck.rng
    nl = 300 if ck.quick else 3000
    labs = [n.decode() for n in names[:nl]]
    src = ["typedef int %s;" % labs[0], "int %s;" % labs[1], "enum { %s = 3 };" % labs[2], "void f(int c) {"]
    events = [("L", nm) for nm in labs] + [("G", rng.choice(labs)) for _ in range(2 * nl)]
    rng.shuffle(events)
    seq = []
    for k, nm in events:
        if k == "L":
            src.append("%s: c++;" % nm)
        else:
            src.append("if (c) goto %s;" % nm)
            seq.append(nm)
    src.append("}")
    text = "\n".join(src) + "\n"
    path = os.path.join(d, "labels.c")
    open(path, "w").write(text)
    rc, out, err = cproc(cc, path)
    ck.count(("labels", nl))
    if rc != 0:
        ok, g = gcc_accepts(path)
        if not ok:
            raise common.Broken("checks/c16.py generated an invalid label unit: %s" % g)
        ck.violation({"kind": "valid-unit-rejected", "what": "unit with %d labels rejected" % nl, "stderr": err[-500:],
                      "unit": save_unit(ck, "labels", text)})
        return
    labset = set(labs)
    defs = {}
    for m in re.finditer(r"^@([A-Za-z_][A-Za-z0-9_]*)\.(\d+)$", out, re.M):
        if m.group(1) in labset:
            defs.setdefault(m.group(1), []).append(m.group(2))
    jumps = [(a, b) for a, b in re.findall(r"^\tjmp @([A-Za-z_][A-Za-z0-9_]*)\.(\d+)$", out, re.M) if a in labset]
    bad = None
    if [a for a, _ in jumps] != seq:
        i = next((i for i, (x, y) in enumerate(zip([a for a, _ in jumps], seq)) if x != y), min(len(jumps), len(seq)))
        bad = "goto #%d: source says %s, IL jumps to %s" % (i, seq[i][:60] if i < len(seq) else None,
                                                            jumps[i][0][:60] if i < len(jumps) else None)
    else:
        ids = set()
        for nm in labs:
            if len(defs.get(nm, [])) != 1:
                bad = "label %s has %d blocks" % (nm[:60], len(defs.get(nm, [])))
                break
            ids.add(defs[nm][0])
        if not bad and len(ids) != len(labs):
            bad = "two labels share one block"
        if not bad:
            for a, b in jumps:
                if defs[a][0] != b:
                    bad = "goto %s jumps to block %s, label is block %s" % (a[:60], b, defs[a][0])
                    break
    if bad:
        ck.violation({"kind": "wrong-label", "what": "label resolution: " + bad, "unit": save_unit(ck, "labels", text)})
    ck.cov.setdefault("kb", {})["labels"] = {"labels": nl, "gotos": len(seq)}


# ----------------------------------------------------------------------------- string pool
PREFIX = {"": (1, "char"), "u8": (1, "unsigned char"), "u": (2, "unsigned short"), "U": (4, "unsigned"), "L": (4, "int")}


def c_escape(elems):
    s = []
    for e in elems:
        if e < 256 and chr(e) in "abcdefghijklmnopqrstuvwxyzABCDEFGHIJKLMNOPQRSTUVWXYZ _-+.,;:!#%&()*/<=>[]^{|}~":
            s.append(chr(e))
        else:
            s.append("\\%03o" % e)   # always three digits: the next character cannot extend it
    return "".join(s)


def parse_data(out):
    """name -> (width, elements) for string objects; pointer name -> target symbol."""
    objs, ptrs = {}, {}
    for m in re.finditer(r"^(?:export )?data \$(\S+) = align \d+ \{ (.*) \}$", out, re.M):
        name, body = m.group(1), m.group(2)
        pm = re.match(r"l \$(\S+?),", body)
        if pm:
            ptrs[name] = pm.group(1)
            continue
        elems, width = [], None
        rest = body
        bm = re.match(r'b "((?:[^"\\]|\\[0-7]{3})*)"', rest)
        if bm:
            width = 1
            s = bm.group(1)
            i = 0
            while i < len(s):
                if s[i] == "\\":
                    elems.append(int(s[i + 1:i + 4], 8)); i += 4
                else:
                    elems.append(ord(s[i])); i += 1
            rest = rest[bm.end():]
        else:
            wm = re.match(r"([hw]) ((?:\d+ )+)", rest)
            if not wm:
                continue
            width = 2 if wm.group(1) == "h" else 4
            elems = [int(x) for x in wm.group(2).split()]
            rest = rest[wm.end():]
        zm = re.search(r"z (\d+)", rest)
        if zm:
            elems.extend([0] * (int(zm.group(1)) // width))
        objs[name] = (width, tuple(elems))
    return objs, ptrs


def run_strings(ck, cc, d):
    rng = ck.rng
    n = 3000 if ck.quick else 12000
    # literal contents (element lists without the terminating 0)
    base = []
    # clusters colliding in the low bits of the pool hash (bytes of the narrow literal + NUL)
    for cl in collision_clusters(rng, b"s", 10 if ck.quick else 13, 40, 6, tail=b"\0"):
        base.extend(list(x) for x in cl)
    for _ in range(n // 3):
        L = rng.choice([0, 1, 1, 2, 2, 3, 5, 9, 40])
        base.append([rng.choice([0, 1, 97, 98, 99, 255, 34, 92, rng.randrange(256)]) for _ in range(L)])
    base.append([rng.randrange(1, 256) for _ in range(10000)])
    base.append(base[-1][:-1] + [(base[-1][-1] % 255) + 1])
    # near-duplicates: same prefix, differ in the last element / after an embedded NUL / by a trailing NUL
    for _ in range(n // 6):
        b = list(rng.choice(base))
        m = rng.random()
        if m < 0.3 and b:
            b[-1] = (b[-1] + 1) % 256
        elif m < 0.5:
            b = b + [0]
        elif m < 0.7:
            b = b + [0, rng.randrange(256)]
        elif b:
            b[0] = (b[0] + 1) % 256
        base.append(b)
    # witnesses of the repaired defect (key length was the element count) come first
    lits = [("L", [97, 98]), ("L", [97, 99]), ("", [97]), ("u", [97]), ("U", [97, 98]), ("u8", [97]), ("", [97, 0]),
            ("u", [97, 98]), ("u", [97, 99]), ("", []), ("L", []), ("u", [])]
    for i in range(len(lits), n):
        b = rng.choice(base) if rng.random() < 0.8 else rng.choice(base[:60])
        lits.append((rng.choice(["", "", "u8", "u", "U", "L"]), b))
    src = []
    for i, (pf, b) in enumerate(lits):
        w, ty = PREFIX[pf]
        parts = [c_escape(b[j:j + 60]) for j in range(0, len(b), 60)] or [""]
        if len(parts) > 1 and rng.random() < 0.5:
            lit = " ".join('%s"%s"' % (pf, p) for p in parts)
        else:
            lit = '%s"%s"' % (pf, "".join(parts))
        src.append("%s *p_%d = %s;" % (ty, i, lit))
    src.append("void f(void) {")
    extra = []
    for i in range(n, n + 200):
        pf, b = rng.choice(lits)
        extra.append((pf, b))
        src.append('static %s *p_%d = %s"%s";' % (PREFIX[pf][1], i, pf, c_escape(b)))
    src.append("}")
    lits += extra
    text = "\n".join(src) + "\n"
    path = os.path.join(d, "strings.c")
    open(path, "w").write(text)
    rc, out, err = cproc(cc, path)
    ck.count(("strings", len(lits)))
    if rc != 0:
        ok, g = gcc_accepts(path)
        if not ok:
            raise common.Broken("checks/c16.py generated an invalid string unit: %s" % g)
        ck.violation({"kind": "valid-unit-rejected", "stderr": err[-500:], "unit": save_unit(ck, "strings", text)})
        return
    objs, ptrs = parse_data(out)
    ptrs = {re.sub(r"^\.L(p_\d+)\.\d+$", r"\1", k): v for k, v in ptrs.items()}
    by_obj = {}
    stats = collections.Counter()

    def small_unit(i, j=None):
        idx = [i] + ([j] if j is not None else [])
        return "\n".join('%s *p_%d = %s"%s";' % (PREFIX[lits[k][0]][1], k, lits[k][0], c_escape(lits[k][1])) for k in idx) + "\n"

    for i, (pf, b) in enumerate(lits):
        w = PREFIX[pf][0]
        want = (w, tuple(b) + (0,))
        sym = ptrs.get("p_%d" % i)
        obj = objs.get(sym)
        stats["width-%d" % w] += 1
        if obj != want:
            j = by_obj.get(sym)
            ck.violation({"kind": "string-pool", "what": "a string literal denotes an object with other contents "
                          "(pooled with a different literal)", "literal": "p_%d" % i, "object": sym,
                          "expected_elements": list(want[1])[:40], "object_elements": list(obj[1])[:40] if obj else None,
                          "element_width": w, "unit": small_unit(i, j) if len(b) < 300 else save_unit(ck, "strings", text)})
            return
        by_obj.setdefault(sym, i)
    groups = collections.defaultdict(set)
    for i, (pf, b) in enumerate(lits):
        groups[(PREFIX[pf][0], tuple(b))].add(ptrs["p_%d" % i])
    for key, syms in groups.items():
        if len(syms) != 1:
            ck.violation({"kind": "string-pool-not-shared", "what": "identical literals (same bytes and element width) "
                          "were given different pooled objects: the pool lookup missed an existing key",
                          "elements": list(key[1])[:40], "width": key[0], "objects": sorted(syms),
                          "unit": save_unit(ck, "strings", text)})
            return
    ck.cov.setdefault("kb", {})["strings"] = {"literals": len(lits), "distinct": len(groups), "by_width": dict(stats)}


# ----------------------------------------------------------------------------- macros
def run_macros(ck, cc, names, d):
    rng = ck.rng
    nm = [n.decode() for n in names if len(n) < 200][:400 if ck.quick else 4000]
    nlines = 4000 if ck.quick else 40000
    table = {}
    src, expect = [], []
    val = 0
    for name in nm[:48]:          # a miss lookup in every early table state
        val += 1
        table[name] = val
        src.append("#define %s %d" % (name, val))
        src.append("chk_%d = %s ;" % (len(expect), nm[-1]))
        expect.append((nm[-1], nm[-1]))
        src.append("chk_%d = %s ;" % (len(expect), name))
        expect.append((name, str(val)))
    for _ in range(nlines):
        name = rng.choice(nm[:50] if rng.random() < 0.3 else nm)
        r = rng.random()
        if r < 0.35:
            if name in table:
                src.append("#undef %s" % name)
            val += 1
            table[name] = val
            src.append("#define %s %d" % (name, val))
        elif r < 0.5:
            src.append("#undef %s" % name)
            table.pop(name, None)
        elif r < 0.55 and name in table:
            src.append("#define %s %d" % (name, table[name]))     # benign redefinition
        else:
            src.append("chk_%d = %s ;" % (len(expect), name))
            expect.append((name, str(table[name]) if name in table else name))
    text = "\n".join(src) + "\n"
    path = os.path.join(d, "macros.c")
    open(path, "w").write(text)
    rc, out, err = cproc(cc, path, ["-E"])
    ck.count(("macros", nlines))
    if rc != 0:
        ck.violation({"kind": "valid-unit-rejected", "what": "define/undef history rejected by -E", "stderr": err[-500:],
                      "unit": save_unit(ck, "macros", text)})
        return
    got = dict(re.findall(r"^chk_(\d+) = (\S+) ;$", out, re.M))
    for i, (name, want) in enumerate(expect):
        if got.get(str(i)) != want:
            # shrink: the directives that mention this name only
            rel = [l for l in src if re.search(r"\b%s\b" % re.escape(name), l) and not l.startswith("chk_")]
            ck.violation({"kind": "wrong-macro", "what": "macro name %s expands to %s, the last #define/#undef says %s"
                          % (name[:60], got.get(str(i)), want), "probe": "chk_%d" % i,
                          "directives_for_this_name": rel[-12:], "unit": save_unit(ck, "macros", text)})
            return
    ck.cov.setdefault("kb", {})["macros"] = {"lines": nlines, "probes": len(expect), "names": len(nm)}


def run_kb(ck):
    rng = ck.rng
    cc = ck.build_cproc_qbe()
    CPROC_TIMEOUT[0] = 20 if ck.quick else 180
    d = os.path.join(ck.scratch(), "kb")
    os.makedirs(d, exist_ok=True)
    kb = ck.cov.setdefault("kb", {})
    stats = collections.Counter()
    # 1. systematic shadowing, depth 200, small colliding pool (+ two very long names)
    for i in range(3 if ck.quick else 6):
        names = name_pool(rng, 36, 6, longnames=(i == (2 if ck.quick else 5)))
        u = gen_shadow_unit(ck, names)
        if not check_unit(ck, cc, u, "shadow%d" % i, d):
            return
        stats.update(u.stats)
        kb["shadow_max_depth"] = max(kb.get("shadow_max_depth", 0), u.maxdepth)
        kb["shadow_probes"] = kb.get("shadow_probes", 0) + u.nchk
        if i == 1:
            ck.sample({"K-B shadow unit (excerpt)": u.text()[-700:]})
    # 2. many identifiers
    nid = 5000 if ck.quick else 50000
    names = name_pool(rng, nid, 14 if ck.quick else 17)
    u = gen_big_unit(ck, names)
    if not check_unit(ck, cc, u, "big", d):
        return
    stats.update(u.stats)
    kb["big_identifiers"] = len(names)
    cb = 14 if ck.quick else 17
    if ENGINEER[0]:
        grp = collections.Counter(fnv(x) & ((1 << cb) - 1) for x in names)
        kb["big_names_sharing_low_%d_hash_bits_with_another" % cb] = sum(v for v in grp.values() if v > 1)
    kb["big_probes"] = u.nchk
    kb["longest_name"] = max(len(n) for n in names)
    kb["constructs"] = dict(stats)
    # 3. labels, 4. string pool, 5. macros
    run_labels(ck, cc, names, d)
    if ck.violations:
        return
    run_strings(ck, cc, d)
    if ck.violations:
        return
    run_macros(ck, cc, names, d)


def run(ck):
    ck.cov["rule"] = ("K-A map: one history of %d operations (put/putkeep/get/dump; key clusters colliding in the low 20 "
                      "bits, in the low k bits for k=2..%d, on the last slot, full-hash collisions with prefix/one-byte "
                      "differences, equal bytes, real FNV-1a, NULL values) + threshold-fill histories for caps 4..64 + %d "
                      "short histories, map.c vs model driver vs Python dict; K-A scope: %d scope operations (depth up to "
                      "210, FNV-colliding and 10^4-char names) scope.c vs model vs Python scope chain; K-B: %d shadowing "
                      "units (depth 200, every scope-creating construct, tags, typedef/object/enum, prototype scope, labels), "
                      "one unit with %d identifiers, %d labels, %d string literals, %d macro directive lines. "
                      "distinct_nontrivial counts distinct histories/units."
                      % (20000 if ck.quick else 100000, 15 if ck.quick else 17, 60 if ck.quick else 600,
                         10000 if ck.quick else 40000, 3 if ck.quick else 6, 5000 if ck.quick else 50000,
                         300 if ck.quick else 3000, 3200 if ck.quick else 12200, 4000 if ck.quick else 40000))
    ck.lean_build()
    if not ck.proofs_ok:
        ck.notes.append("Props.C16 does not build; searching for a failing input")
    probe_hash_function(ck)
    parts = os.environ.get("C16_PARTS", "ka-map,ka-scope,kb").split(",")   # debugging aid only
    if "ka-map" in parts:
        run_ka_map(ck)
    if not ck.violations and "ka-scope" in parts:
        run_ka_scope(ck)
    if not ck.violations and "kb" in parts:
        run_kb(ck)
    if parts != ["ka-map", "ka-scope", "kb"]:
        ck.notes.append("C16_PARTS=%s: partial run" % ",".join(parts))
    if not ck.proofs_ok and not ck.violations:
        ck.violation({"kind": "proof-broken", "theorem": "CprocVerif.Props.C16 (lake build failed)",
                      "log": ck.build_log[-3000:]}, nofail=True)
    ck.assumptions = [
        "callers pass mapinit a power-of-two capacity >= 4 (all call sites use 8, 32 or 64); mapinit's own assertion "
        "also admits 0, 1 and 2, for which the table can fill up completely (cap2_full_table_loops)",
        "keys are compared as (hash, bytes); the theorems do not assume the hash is a function of the bytes",
        "macro bodies in the K-B define/undef histories are integer tokens only (pp.c's permanent painting of stored "
        "replacement tokens, finding #24 of C12, is outside this property)",
        "parser/declaration code (decl.c, stmt.c) that calls the scope functions is exercised through K-B only",
    ]


META = {
    "category": "proof",
    "text": ("Lean 4 theorems over a model of map.c in which the hash is a free field of the key: for every hash "
             "assignment (every collision pattern), every initial power-of-two capacity >= 4 and every history of puts "
             "(no bound), the open-addressing table with growth at half load is a plain dictionary (map_refines, "
             "get_put_same/get_put_other across growth, putKeep), the probe loop always terminates inside the arrays "
             "(keyindex_terminates, keyindex_in_bounds), len counts the distinct keys, results do not depend on the hash "
             "function (hash_independent); over a model of scope.c: lookup returns the innermost declaration, tag and "
             "ordinary name spaces are independent, a closed block leaves the chain exactly as before (scope_refines, "
             "scope_innermost, block_scope_vanishes).  Tied to /repo on every run: map.c and scope.c themselves are run "
             "on engineered-collision histories against the model driver and an independent Python reference, and "
             "cproc-qbe compiles generated units (200-deep shadowing, 5 000/50 000 colliding and very long identifiers, "
             "labels, string-literal pool, macro histories) whose emitted data reveal the selected declaration."),
    "design_ref": "DESIGN.md section 4, C16",
    "note": ("Trusted: Lean kernel + propext/Classical.choice/Quot.sound; the hand-written models (tied by the differential "
             "runs, which are sampling); the Python scope-chain reference used for K-B.  Forced hypothesis: cap >= 4 "
             "(cap = 2 passes mapinit's assertion but a full table makes mapget loop: cap2_full_table_loops).  Not "
             "modelled: decl.c/stmt.c (which scope each construct opens) - exercised through K-B only; macro expansion "
             "beyond the name table (C12)."),
    "technique": "Lean 4 refinement proof (invariant + induction over histories) + differential correspondence with map.c/scope.c and emitted data of generated units",
}

"""C14 - character constants and string literals denote the standard-mandated values.

Proof:   lean/CprocVerif/Props/C14.lean: the model of utf.c / expr.c (decodechar, encodechar*, stringconcat,
         primaryexpr TCHARCONST) / scan.c (escape, charconst, stringlit) against Spec/Unicode.lean
         (RFC 3629, UTF-16, C11 6.4.4.4 / 6.4.5 + documented C23 u8 rule), all inputs unbounded.
Tie:     K-A  /repo/utf.c linked into harness/utf_h.c vs the model driver drv_c14 vs an independent Python
              oracle (CPython's strict UTF-8 / UTF-16 codecs): ALL code points 0..0x11FFFF (+ samples up to
              2^32) through utf8enc/utf16enc, ALL 1-, 2- and 3-byte sequences, (thorough) all 4-byte sequences
              with lead F0..F7 and a continuation second byte (code points up to 0x1FFFFF) through utf8dec; quick: a
              seeded sample of 4-byte blocks containing every boundary lead/continuation combination.
         K-B  generated literals through the freshly built cproc-qbe for all three -t targets, emitted data
              parsed into code units, compared with the model AND with an independent Python encoder;
              malformed literals must exit non-zero with a diagnostic.
         gcc/clang on the same literals validate the Python oracle (= the reading of the standard); a
         disagreement there marks the check broken, never a violation.
"""
import concurrent.futures
import json
import os
import re
import subprocess

from . import common
from .common import Broken, CompileError

FID_RANGE = "escape-out-of-range"

TARGETS = ["x86_64-sysv", "aarch64", "riscv64"]
# Independent statement of the psABI facts (System V x86-64, AAPCS64, RISC-V ELF psABI).
ABI = {
    "x86_64-sysv": {"char_signed": True, "wchar": "int"},
    "aarch64": {"char_signed": False, "wchar": "uint"},
    "riscv64": {"char_signed": False, "wchar": "int"},
}
CTYPE = {  # model/oracle type name -> (C spelling, size, signed)
    "char": ("char", 1, None), "uchar": ("unsigned char", 1, False), "ushort": ("unsigned short", 2, False),
    "int": ("int", 4, True), "uint": ("unsigned", 4, False),
}
GENERIC_PTR = "char*:1, unsigned char*:2, unsigned short*:3, int*:4, unsigned*:5, default:0"
GENERIC_PTR_ID = {"char": 1, "uchar": 2, "ushort": 3, "int": 4, "uint": 5}
GENERIC_VAL = "int:1, unsigned:2, unsigned short:3, unsigned char:4, default:0"
GENERIC_VAL_ID = {"int": 1, "uint": 2, "ushort": 3, "uchar": 4}
PREFIXES = ["", "u8", "u", "U", "L"]
SIMPLE = {"'": 0x27, '"': 0x22, "?": 0x3f, "\\": 0x5c, "a": 7, "b": 8, "f": 12, "n": 10, "r": 13, "t": 9, "v": 11}


# ----------------------------------------------------------------------------- independent oracle
def wf8(bs):
    """Is `bs` exactly one well-formed UTF-8 character?  Decided by CPython's strict decoder."""
    try:
        s = bytes(bs).decode("utf-8")
    except UnicodeDecodeError:
        return None
    return ord(s) if len(s) == 1 else None


def dec_oracle(bs, lim=4):
    """What utf8dec(&c, s, lim) must return for the NUL-terminated text `bs`."""
    if not bs:
        return (0, 1)
    for n in range(1, min(4, len(bs)) + 1):
        c = wf8(bs[:n])
        if c is not None:
            return (c, n) if (n <= lim or n == 1) else None
    return None


def code6(r):
    return "ffffff" if r is None else "%06x" % (r[1] << 21 | r[0])


def oracle_block(prefix, k):
    """Expected output of `decblk <prefix> <k>`."""
    if k == 0:
        return code6(dec_oracle(prefix))
    out = []
    for s in range(256):
        p = prefix + [s]
        det = None
        for n in range(1, min(4, len(p)) + 1):
            c = wf8(p[:n])
            if c is not None:
                det = (c, n)
                break
        if det is not None:
            out.append(code6(det) * (256 ** (k - 1)))
        else:
            out.append(oracle_block(p, k - 1))
    return "".join(out)


def enc8_oracle(cp):
    try:
        return chr(cp).encode("utf-8").hex()
    except (ValueError, UnicodeEncodeError, OverflowError):
        return None


def enc16_oracle(cp):
    try:
        return chr(cp).encode("utf-16-be").hex()
    except (ValueError, UnicodeEncodeError, OverflowError):
        return None


def oracle_line(line):
    f = line.split()
    if f[0] == "dec":
        bs = list(bytes.fromhex(f[1])) if f[1] != "-" else []
        r = dec_oracle(bs)
        return "invalid" if r is None else "%d %d" % r
    if f[0] == "decn":
        bs = list(bytes.fromhex(f[2])) if f[2] != "-" else []
        r = dec_oracle(bs, int(f[1]))
        return "invalid" if r is None else "%d %d" % r
    if f[0] == "decblk":
        bs = list(bytes.fromhex(f[1])) if f[1] != "-" else []
        return oracle_block(bs, int(f[2]))
    if f[0] == "enc8":
        r = enc8_oracle(int(f[1]))
        return "assert" if r is None else r
    if f[0] == "enc16":
        r = enc16_oracle(int(f[1]))
        return "assert" if r is None else " ".join(r[i:i + 4] for i in range(0, len(r), 4))
    if f[0] == "enc8blk":
        s, n = int(f[1]), int(f[2])
        return " ".join(enc8_oracle(c) or "!" for c in range(s, s + n))
    if f[0] == "enc16blk":
        s, n = int(f[1]), int(f[2])
        return " ".join(enc16_oracle(c) or "!" for c in range(s, s + n))
    raise Broken("oracle_line: " + line)


def oracle_lines(lines):
    return [oracle_line(ln) for ln in lines]


# ----------------------------------------------------------------------------- K-A
LEADS = [0x00, 0x41, 0x7f, 0x80, 0xbf, 0xc0, 0xc1, 0xc2, 0xdf, 0xe0, 0xe1, 0xec, 0xed, 0xee, 0xef,
         0xf0, 0xf1, 0xf3, 0xf4, 0xf5, 0xf7, 0xf8, 0xfb, 0xfc, 0xfe, 0xff]
CONTS = [0x00, 0x22, 0x7f, 0x80, 0x8f, 0x90, 0x9f, 0xa0, 0xbf, 0xc0, 0xff]


def gen_ka_lines(ck):
    rng = ck.rng
    L = []
    # encoders: every code point, the 64 Ki values after the last one, boundaries of the 32-bit domain
    for s in range(0, 0x120000, 4096):
        L.append("enc8blk %d 4096" % s)
        L.append("enc16blk %d 4096" % s)
    for s in [0x1ff000, 0x200000, 0x7ffff000, 0x80000000, 0xffffe000, 0xfffff000] + \
             [rng.randrange(0x120000, 0xfffff000) for _ in range(6 if ck.quick else 40)]:
        L.append("enc8blk %d 4096" % s)
        L.append("enc16blk %d 4096" % s)
    # decoder: empty text, all 1-byte and all 2-byte sequences
    L.append("dec -")
    L.append("decblk - 1")
    L.append("decblk - 2")
    # all 3-byte sequences (with the two lines above the tie is complete for sequences of <= 3 bytes)
    for a in range(256):
        L.append("decblk %02x 2" % a)
    if ck.quick:
        # 4-byte: boundary (lead, second, third) triples + random triples, all fourth bytes
        triples = {(a, b, c) for a in (0xef, 0xf0, 0xf1, 0xf3, 0xf4, 0xf5, 0xf7, 0xf8) for b in CONTS
                   for c in (0x00, 0x7f, 0x80, 0xbf, 0xc0)}
        while len(triples) < 8 * len(CONTS) * 5 + 400:
            triples.add((rng.randrange(0xe0, 0x100), rng.randrange(0x70, 0xd0), rng.randrange(0x70, 0xd0)))
        for t in sorted(triples):
            L.append("decblk %02x%02x%02x 1" % t)
        # full 64 Ki blocks: code points around U+10FFFF / U+110000, the overlong/valid border F0 8F/90, a random one
        for blk in ("f48f", "f490", "f08f", "f090", "%02x%02x" % (rng.randrange(0xf0, 0xf8), rng.randrange(0x80, 0xc0))):
            L.append("decblk %s 2" % blk)
    else:
        for a in range(0xf0, 0xf8):                  # 4-byte: every code point 0x0 .. 0x1FFFFF incl. overlong forms
            for b in range(0x80, 0xc0):
                L.append("decblk %02x%02x 2" % (a, b))
        for a in range(0xf0, 0x100):                 # non-continuation second byte: all third bytes
            for b in list(range(0x00, 0x80)) + list(range(0xc0, 0x100)):
                L.append("decblk %02x%02x 1" % (a, b))
        for a in (0xf0, 0xf4, 0xf7, 0xf8, 0xff):     # ... and all third+fourth bytes for some
            for b in (0x00, 0x7f, 0xc0, 0xff):
                L.append("decblk %02x%02x 2" % (a, b))
        for a in (0xe0, 0xed, 0xef):                 # 3-byte leads followed by a fourth byte
            for b in (0x80, 0x9f, 0xa0, 0xbf):
                L.append("decblk %02x%02x 2" % (a, b))
    # limit handling
    for seq in ("41", "c3a9", "e282ac", "f09f9880", "c3", "e282", "f09f98", "80", "ff", "eda080", "f4908080"):
        for n in range(0, 6):
            L.append("decn %d %s" % (n, seq))
    # readable singles
    for seq in ("00", "7f", "c280", "dfbf", "e0a080", "ed9fbf", "ee8080", "efbfbf", "f0908080", "f48fbfbf",
                "c080", "e08080", "f0808080", "eda080", "edbfbf", "f4908080", "f5808080", "f888808080"):
        L.append("dec " + seq)
    for cp in (0, 0x7f, 0x80, 0x7ff, 0x800, 0xd7ff, 0xd800, 0xdfff, 0xe000, 0xffff, 0x10000, 0x10ffff,
               0x110000, 0xffffffff):
        L.append("enc8 %d" % cp)
        L.append("enc16 %d" % cp)
    return L


def ncases(line):
    f = line.split()
    if f[0] == "decblk":
        return 256 ** int(f[2])
    if f[0] in ("enc8blk", "enc16blk"):
        return int(f[2])
    return 1


def run_sharded(cmd, lines, nshards, env=None):
    """Feed `lines` to `nshards` copies of `cmd`; returns (list of output lines, stderr, crashed)."""
    n = len(lines)
    nshards = max(1, min(nshards, n))
    bounds = [n * i // nshards for i in range(nshards + 1)]

    def one(i):
        text = "\n".join(lines[bounds[i]:bounds[i + 1]]) + "\n"
        r = subprocess.run(cmd, input=text, stdout=subprocess.PIPE, stderr=subprocess.PIPE, text=True, env=env)
        return r.stdout.splitlines(), r.stderr, r.returncode
    with concurrent.futures.ThreadPoolExecutor(nshards) as ex:
        parts = list(ex.map(one, range(nshards)))
    out, err, crashed = [], "", False
    for i, (o, e, rc) in enumerate(parts):
        want = bounds[i + 1] - bounds[i]
        if rc != 0 or len(o) != want:
            crashed = True
            err += e[-3000:]
            o = o[:want] + [None] * (want - len(o))
        out.extend(o)
    return out, err, crashed


def first_diff_case(line, a, b):
    """Locate the first differing case inside the outputs a, b of `line`; returns a replayable op."""
    f = line.split()
    if f[0] == "decblk":
        k = int(f[2])
        pre = f[1] if f[1] != "-" else ""
        for i in range(0, max(len(a), len(b)), 6):
            if a[i:i + 6] != b[i:i + 6]:
                idx = i // 6
                suf = "".join("%02x" % ((idx >> (8 * (k - 1 - j))) & 0xff) for j in range(k))
                return "dec " + (pre + suf or "-"), a[i:i + 6], b[i:i + 6]
        return line, a[:60], b[:60]
    if f[0] in ("enc8blk", "enc16blk"):
        ta, tb = a.split(" "), b.split(" ")
        for i, (x, y) in enumerate(zip(ta, tb)):
            if x != y:
                return "%s %d" % (f[0][:-3], int(f[1]) + i), x, y
        return line, a[:60], b[:60]
    return line, a, b


def run_ka(ck):
    try:
        h = ck.build_harness("utf_h.c", ["utf"])
    except CompileError as e:
        ck.harness_broken("utf_h.c", e)
        return
    lines = gen_ka_lines(ck)
    env = dict(os.environ, ASAN_OPTIONS="detect_leaks=0")
    nsh = 4 if ck.quick else 8
    with concurrent.futures.ThreadPoolExecutor(3) as ex:
        fc = ex.submit(run_sharded, [h], lines, nsh, env)
        fm = ex.submit(run_sharded, [ck.drv_path()], lines, nsh) if ck.drv_ok else None
        with concurrent.futures.ProcessPoolExecutor(common.NPROC) as pex:
            chunk = max(1, len(lines) // (common.NPROC * 4))
            groups = [lines[i:i + chunk] for i in range(0, len(lines), chunk)]
            out_o = [x for g in pex.map(oracle_lines, groups) for x in g]
        out_c, err_c, crash_c = fc.result()
        out_m, err_m, crash_m = fm.result() if fm else (None, "", False)
    if crash_m:
        raise Broken("model driver failed: " + err_m[-500:])
    total = 0
    kinds = {}
    for i, ln in enumerate(lines):
        n = ncases(ln)
        total += n
        kinds[ln.split()[0]] = kinds.get(ln.split()[0], 0) + n
        oc, oo = out_c[i], out_o[i]
        om = out_m[i] if out_m is not None else None
        if oc is None:
            ck.violation({"kind": "crash", "what": "utf.c harness aborted (sanitizer report: read past the "
                          "terminator / write past the buffer, or signal) in this operation or the shard before it",
                          "op": ln, "stderr": err_c[-2500:], "theorem": "C14.utf8dec_total_safe"})
            return
        if oc != oo:        # (1) the implementation's own output against the independent oracle
            op, got, want = first_diff_case(ln, oc, oo)
            ck.violation({"kind": "utf-value", "op": op, "impl": got, "oracle": want,
                          "what": "utf.c disagrees with the Unicode definition (CPython strict codec)",
                          "theorem": "C14.utf8dec_canonical / utf8_roundtrip / utf8enc_spec / utf16enc_spec"})
            return
        if om is not None and oc != om:   # (2) correspondence with the model
            op, got, mod = first_diff_case(ln, oc, om)
            ck.violation({"kind": "correspondence", "op": op, "impl": got, "model": mod,
                          "what": "utf.c and Model/CharLit.lean disagree although utf.c matches the oracle "
                                  "(model stale)", "theorem": "CprocVerif.CharLit.utf8decR / utf8enc / utf16enc"},
                         nofail=True)
            return
    ck.cov["evaluations"] += total
    ck._distinct.update(("ka", ln) for ln in lines)
    ck.cov["ka_cases"] = kinds
    ck.sample({"K-A ops": [lines[0], lines[600 % len(lines)], lines[-40]], "cases": total})


# ----------------------------------------------------------------------------- K-B: literals
def item_bytes(it):
    k, v = it
    if k == "c":
        return chr(v).encode("utf-8")
    if k == "s":
        return b"\\" + v.encode()
    if k == "o":
        return b"\\" + v.encode()
    if k == "x":
        return b"\\x" + v.encode()
    raise ValueError(k)


def lit_bytes(prefix, items, q=b'"'):
    return prefix.encode() + q + b"".join(item_bytes(i) for i in items) + q


def oracle_elem(target, prefix):
    return {"": "char", "u8": "uchar", "u": "ushort", "U": "uint", "L": ABI[target]["wchar"]}[prefix]


def oracle_concat(prefixes):
    nz = {p for p in prefixes if p}
    if not nz:
        return ""
    if len(nz) == 1:
        return next(iter(nz))
    return None     # constraint violation (u8 + wide) or implementation-defined (different wide): cproc rejects


CODEC = {1: ("utf-8", 1), 2: ("utf-16-le", 2), 4: ("utf-32-le", 4)}


def oracle_string(target, parts):
    """-> ("ok", type, units) | ("reject", why) | ("range", type, units-as-if-truncated is NOT computed)"""
    p = oracle_concat([pp for pp, _ in parts])
    if p is None:
        return ("reject", "prefix")
    ty = oracle_elem(target, p)
    size = CTYPE[ty][1]
    codec, w = CODEC[size]
    units = []
    for _, items in parts:
        for k, v in items:
            if k == "c":
                b = chr(v).encode(codec)
                units += [int.from_bytes(b[i:i + w], "little") for i in range(0, len(b), w)]
            elif k == "s":
                units.append(SIMPLE[v])
            else:
                n = int(v, 8 if k == "o" else 16)
                if n > (1 << (8 * size)) - 1:
                    return ("range", ty)
                units.append(n)
    return ("ok", ty, units + [0])


def wrap(v, bits, signed):
    v &= (1 << bits) - 1
    if signed and v >> (bits - 1):
        v -= 1 << bits
    return v


def oracle_char(target, prefix, it):
    """-> ("ok", type, value) | ("range", type) | ("impl", type)   (type of the constant, value as int)"""
    ty = {"": "int", "u8": "uchar", "u": "ushort", "U": "uint", "L": ABI[target]["wchar"]}[prefix]
    oty = "char" if prefix == "" else ty
    size = CTYPE[oty][1]
    signed = ABI[target]["char_signed"] if oty == "char" else CTYPE[oty][2]
    k, v = it
    if k == "c":
        if prefix in ("", "u8") and v >= 0x80:
            return ("impl", ty) if prefix == "" else ("range", ty)
        if v > (1 << (8 * size)) - 1:
            return ("impl", ty)
        n = v
    elif k == "s":
        n = SIMPLE[v]
    else:
        n = int(v, 8 if k == "o" else 16)
        if n > (1 << (8 * size)) - 1:
            return ("range", ty)
    return ("ok", ty, wrap(n, 8 * size, signed))


def rand_scalar(rng):
    r = rng.random()
    if r < 0.30:
        while True:
            c = rng.choice([rng.randrange(0x20, 0x7f), 0x09, 0x01, 0x7f])
            if c not in (0x22, 0x27, 0x5c, 0x3f):
                return c
    if r < 0.45:
        return rng.randrange(0x80, 0x800)
    if r < 0.62:
        while True:
            c = rng.randrange(0x800, 0x10000)
            if not 0xd800 <= c < 0xe000:
                return c
    if r < 0.82:
        return rng.randrange(0x10000, 0x110000)          # any plane 1..16
    if r < 0.90:
        return (rng.randrange(1, 17) << 16) + rng.choice([0, 1, 0xfffe, 0xffff, rng.randrange(0x10000)])
    return rng.choice([0x7f, 0x80, 0x7ff, 0x800, 0xd7ff, 0xe000, 0xfffd, 0xffff, 0x10000, 0x10ffff, 0x1f600, 0x20ac])


def rand_escape(rng, size):
    """Mostly escapes whose value fits an element of `size` bytes (the out-of-range ones are the known-finding class)."""
    r = rng.random()
    fit = rng.random() < 0.85
    if r < 0.3:
        return ("s", rng.choice(sorted(SIMPLE)))
    if r < 0.6:
        nd = rng.randint(1, 3)
        ds = "".join(rng.choice("01234567") for _ in range(nd))
        if nd == 3 and size == 1 and fit:
            ds = rng.choice("0123") + ds[1:]
        return ("o", ds)
    nd = rng.randint(1, 2 * size) if fit else rng.randint(1, 8)
    ds = "".join(rng.choice("0123456789abcdefABCDEF") for _ in range(nd))
    if fit and rng.random() < 0.3:
        ds = "0" * rng.randint(1, 3) + ds      # leading zeros do not change the value
    return ("x", ds)


def is_oct(c):
    return 0x30 <= c <= 0x37


def is_hex(c):
    return chr(c) in "0123456789abcdefABCDEF" if c < 0x80 else False


def fix_munch(rng, items):
    """Make the item list the maximal-munch reading of its own spelling (6.4.4.4p7): a character that
    would extend the preceding numeric escape is replaced by a digit-like character that does not."""
    out = []
    for it in items:
        if out and it[0] == "c":
            pk, pv = out[-1]
            if pk == "o" and len(pv) < 3 and is_oct(it[1]):
                it = ("c", rng.choice([0x38, 0x39, 0x61, 0x47]))
            elif pk == "x" and is_hex(it[1]):
                it = ("c", rng.choice([0x47, 0x67, 0x78, 0x20ac]))
        out.append(it)
    return out


def gen_strings(ck):
    """-> list of cases {"parts": [(prefix, items)], "tag": str}"""
    rng = ck.rng
    cases = []
    # systematic: every prefix x escape form x digit count x following character
    for p in PREFIXES:
        for nd in (1, 2, 3):
            for follow in ("8", "9", "a", "G", None, "7"):
                if follow == "7" and nd < 3:
                    continue
                ds = "".join(rng.choice("01234567") for _ in range(nd))
                if nd == 3 and rng.random() < 0.7:
                    ds = rng.choice("0123") + ds[1:]
                items = [("c", 0x5a), ("o", ds)] + ([("c", ord(follow))] if follow else [])
                cases.append({"parts": [(p, items)], "tag": "oct%d+%s" % (nd, follow)})
        for nd in (1, 2, 3, 4, 5, 6, 7, 8, 10):
            for follow in ("G", "g", "x", None, "tok"):
                ds = "".join(rng.choice("0123456789abcdefABCDEF") for _ in range(min(nd, 8)))
                if nd == 10:
                    ds = "00" + ds
                if rng.random() < 0.5:      # keep many of them in range of the narrow types
                    ds = "0" * (len(ds) - 2) + ds[-2:] if len(ds) > 2 else ds
                if follow == "tok":
                    parts = [(p, [("x", ds)]), (rng.choice([p, ""]), [("c", rng.choice([0x31, 0x61, 0x46]))])]
                else:
                    parts = [(p, [("x", ds)] + ([("c", ord(follow))] if follow else []))]
                cases.append({"parts": parts, "tag": "hex%d+%s" % (nd, follow)})
        for ch in sorted(SIMPLE):
            cases.append({"parts": [(p, [("s", ch), ("c", 0x31)])], "tag": "simple"})
        cases.append({"parts": [(p, [])], "tag": "empty"})
        for c in (0x7f, 0x80, 0x7ff, 0x800, 0xd7ff, 0xe000, 0xffff, 0x10000, 0x10ffff):
            cases.append({"parts": [(p, [("c", c)])], "tag": "boundary-scalar"})
        for plane in range(17):
            c = (plane << 16) + rng.randrange(0x10000)
            if 0xd800 <= c < 0xe000 or c in (0, 0x22, 0x5c, 0x0a, 0x0d, 0x3f):
                c = (plane << 16) + 0xe123
            cases.append({"parts": [(p, [("c", c), ("c", 0x41)])], "tag": "plane"})
    # boundary values of numeric escapes per width
    for p in PREFIXES:
        for v in (0, 0x7f, 0x80, 0xff, 0x100, 0x7fff, 0xffff, 0x10000, 0x7fffffff, 0x80000000, 0xffffffff):
            cases.append({"parts": [(p, [("x", "%x" % v)])], "tag": "hexval"})
        for v in ("0", "177", "200", "377", "400", "777"):
            cases.append({"parts": [(p, [("o", v)])], "tag": "octval"})
    cases.append({"parts": [("", [("x", "100000041")])], "tag": "hexwrap"})
    cases.append({"parts": [("U", [("x", "100000041")])], "tag": "hexwrap"})
    # random mixtures in concatenations
    nrand = 1500 if ck.quick else 20000
    for _ in range(nrand):
        ntok = rng.choice([1, 1, 2, 2, 3, 4])
        pre = rng.choice(PREFIXES)
        size = {"": 1, "u8": 1, "u": 2, "U": 4, "L": 4}[pre]
        parts = []
        for _ in range(ntok):
            n = rng.choice([0, 1, 2, 3, 5, 8, 20])
            items = []
            for _ in range(n):
                if rng.random() < 0.55:
                    items.append(("c", rand_scalar(rng)))
                else:
                    items.append(rand_escape(rng, size))
            parts.append((rng.choice([pre, pre, ""]), fix_munch(rng, items)))
        cases.append({"parts": parts, "tag": "random"})
    # prefix mixtures without a common prefix
    for a in PREFIXES:
        for b in PREFIXES:
            if a and b and a != b:
                cases.append({"parts": [(a, [("c", 0x61)]), (b, [("c", 0x62)])], "tag": "badmix"})
    cases.append({"parts": [("", [("c", 0x61)]), ("u", [("c", 0x62)]), ("U", [("c", 0x63)])], "tag": "badmix"})
    cases.append({"parts": [("u8", [("c", 0x61)]), ("", []), ("L", [("c", 0x63)])], "tag": "badmix"})
    return cases


def gen_chars(ck):
    rng = ck.rng
    cases = []
    for v in range(256):   # exhaustive single-byte constants, both numeric forms
        cases.append({"prefix": "", "item": ("x", "%x" % v), "tag": "hex-byte"})
        cases.append({"prefix": "", "item": ("o", "%o" % v), "tag": "oct-byte"})
    for v in range(0x20, 0x7f):
        if v not in (0x27, 0x5c):
            cases.append({"prefix": "", "item": ("c", v), "tag": "ascii"})
    for p in PREFIXES:
        for ch in sorted(SIMPLE):
            cases.append({"prefix": p, "item": ("s", ch), "tag": "simple"})
        for v in (0, 0x7f, 0x80, 0xff, 0x100, 0x17f, 0x180, 0x7fff, 0x8000, 0xffff, 0x10000, 0x12345, 0x7fffffff,
                  0x80000000, 0xffffffff, 0x100000080):
            cases.append({"prefix": p, "item": ("x", "%x" % v), "tag": "hexval"})
            cases.append({"prefix": p, "item": ("x", "000%X" % v), "tag": "hexval"})
        for v in ("0", "7", "77", "177", "200", "377", "400", "777", "007"):
            cases.append({"prefix": p, "item": ("o", v), "tag": "octval"})
        for c in (0x41, 0x7f, 0x80, 0xe9, 0x7ff, 0x800, 0x20ac, 0xd7ff, 0xe000, 0xffff, 0x10000, 0x1f600, 0x10ffff):
            cases.append({"prefix": p, "item": ("c", c), "tag": "scalar"})
        for _ in range(20 if ck.quick else 300):
            cases.append({"prefix": p, "item": ("c", rand_scalar(rng)), "tag": "scalar"})
            cases.append({"prefix": p, "item": rand_escape(rng, 4), "tag": "escape"})
    return [c for c in cases if not (c["item"][0] == "c" and c["item"][1] in (0x27, 0x5c, 0x0a, 0))]


BAD_UTF8 = ["80", "bf41", "c080", "c1bf", "c0af", "e08080", "e09fbf", "eda080", "edbfbf", "f0808080", "f08fbfbf",
            "f4908080", "f5808080", "f7bfbfbf", "f888808080", "fc8480808080", "fe", "ff", "c3", "e282", "f09f98",
            "c341", "e28241", "f09f9841", "e2c3a9"]


def gen_malformed(ck):
    """Raw token texts that must be diagnosed.  -> list of {"src": bytes, "tokens": [bytes] | None, "tag"}"""
    rng = ck.rng
    out = []
    for hx in BAD_UTF8:
        bad = bytes.fromhex(hx)
        for p in ("", rng.choice(["u8", "u", "U", "L"])):
            lead = rng.choice([b"", b"a", "€".encode(), b"\\n"])
            out.append({"kind": "str", "tokens": [p.encode() + b'"' + lead + bad + b'"'], "tag": "utf8:" + hx})
        out.append({"kind": "chr", "tokens": [rng.choice(["", "L", "u", "U"]).encode() + b"'" + bad + b"'"],
                    "tag": "utf8:" + hx})
    out.append({"kind": "str", "tokens": [b'"ok"', b'u"' + bytes.fromhex("eda080") + b'"'], "tag": "utf8:second-token"})
    for esc in (b"\\q", b"\\8", b"\\9", b"\\x", b"\\xg", b"\\X41", b"\\u0041", b"\\ ", b"\\\x00", b"\\\xc3\xa9", b"\x00",
                b"a\x00b"):
        for p in ("", "L"):
            out.append({"kind": "str", "tokens": [p.encode() + b'"a' + esc + b'z"'], "tag": "escape:" + esc.hex()})
            out.append({"kind": "chr", "tokens": [p.encode() + b"'" + esc + b"'"], "tag": "escape:" + esc.hex()})
    out.append({"kind": "str", "tokens": [b'"abc\n"'], "tag": "newline"})
    out.append({"kind": "chr", "tokens": [b"'a\n'"], "tag": "newline"})
    out.append({"kind": "str", "tokens": [b'"abc'], "tag": "eof", "eof": True})
    out.append({"kind": "chr", "tokens": [b"'a"], "tag": "eof", "eof": True})
    out.append({"kind": "chr", "tokens": [b"'ab'"], "tag": "multichar"})
    out.append({"kind": "chr", "tokens": [b"''"], "tag": "multichar"})
    out.append({"kind": "chr", "tokens": [b"L'" + "€€".encode() + b"'"], "tag": "multichar"})
    out.append({"kind": "chr", "tokens": [b"'\\x41\\x42'"], "tag": "multichar"})
    return out


# --- parsing cproc-qbe output
DATA_RE = re.compile(r"^(?:export )?data \$(\w+) = align (\d+) \{ (.*)\}$")


def parse_b(s):
    out, i = [], 0
    while i < len(s):
        if s[i] == "\\":
            out.append(int(s[i + 1:i + 4], 8))
            i += 4
        else:
            out.append(ord(s[i]))
            i += 1
    return out


def parse_data(text):
    """name -> (align, list of (class, units))"""
    res = {}
    for ln in text.splitlines():
        m = DATA_RE.match(ln)
        if not m:
            continue
        name, align, body = m.group(1), int(m.group(2)), m.group(3)
        items = []
        pos = 0
        while pos < len(body):
            while pos < len(body) and body[pos] in " ,":
                pos += 1
            if pos >= len(body):
                break
            cls = body[pos]
            pos += 2
            if cls == "b" and body[pos] == '"':
                end = body.index('"', pos + 1)
                items.append(("b", parse_b(body[pos + 1:end])))
                pos = end + 1
            else:
                end = body.find(",", pos)
                if end < 0:
                    end = len(body)
                items.append((cls, [int(x) for x in body[pos:end].split()]))
                pos = end
        res[name] = (align, items)
    return res


def data_units(entry, cls):
    if entry is None:
        return None
    units = []
    for c, us in entry[1]:
        if c == "z":
            units += [0] * (us[0] // {"b": 1, "h": 2, "w": 4, "l": 8}[cls])
        elif c != cls:
            return ("class", c)
        else:
            units += us
    return units


def c_tokens(tokens):
    return b" ".join(tokens)


ERRMAP = {"invalid-utf8": "invalid UTF-8", "prefix-mismatch": "differing prefixes", "bad-escape": "invalid escape sequence",
          "bad-hex": "invalid hexadecimal escape", "newline": "newline in", "nul": "null byte", "eof": "EOF in",
          "multi-char": "more than one character"}


class KB:
    def __init__(self, ck):
        self.ck = ck
        self.cc = ck.build_cproc_qbe()
        self.san = ck.build_cproc_qbe(sanitize=True)
        self.dir = os.path.join(ck.scratch(), "kb")
        os.makedirs(self.dir, exist_ok=True)
        self.stats = {"strings": 0, "chars": 0, "rejected_ok": 0, "range_class": 0, "impl_defined": 0,
                      "malformed": 0, "compilations": 0}
        self.hist = {}

    def h(self, key):
        self.hist[key] = self.hist.get(key, 0) + 1

    def compile(self, target, src, sanitized=False):
        path = os.path.join(self.dir, "p.c")
        with open(path, "wb") as f:
            f.write(src)
        self.stats["compilations"] += 1
        env = dict(os.environ, ASAN_OPTIONS="detect_leaks=0")
        r = subprocess.run([self.san if sanitized else self.cc, "-t", target, path], stdout=subprocess.PIPE,
                           stderr=subprocess.PIPE, env=env)
        return r.returncode, r.stdout.decode("latin-1"), r.stderr.decode("latin-1")

    def model(self, lines):
        if not self.ck.drv_ok:
            return None
        path = os.path.join(self.dir, "ops.txt")
        return self.ck.run_drv("\n".join(lines) + "\n")


def str_decl(i, ty, toks):
    lit = c_tokens(toks)
    cty = CTYPE[ty][0].encode()
    return (cty + b" s%d[] = " % i + lit + b"; unsigned long z%d = sizeof(" % i + lit + b"); int g%d = _Generic(" % i +
            lit + b", " + GENERIC_PTR.encode() + b");\n")


def chr_decl(i, tok):
    return (b"long c%d = " % i + tok + b"; int t%d = _Generic(" % i + tok + b", " + GENERIC_VAL.encode() + b");\n")


def model_str(line):
    f = line.split()
    if f[0] == "ok":
        return ("ok", f[1], [int(x) for x in f[3:]], int(f[2]))
    return ("err", f[1])


def check_string_case(kb, target, case, toks, orc, mod, rc, out, err, idx, data=None):
    """Evaluate one compiled string literal.  Returns a replay dict on a problem, else None; the
    second component says whether the problem is a property failure (True) or model staleness."""
    ck = kb.ck
    src_txt = c_tokens(toks).decode("latin-1")
    base = {"target": target, "literal": src_txt, "literal_hex": [t.hex() for t in toks], "tag": case["tag"]}
    if data is None:
        data = parse_data(out)
    if orc[0] == "reject" or (mod is not None and mod[0] == "err"):
        # must be diagnosed
        if rc == 0:
            return dict(base, kind="accepted-malformed", what="literal that must be diagnosed was accepted",
                        emitted=(out if len(out) < 400 else "")[:300], oracle=orc, model=mod), True
        if mod is not None and mod[0] == "err" and ERRMAP.get(mod[1], "\0") not in err:
            return dict(base, kind="correspondence", what="diagnostic differs from the model's", stderr=err[:300],
                        model=mod, theorem="C14.string_model"), False
        if "error" not in err or rc != 1:
            return dict(base, kind="bad-exit", what="not a regular diagnostic + exit status 1", rc=rc,
                        stderr=err[:300]), True
        return None, None
    # expected to be accepted (ok or range class)
    ty = orc[1]
    cls = {1: "b", 2: "h", 4: "w"}[CTYPE[ty][1]]
    if rc != 0:
        if orc[0] == "range":
            return None, None      # rejecting an out-of-range escape is what the property asks for
        return dict(base, kind="rejected-valid", what="valid literal rejected (or element type differs: the "
                    "declaration uses the type 6.4.5 prescribes)", stderr=err[:300], oracle=orc), True
    units = data_units(data.get("s%d" % idx), cls)
    size = data_units(data.get("z%d" % idx), "l")
    gen = data_units(data.get("g%d" % idx), "w")
    got = {"units": units, "sizeof": size, "generic": gen}
    if orc[0] == "range":
        # known finding class: accepted although 6.4.4.4p9 is violated; still tie the model
        if mod is not None and mod[0] == "ok" and (units != mod[2] or gen != [GENERIC_PTR_ID[mod[1]]] or
                                                   size != [len(mod[2]) * CTYPE[mod[1]][1]]):
            return dict(base, kind="correspondence", what="truncation of an out-of-range escape differs from the model",
                        impl=got, model=mod, theorem="C14.string_model"), False
        return dict(base, kind="escape-out-of-range", what="escape value exceeds the element type but the literal "
                    "was accepted and truncated", impl=got, theorem="C14.string_values_counterexample"), "fid"
    want_units = orc[2]
    okp = (units == want_units and size == [len(want_units) * CTYPE[ty][1]] and gen == [GENERIC_PTR_ID[ty]])
    if not okp:
        return dict(base, kind="wrong-value", what="element type, length or code units differ from C11 6.4.5 / Unicode",
                    impl=got, oracle={"type": ty, "units": want_units, "sizeof": len(want_units) * CTYPE[ty][1]},
                    model=mod, theorem="C14.string_values_partial"), True
    if mod is not None and (mod[0] != "ok" or mod[1] != ty or mod[2] != want_units):
        return dict(base, kind="correspondence", what="model disagrees with cproc (which matches the oracle): model stale",
                    impl=got, model=mod, theorem="C14.string_model"), False
    if mod is not None and len(mod[2]) > mod[3]:
        return dict(base, kind="correspondence", what="model: units exceed allocation", model=mod,
                    theorem="C14.string_buffer_safe"), False
    return None, None


def shrink_string(kb, target, case, still_fails):
    """Greedy: drop tokens, then items, while the failure persists."""
    parts = [(p, list(items)) for p, items in case["parts"]]
    changed = True
    while changed:
        changed = False
        for i in range(len(parts)):
            if len(parts) > 1:
                cand = parts[:i] + parts[i + 1:]
                if still_fails(cand):
                    parts, changed = cand, True
                    break
            for j in range(len(parts[i][1])):
                cand = [(p, list(it)) for p, it in parts]
                del cand[i][1][j]
                if still_fails(cand):
                    parts, changed = cand, True
                    break
            if changed:
                break
    # shorten the digit strings of numeric escapes
    for i in range(len(parts)):
        for j in range(len(parts[i][1])):
            k, v = parts[i][1][j]
            while k in ("o", "x") and len(v) > 1:
                for cand_v in (v[1:], v[:-1]):
                    cand = [(p, list(it)) for p, it in parts]
                    cand[i][1][j] = (k, cand_v)
                    if still_fails(cand):
                        parts, v = cand, cand_v
                        break
                else:
                    break
    return parts


def eval_single_string(kb, target, parts, tag):
    toks = [lit_bytes(p, items) for p, items in parts]
    orc = oracle_string(target, parts)
    ml = kb.model(["str %s %s" % (target, " ".join(t.hex() for t in toks))])
    mod = model_str(ml[0]) if ml else None
    ty = orc[1] if orc[0] != "reject" else (mod[1] if mod and mod[0] == "ok" else "char")
    rc, out, err = kb.compile(target, str_decl(0, ty, toks))
    return check_string_case(kb, target, {"tag": tag}, toks, orc, mod, rc, out, err, 0)


def run_strings(kb, cases):
    ck = kb.ck
    for target in TARGETS:
        toks_all = [[lit_bytes(p, items) for p, items in c["parts"]] for c in cases]
        orcs = [oracle_string(target, c["parts"]) for c in cases]
        mls = kb.model(["str %s %s" % (target, " ".join(t.hex() for t in toks)) for toks in toks_all])
        mods = [model_str(x) for x in mls] if mls else [None] * len(cases)
        # one batch with everything both oracle and model expect to be accepted; the rest one by one
        batch, singles = [], []
        for i, c in enumerate(cases):
            acc = orcs[i][0] in ("ok", "range") and (mods[i] is None or mods[i][0] == "ok")
            (batch if acc else singles).append(i)
        out = ""
        for attempt in range(2):
            src = b"".join(str_decl(i, orcs[i][1], toks_all[i]) for i in batch)
            rc, out, err = kb.compile(target, src)
            if rc == 0:
                break
            # a literal expected to be accepted is rejected: find it from the diagnostic's line number
            m = re.search(r":(\d+):\d+: error", err)
            bad = batch[int(m.group(1)) - 1] if m and 0 < int(m.group(1)) <= len(batch) else None
            if bad is None:
                raise Broken("cannot attribute diagnostic: " + err[:300])
            if orcs[bad][0] == "range" and attempt == 0:
                # out-of-range escapes are (now) rejected: handle that class one by one
                singles = [i for i in batch if orcs[i][0] == "range"] + singles
                batch = [i for i in batch if orcs[i][0] != "range"]
                continue
            singles, batch, out = [bad] + singles, [], ""
            break
        if batch:
            # the same accepted literals through the ASan/UBSan build: no memory error in stringconcat
            rcs, outs, errs = kb.compile(target, src, sanitized=True)
            if rcs != 0 or "Sanitizer" in errs or "runtime error" in errs or outs != out:
                culprit = None
                for i in batch:     # find one literal that triggers it
                    r1, o1, e1 = kb.compile(target, str_decl(i, orcs[i][1], toks_all[i]), sanitized=True)
                    if r1 != 0 or "Sanitizer" in e1 or "runtime error" in e1:
                        culprit = (i, e1)
                        break
                ck.violation({"kind": "memory-error", "target": target,
                              "what": "sanitizer report / abort while compiling accepted string literals",
                              "literal": c_tokens(toks_all[culprit[0]]).decode("latin-1") if culprit else None,
                              "stderr": (culprit[1] if culprit else errs)[-1500:],
                              "theorem": "C14.string_buffer_safe"})
                return False
        bdata = parse_data(out)
        for i in batch:
            c = cases[i]
            rep, sev = check_string_case(kb, target, c, toks_all[i], orcs[i], mods[i], 0, out, "", i, bdata)
            record_string(kb, target, c, orcs[i])
            if rep is not None and not report_string(kb, target, c, rep, sev):
                return False
        for i in singles:
            c = cases[i]
            ty = orcs[i][1] if orcs[i][0] != "reject" else (mods[i][1] if mods[i] and mods[i][0] == "ok" else "char")
            rc1, out1, err1 = kb.compile(target, str_decl(i, ty, toks_all[i]))
            rep, sev = check_string_case(kb, target, c, toks_all[i], orcs[i], mods[i], rc1, out1, err1, i)
            record_string(kb, target, c, orcs[i])
            if rep is None and orcs[i][0] == "reject":
                kb.stats["rejected_ok"] += 1
            if rep is not None and not report_string(kb, target, c, rep, sev):
                return False
    return True


def record_string(kb, target, c, orc):
    ck = kb.ck
    kb.stats["strings"] += 1
    pre = oracle_concat([p for p, _ in c["parts"]])
    nitems = sum(len(it) for _, it in c["parts"])
    ck.count(("str", target, c["tag"], pre, len(c["parts"]), min(nitems, 6), orc[0]))
    kb.h("str:prefix=%s" % (pre if pre is not None else "mixed"))
    kb.h("str:tokens=%d" % len(c["parts"]))
    kb.h("str:outcome=%s" % orc[0])
    for _, items in c["parts"]:
        for k, v in items:
            if k == "c":
                kb.h("item:utf8len=%d" % len(chr(v).encode()))
                if v >= 0x10000:
                    kb.h("item:plane=%d" % (v >> 16))
            elif k == "s":
                kb.h("item:simple")
            else:
                kb.h("item:%s%d" % ("oct" if k == "o" else "hex", len(v)))


def report_string(kb, target, c, rep, sev):
    """Returns False when the run should stop."""
    ck = kb.ck
    if sev == "fid":
        kb.stats["range_class"] += 1
        ck.report(rep, fid=FID_RANGE)
        return True
    if sev:   # property failure: shrink
        def fails(parts):
            r, s = eval_single_string(kb, target, parts, c["tag"])
            return r is not None and s is True
        try:
            small = shrink_string(kb, target, c, fails)
            r2, _ = eval_single_string(kb, target, small, c["tag"])
            if r2 is not None:
                rep = dict(r2, shrunk_from=rep["literal"][:400])
        except Exception:   # noqa: shrinking is best effort
            pass
        ck.violation(rep)
    else:
        ck.violation(rep, nofail=True)
    return False


def run_chars(kb, cases):
    ck = kb.ck
    for target in TARGETS:
        toks = [lit_bytes(c["prefix"], [c["item"]], b"'") for c in cases]
        orcs = [oracle_char(target, c["prefix"], c["item"]) for c in cases]
        mls = kb.model(["chr %s %s" % (target, t.hex()) for t in toks])
        mods = [x.split() for x in mls] if mls else [None] * len(cases)
        src = b"".join(chr_decl(i, t) for i, t in enumerate(toks))
        rc, out, err = kb.compile(target, src)
        if rc != 0:
            m = re.search(r":(\d+):\d+: error", err)
            i = int(m.group(1)) - 1 if m else -1
            if 0 <= i < len(cases) and orcs[i][0] == "range":
                raise Broken("an out-of-range character constant is now rejected: the finding %s is fixed, "
                             "update the model" % FID_RANGE)
            ck.violation({"kind": "rejected-valid", "target": target,
                          "literal": toks[i].decode("latin-1") if i >= 0 else None, "stderr": err[:300],
                          "what": "valid character constant rejected", "theorem": "C14.charconst_type_correct"})
            return False
        data = parse_data(out)
        for i, c in enumerate(cases):
            kb.stats["chars"] += 1
            o = orcs[i]
            ck.count(("chr", target, c["tag"], c["prefix"], c["item"][0], o[0],
                      c["item"][1] if c["tag"].endswith("byte") else 0))
            kb.h("chr:prefix=%s" % (c["prefix"] or "none"))
            kb.h("chr:outcome=%s" % o[0])
            val = data_units(data.get("c%d" % i), "l")
            gen = data_units(data.get("t%d" % i), "w")
            base = {"target": target, "literal": toks[i].decode("latin-1"), "literal_hex": toks[i].hex(),
                    "tag": c["tag"], "impl": {"value_u64": val, "generic": gen}, "oracle": o, "model": mods[i]}
            m = mods[i]
            if m is not None and (m[0] != "ok" or val != [int(m[2])] or gen != [GENERIC_VAL_ID[m[1]]]):
                corr = dict(base, kind="correspondence", what="cproc and the model disagree on a character constant",
                            theorem="C14.charconst_model")
            else:
                corr = None
            if o[0] == "ok":
                want = o[2] & ((1 << 64) - 1)
                if val != [want] or gen != [GENERIC_VAL_ID[o[1]]]:
                    ck.violation(dict(base, kind="wrong-value", what="type or value differs from C11 6.4.4.4p10/p11 "
                                      "(plain constant: value of a char object converted to int)",
                                      expected={"value": o[2], "type": o[1]}, theorem="C14.charconst_type_value_partial"))
                    return False
            else:
                if gen != [GENERIC_VAL_ID[o[1]]]:
                    ck.violation(dict(base, kind="wrong-type", what="type of the constant differs from 6.4.4.4",
                                      theorem="C14.charconst_type_correct"))
                    return False
                if o[0] == "range":
                    kb.stats["range_class"] += 1
                    if corr is None:
                        ck.report(dict(base, kind="escape-out-of-range", what="character constant whose value does not "
                                       "fit its character type was accepted",
                                       theorem="C14.charconst_type_value_counterexample"), fid=FID_RANGE)
                else:
                    kb.stats["impl_defined"] += 1
            if corr is not None:
                ck.violation(corr, nofail=(o[0] != "ok"))
                return False
    return True


def run_malformed(kb, cases):
    ck = kb.ck
    ops = []
    for ci, c in enumerate(cases):
        target = TARGETS[ci % 3]
        if c["kind"] == "str":
            ops.append("str %s %s" % (target, " ".join(t.hex() for t in c["tokens"])))
        else:
            ops.append("chr %s %s" % (target, c["tokens"][0].hex()))
    mls = kb.model(ops)
    for ci, c in enumerate(cases):
        target = TARGETS[ci % 3]
        toks = c["tokens"]
        if c["kind"] == "str":
            src = b"char s0[] = " + c_tokens(toks) + (b"" if c.get("eof") else b";\n")
        else:
            src = b"long c0 = " + toks[0] + (b"" if c.get("eof") else b";\n")
        mod = mls[ci].split() if mls else None
        rc, out, err = kb.compile(target, src)
        kb.stats["malformed"] += 1
        ck.count(("malformed", c["kind"], c["tag"]))
        kb.h("malformed:%s" % c["tag"].split(":")[0])
        base = {"target": target, "kind": "malformed", "tag": c["tag"], "source_hex": src.hex(),
                "source": src.decode("latin-1"), "rc": rc, "stderr": err[:300], "model": mod}
        if rc == 0:
            ck.violation(dict(base, what="malformed literal accepted (exit status 0)", emitted=out[:300],
                              theorem="C14.decodechar_rejects_invalid / utf8dec_rejects_invalid"))
            return False
        if rc != 1 or "error" not in err:
            ck.violation(dict(base, what="malformed literal did not end with a regular diagnostic and status 1"))
            return False
        if mod is not None:
            if mod[0] != "err":
                ck.violation(dict(base, kind="correspondence", what="model accepts what cproc diagnoses",
                                  theorem="C14.string_model / charconst_model"), nofail=True)
                return False
            if ERRMAP.get(mod[1], "\0") not in err:
                ck.violation(dict(base, kind="correspondence", what="diagnostic differs from the model's error kind",
                                  theorem="C14.string_model / charconst_model"), nofail=True)
                return False
    return True


# ----------------------------------------------------------------------------- corpus
def load_corpus():
    d = os.path.join(common.VERIF, "corpus", "C14")
    strs, chars, bad = [], [], []
    if not os.path.isdir(d):
        return strs, chars, bad
    for fn in sorted(os.listdir(d)):
        if not fn.endswith(".json"):
            continue
        for e in json.load(open(os.path.join(d, fn))):
            if e["kind"] == "str":
                strs.append({"parts": [(p, [tuple(i) for i in items]) for p, items in e["parts"]],
                             "tag": "corpus:" + e.get("what", fn)})
            elif e["kind"] == "chr":
                chars.append({"prefix": e["prefix"], "item": tuple(e["item"]), "tag": "corpus:" + e.get("what", fn)})
            else:
                bad.append({"kind": e["as"], "tokens": [bytes.fromhex(t) for t in e["tokens"]],
                            "tag": "corpus:" + e.get("what", fn)})
    return strs, chars, bad


# ----------------------------------------------------------------------------- validation of the oracle
def validate_oracle(ck, kb, str_cases, chr_cases):
    """gcc (native, both char signednesses) and clang (three targets) on the same literals.  A
    disagreement means our reading of the standard (oracle + Spec) is wrong: Broken, never a violation."""
    d = kb.dir
    rng = ck.rng
    strs = [c for c in str_cases if all(oracle_string(t, c["parts"])[0] == "ok" for t in TARGETS)]
    strs = strs[:250] + rng.sample(strs, min(len(strs), 150))
    chrs = [c for c in chr_cases if c["prefix"] != "u8" and
            all(oracle_char(t, c["prefix"], c["item"])[0] == "ok" for t in TARGETS)]
    chrs = chrs[:600] + rng.sample(chrs, min(len(chrs), 100))
    notes = {"gcc_strings": 0, "gcc_chars": 0, "clang_asserts": 0}
    # native runs: -fsigned-char ~ x86_64-sysv, -funsigned-char ~ riscv64 (wchar_t int on both)
    for flag, target in (("-fsigned-char", "x86_64-sysv"), ("-funsigned-char", "riscv64")):
        lines = ["#include <stdio.h>", "int main(void) {"]
        exp = []
        for c in strs:
            o = oracle_string(target, c["parts"])
            toks = [lit_bytes(p, it) for p, it in c["parts"]]
            cty = {"char": "unsigned char", "uchar": "unsigned char", "ushort": "unsigned short", "int": "unsigned",
                   "uint": "unsigned"}[o[1]]
            lit = c_tokens(toks).decode("latin-1")
            lines.append("{ const %s *p = (const void *)(%s); unsigned long n = sizeof(%s) / sizeof(*p); "
                         "printf(\"%%lu\", n); for (unsigned long i = 0; i < n; i++) printf(\" %%lu\", (unsigned long)p[i]); "
                         "puts(\"\"); }" % (cty, lit, lit))
            exp.append(" ".join(str(x) for x in [len(o[2])] + o[2]))
        for c in chrs:
            o = oracle_char(target, c["prefix"], c["item"])
            tok = lit_bytes(c["prefix"], [c["item"]], b"'").decode("latin-1")
            lines.append("printf(\"%%ld\\n\", (long)(%s));" % tok)
            exp.append(str(o[2]))
        lines.append("return 0; }")
        src = os.path.join(d, "val.c")
        with open(src, "wb") as f:
            f.write("\n".join(lines).encode("latin-1"))
        exe = os.path.join(d, "val")
        r = subprocess.run(["gcc", "-std=c11", "-w", flag, "-o", exe, src], stdout=subprocess.PIPE,
                           stderr=subprocess.STDOUT, text=True)
        if r.returncode != 0:
            raise Broken("gcc rejects a literal the oracle calls valid: " + r.stdout[-400:])
        got = subprocess.run([exe], stdout=subprocess.PIPE, text=True).stdout.splitlines()
        if got != exp:
            i = common.diff_lines(got, exp)
            raise Broken("oracle (reading of C11 6.4.4.4/6.4.5) disagrees with gcc %s: %s... vs %s..., source line %s" %
                         (flag, got[i][:80] if i < len(got) else None, exp[i][:80] if i < len(exp) else None,
                          lines[2 + i][:200]))
        notes["gcc_strings"] += len(strs)
        notes["gcc_chars"] += len(chrs)
    # clang: element/constant types and sizes for all three targets (u8: C11 compilers say char)
    for target, triple in (("x86_64-sysv", "x86_64-linux-gnu"), ("aarch64", "aarch64-linux-gnu"),
                           ("riscv64", "riscv64-linux-gnu")):
        lines = []
        for c in strs[:250]:
            o = oracle_string(target, c["parts"])
            p = oracle_concat([pp for pp, _ in c["parts"]])
            lit = c_tokens([lit_bytes(pp, it) for pp, it in c["parts"]]).decode("latin-1")
            lines.append("_Static_assert(sizeof(%s) == %d, \"size\");" % (lit, len(o[2]) * CTYPE[o[1]][1]))
            if p != "u8":
                lines.append("_Static_assert(_Generic(%s, %s) == %d, \"type\");" % (lit, GENERIC_PTR, GENERIC_PTR_ID[o[1]]))
        for c in chrs[:300]:
            o = oracle_char(target, c["prefix"], c["item"])
            tok = lit_bytes(c["prefix"], [c["item"]], b"'").decode("latin-1")
            lines.append("_Static_assert(_Generic(%s, %s) == %d, \"ctype\");" % (tok, GENERIC_VAL, GENERIC_VAL_ID[o[1]]))
            lines.append("_Static_assert((%s) == %d, \"cvalue\");" % (tok, o[2]))
        src = os.path.join(d, "val2.c")
        with open(src, "wb") as f:
            f.write("\n".join(lines).encode("latin-1"))
        r = subprocess.run(["clang-14", "--target=" + triple, "-std=c11", "-w", "-fsyntax-only", src],
                           stdout=subprocess.PIPE, stderr=subprocess.STDOUT, text=True)
        if r.returncode != 0:
            raise Broken("oracle disagrees with clang --target=%s: %s" % (triple, r.stdout[:500]))
        notes["clang_asserts"] += len(lines)
    # out-of-range escapes and bad mixtures are constraint violations for gcc too
    for lit in ('char s[] = "\\x141";', 'char s[] = "\\777";', 'unsigned short s[] = u"\\x10041";', "int c = '\\x100';",
                'unsigned short s[] = u"a" U"b";', 'char s[] = u8"a" L"b";'):
        src = os.path.join(d, "val3.c")
        open(src, "w").write(lit + "\n")
        r = subprocess.run(["gcc", "-std=c11", "-pedantic-errors", "-fsyntax-only", src], stdout=subprocess.PIPE,
                           stderr=subprocess.STDOUT, text=True)
        if r.returncode == 0:
            raise Broken("gcc -pedantic-errors accepts %s, the oracle calls it a constraint violation" % lit)
    return notes


# ----------------------------------------------------------------------------- main
def run(ck):
    ck.cov["rule"] = (
        "K-A (utf.c vs model vs CPython codecs): utf8enc/utf16enc on EVERY value 0..0x11FFFF + blocks up to 2^32; "
        "utf8dec on ALL 1-, 2- and 3-byte sequences, %s, limits 0..5; every harness call runs on exactly sized heap "
        "blocks under ASan.  K-B (cproc-qbe x 3 targets vs model vs Python encoder): every prefix x octal 1..3 / hex "
        "1..8(+10) digits x following character (8,9,a,G,g,x,end,next token), all simple escapes, boundary and "
        "per-plane scalars, boundary escape values per element width, %d random concatenations (1..4 tokens, prefix "
        "mixtures), all 20 differing-prefix pairs; character constants: '\\x0'..'\\xff' and '\\0'..'\\377' "
        "exhaustively, printable ASCII, every prefix x boundary values/scalars; malformed stream: %d invalid UTF-8 "
        "classes in strings/char constants/prefixed literals, bad escapes, NUL bytes, newline/EOF, multi-character "
        "constants.  distinct_nontrivial counts distinct K-A operations and distinct (kind, target, tag, prefix, "
        "shape, outcome) K-B classes."
        % ("a seeded sample of 4-byte blocks with every boundary lead/continuation combination" if ck.quick else
           "all 4-byte sequences F0..F7 80..BF xx xx (every code point up to 0x1FFFFF incl. overlong forms)",
           1500 if ck.quick else 20000, len(BAD_UTF8)))
    import time
    t0 = time.time()
    ck.lean_build()
    t1 = time.time()
    if not ck.proofs_ok:
        ck.notes.append("Props.C14 does not build; searching for a failing input")
    run_ka(ck)
    t2 = time.time()
    ck.cov["phase_seconds"] = {"lean_build_audit": round(t1 - t0, 1), "K-A": round(t2 - t1, 1)}
    if not ck.violations:
        kb = KB(ck)
        cs, cc, cb = load_corpus()
        strs = cs + gen_strings(ck)
        chars = cc + gen_chars(ck)
        bad = cb + gen_malformed(ck)
        ok = run_strings(kb, strs) and run_chars(kb, chars) and run_malformed(kb, bad)
        if ok:
            ck.cov["oracle_validation"] = validate_oracle(ck, kb, strs, chars)
        ck.cov["kb_stats"] = kb.stats
        ck.cov["phase_seconds"]["K-B+validation"] = round(time.time() - t2, 1)
        ck.cov["input_histogram"] = dict(sorted(kb.hist.items()))
        if strs:
            c = strs[min(len(strs) - 1, 700)]
            ck.sample({"K-B string": c_tokens([lit_bytes(p, it) for p, it in c["parts"]]).decode("latin-1")[:300],
                       "tag": c["tag"]})
        if chars:
            c = chars[min(len(chars) - 1, 900)]
            ck.sample({"K-B char constant": lit_bytes(c["prefix"], [c["item"]], b"'").decode("latin-1")})
        if bad:
            ck.sample({"K-B malformed": bad[7 % len(bad)]["tokens"][0].hex(), "tag": bad[7 % len(bad)]["tag"]})
    if not ck.proofs_ok and not ck.violations:
        ck.violation({"kind": "proof-broken", "theorem": "CprocVerif.Props.C14 (lake build failed; a regenerated "
                      "obligation such as C14.targets_match_source may no longer hold)",
                      "log": ck.build_log[-3000:]}, nofail=True)
    ck.assumptions = [
        "CPython's strict utf-8 / utf-16 / utf-32 codecs implement RFC 3629 / RFC 2781 (independent oracle)",
        "psABI facts (char signedness, wchar_t) of the three targets as stated in Spec.abiTargets and ABI in this file, "
        "validated against clang --target on every run",
        "qbe.c:dataitem prints the units of a string object as b \"…\" / h / w items (parsed here)",
        "the parser hands adjacent TSTRINGLIT tokens to stringconcat and TCHARCONST to primaryexpr (exercised by K-B only)",
        "line splices inside literals are outside this property (C11/C13)",
    ]


META = {
    "category": "proof",
    "text": ("Lean 4 theorems over a bit-exact model of utf.c, decodechar/encodechar*/stringconcat/primaryexpr(TCHARCONST) "
             "and the literal scanner, for literals of any length, any number of adjacent tokens and any number of hex "
             "digits: utf8dec accepts exactly the RFC 3629 well-formed sequences (canonical form, no surrogates, "
             "<= U+10FFFF), reads at most 4 bytes and never past a NUL; utf8enc/utf16enc are the Unicode encoding forms "
             "(round trips); escape values per 6.4.4.4; prefix combination per 6.4.5p5; for every target the element "
             "type, code units, terminating zero and length of a string literal and the type and value of a character "
             "constant (plain constants valued as char) are those of C11 (u8 per C23), malformed input is diagnosed.  "
             "One clause is false for the code as it is and stated as _full/_counterexample/_partial: numeric escapes "
             "that do not fit the element type are truncated, not rejected (known finding escape-out-of-range).  Tied "
             "to /repo on every run by running utf.c itself against the model and CPython's codecs on the whole finite "
             "domain (all code points; all 1-3 byte sequences and all 4-byte lead/continuation forms in the thorough "
             "tier) and by compiling generated literals with the fresh cproc-qbe for the three targets."),
    "design_ref": "DESIGN.md section 4, C14",
    "note": ("Trusted: Lean kernel + propext/Classical.choice/Quot.sound; the hand-written model (tied by the "
             "differential runs; K-A is complete on utf.c's finite domain in the thorough tier, K-B is sampling); "
             "CPython codecs, gcc and clang as oracles for the reading of the standards.  Not modelled: line splices, "
             "the expression/initializer parser around the literal, qbe.c's data printer (only parsed)."),
    "technique": "Lean 4 proof + exhaustive differential correspondence with utf.c + compiled-literal differential",
}

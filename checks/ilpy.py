"""A small, independent interpreter for the integer subset of the QBE IL that cproc emits.

It is NOT the formal semantics (that is lean/CprocVerif/Spec/Qbe.lean, run through drv_c03);
it exists so that correspondence checks can observe what emitted code *does* (which case a
switch reaches, which value an expression yields) instead of comparing text, and as a second
opinion on the Lean interpreter.  Unsupported constructs raise Unsupported.
"""
import re

M64 = (1 << 64) - 1
M32 = (1 << 32) - 1


class Unsupported(Exception):
    pass


class Trap(Exception):
    pass


def sx(v, bits):
    v &= (1 << bits) - 1
    return v - (1 << bits) if v >> (bits - 1) else v


FLOAT_OPS = {"dtosi", "dtoui", "stosi", "stoui", "swtof", "uwtof", "sltof", "ultof", "exts", "truncd"}


def _f(bits, k):
    import struct
    return struct.unpack("<f", struct.pack("<I", bits & M32))[0] if k == "s" else \
        struct.unpack("<d", struct.pack("<Q", bits & M64))[0]


def _b(x, k):
    import struct
    if k == "s":
        try:
            return struct.unpack("<I", struct.pack("<f", x))[0]
        except OverflowError:
            return 0x7f800000 if x > 0 else 0xff800000
    return struct.unpack("<Q", struct.pack("<d", x))[0]


def float_op(op, cls, a):
    """the few floating-point instructions cproc emits for conversions in initialisers
    (temporaries of class s/d hold the IEEE bit pattern)."""
    import math
    if op in ("dtosi", "dtoui", "stosi", "stoui"):
        x = _f(a[0], op[0])
        if math.isnan(x) or math.isinf(x):
            raise Trap("float to int of nan/inf")
        return int(x)
    if op in ("swtof", "uwtof", "sltof", "ultof"):
        bits = 32 if op[1] == "w" else 64
        v = sx(a[0], bits) if op[0] == "s" else a[0] & ((1 << bits) - 1)
        return _b(float(v), cls)
    if op == "exts":
        return _b(_f(a[0], "s"), "d")
    if op == "truncd":
        return _b(_f(a[0], "d"), "s")
    if op in ("neg", "add", "sub", "mul", "div"):
        x = _f(a[0], cls)
        if op == "neg":
            return _b(-x, cls)
        y = _f(a[1], cls)
        if op == "div" and y == 0:
            raise Trap("float division by zero")
        return _b({"add": x + y, "sub": x - y, "mul": x * y, "div": x / y if y else 0.0}[op], cls)
    k = op[-1]
    x, y = _f(a[0], k), _f(a[1], k)
    un = math.isnan(x) or math.isnan(y)
    rel = op[1:-1]
    return int({"eq": x == y, "ne": x != y, "lt": x < y, "le": x <= y, "gt": x > y, "ge": x >= y,
                "o": not un, "uo": un}[rel])


class Func:
    def __init__(self, name, ret, params, variadic):
        self.name, self.ret, self.params, self.variadic = name, ret, params, variadic
        self.blocks = []          # list of (label, phis, insts, jump)
        self.index = {}


def parse(text):
    """Returns (funcs: dict name->Func, datas: dict name->list of items)."""
    funcs, datas = {}, {}
    lines = text.split("\n")
    i = 0
    while i < len(lines):
        ln = lines[i].strip()
        i += 1
        if not ln or ln == "export" or ln.startswith("type ") or ln == "thread":
            continue
        m = re.match(r"(?:export\s+)?(?:thread\s+)?data\s+\$(\S+)\s*=\s*(?:align\s+(\d+)\s*)?\{(.*)\}\s*$", ln)
        if m:
            datas[m.group(1)] = (int(m.group(2) or 0), m.group(3).strip())
            continue
        m = re.match(r"(?:export\s+)?function\s+(?:(\S+)\s+)?\$(\S+?)\((.*)\)\s*\{$", ln)
        if m:
            ret, name, ps = m.group(1), m.group(2), m.group(3)
            params, variadic = [], False
            for p in [x.strip() for x in ps.split(",") if x.strip()]:
                if p == "...":
                    variadic = True
                else:
                    c, n = p.split()
                    params.append((c, n))
            f = Func(name, ret, params, variadic)
            cur = None
            while i < len(lines):
                ln = lines[i].strip()
                i += 1
                if ln == "}":
                    break
                if not ln:
                    continue
                if ln.startswith("@"):
                    cur = [ln, [], [], None]
                    f.index[ln] = len(f.blocks)
                    f.blocks.append(cur)
                    continue
                if cur is None:
                    raise Unsupported("instruction before label")
                if cur[3] is not None:
                    raise Unsupported("instruction after terminator: " + ln)
                toks = ln.replace(",", " ").split()
                if toks[0] in ("jmp", "jnz", "ret", "hlt"):
                    cur[3] = toks
                elif len(toks) > 2 and toks[2] == "phi":
                    cur[1].append(toks)
                else:
                    cur[2].append((ln, toks))
            funcs[name] = f
            continue
        raise Unsupported("top-level: " + ln)
    return funcs, datas


class Machine:
    def __init__(self, funcs, externs=None, fuel=2000000):
        self.funcs = funcs
        self.externs = externs or {}
        self.fuel = fuel
        self.mem = {}            # base -> bytearray
        self.next = 0x7f0000000000
        self.trace = []
        self.steps = 0
        self.counts = {}
        self.globals = {}        # optional: name -> address for `$name` operands (else Unsupported)
        self.fill = 0            # optional: byte that freshly allocated stack memory holds

    def alloc(self, size, align):
        self.next -= size + align
        self.next &= ~(align - 1)
        self.mem[self.next] = bytearray([self.fill & 0xff]) * size
        return self.next

    def find(self, addr, n):
        for base, buf in self.mem.items():
            if base <= addr and addr + n <= base + len(buf):
                return buf, addr - base
        raise Trap("oob access at %#x size %d" % (addr, n))

    def load(self, addr, n):
        buf, off = self.find(addr, n)
        return int.from_bytes(buf[off:off + n], "little")

    def store(self, addr, n, v):
        buf, off = self.find(addr, n)
        buf[off:off + n] = (v & ((1 << (8 * n)) - 1)).to_bytes(n, "little")

    def val(self, env, t):
        if t[0] == "%":
            if t not in env:
                raise Trap("undefined temporary " + t)
            return env[t]
        if t[0] == "$":
            if t[1:] in self.globals:
                return self.globals[t[1:]] & M64
            raise Unsupported("global " + t)
        if t.startswith("s_") or t.startswith("d_"):
            import struct
            try:
                x = float(t[2:])
            except ValueError:
                raise Unsupported("operand " + t)
            return struct.unpack("<I", struct.pack("<f", x))[0] if t[0] == "s" else \
                struct.unpack("<Q", struct.pack("<d", x))[0]
        if t[0].isdigit() or t[0] == "-":
            return int(t) & M64
        raise Unsupported("operand " + t)

    def call(self, name, args):
        f = self.funcs[name]
        env = {}
        for (c, n), a in zip(f.params, args):
            env[n] = a & (M32 if c == "w" else M64)
        bi = 0
        prev = None
        while True:
            label, phis, insts, jump = f.blocks[bi]
            newvals = {}
            for p in phis:
                # %x =w phi @a v, @b v
                srcs = p[3:]
                for k in range(0, len(srcs), 2):
                    if srcs[k] == prev:
                        newvals[p[0]] = self.val(env, srcs[k + 1]) & (M32 if p[1] == "=w" else M64)
                        break
                else:
                    raise Trap("phi without source for " + str(prev))
            env.update(newvals)
            for ln, t in insts:
                self.steps += 1
                if self.steps > self.fuel:
                    raise Trap("fuel")
                self.exec(env, ln, t)
            self.steps += 1
            if self.steps > self.fuel:
                raise Trap("fuel")
            prev = label
            if jump is None:
                bi += 1
                if bi >= len(f.blocks):
                    raise Trap("fell off function end")
                continue
            if jump[0] == "jmp":
                bi = f.index[jump[1]]
            elif jump[0] == "jnz":
                v = self.val(env, jump[1]) & M32
                bi = f.index[jump[2] if v else jump[3]]
            elif jump[0] == "ret":
                if len(jump) > 1:
                    v = self.val(env, jump[1])
                    return v & (M32 if f.ret == "w" else M64)
                return None
            else:
                raise Trap("hlt")

    def docall(self, env, ln):
        m = re.match(r".*call \$(\S+?)\((.*)\)", ln)
        name, argstr = m.group(1), m.group(2)
        args = []
        for p in [x.strip() for x in argstr.split(",") if x.strip()]:
            if p == "...":
                continue
            c, v = p.split()
            args.append(self.val(env, v))
        if name in self.funcs:
            r = self.call(name, args)
            return 0 if r is None else r
        if name in self.externs:
            return self.externs[name](self, args) or 0
        raise Unsupported("extern " + name)

    def exec(self, env, ln, t):
        if t[0] in ("storew", "storel", "storeh", "storeb", "stores", "stored"):
            n = {"w": 4, "l": 8, "h": 2, "b": 1, "s": 4, "d": 8}[t[0][5]]
            self.store(self.val(env, t[2]), n, self.val(env, t[1]))
            return
        if t[0] == "call":
            self.docall(env, ln)
            return
        if len(t) < 3 or not t[1].startswith("="):
            raise Unsupported(ln)
        dst, cls, op = t[0], t[1][1:], t[2]
        self.counts[op] = self.counts.get(op, 0) + 1
        a = [self.val(env, x) for x in t[3:]] if op != "call" else None
        W = cls == "w"
        mask = M32 if W else M64
        bits = 32 if W else 64
        if cls in ("s", "d") and op in ("neg", "add", "sub", "mul", "div"):
            r = float_op(op, cls, a)
        elif op in ("alloc4", "alloc8", "alloc16"):
            r = self.alloc(a[0], int(op[5:]))
        elif op == "copy":
            r = a[0]
        elif op == "add":
            r = a[0] + a[1]
        elif op == "sub":
            r = a[0] - a[1]
        elif op == "mul":
            r = a[0] * a[1]
        elif op == "neg":
            r = -a[0]
        elif op in ("div", "rem"):
            x, y = sx(a[0], bits), sx(a[1], bits)
            if y == 0:
                raise Trap("division by zero")
            q = abs(x) // abs(y)
            if (x < 0) != (y < 0):
                q = -q
            r = q if op == "div" else x - q * y
        elif op in ("udiv", "urem"):
            x, y = a[0] & mask, a[1] & mask
            if y == 0:
                raise Trap("division by zero")
            r = x // y if op == "udiv" else x % y
        elif op == "and":
            r = a[0] & a[1]
        elif op == "or":
            r = a[0] | a[1]
        elif op == "xor":
            r = a[0] ^ a[1]
        elif op == "shl":
            r = (a[0] & mask) << (a[1] % bits)
        elif op == "shr":
            r = (a[0] & mask) >> (a[1] % bits)
        elif op == "sar":
            r = sx(a[0], bits) >> (a[1] % bits)
        elif op in ("extsw", "extuw", "extsh", "extuh", "extsb", "extub"):
            n = {"w": 32, "h": 16, "b": 8}[op[4]]
            r = sx(a[0], n) if op[3] == "s" else a[0] & ((1 << n) - 1)
        elif op in ("loadw", "loadsw", "loaduw", "loadl", "loadsh", "loaduh", "loadsb", "loadub"):
            n = {"w": 4, "l": 8, "h": 2, "b": 1}[op[-1]]
            r = self.load(a[0], n)
            if op in ("loadsh", "loadsb", "loadsw") or (op == "loadw" and not W):
                r = sx(r, 8 * n)
        elif re.match(r"c(eq|ne|sle|slt|sge|sgt|ule|ult|uge|ugt)[wl]$", op):
            ob = 32 if op[-1] == "w" else 64
            om = (1 << ob) - 1
            k = op[1:-1]
            if k[0] == "s" and k not in ("eq", "ne"):
                x, y = sx(a[0], ob), sx(a[1], ob)
                k = k[1:]
            else:
                x, y = a[0] & om, a[1] & om
                if k[0] == "u":
                    k = k[1:]
            r = int({"eq": x == y, "ne": x != y, "le": x <= y, "lt": x < y, "ge": x >= y, "gt": x > y}[k])
        elif op == "call":
            r = self.docall(env, ln)
        elif op in FLOAT_OPS or (cls in "sd" and op in ("neg", "add", "sub", "mul", "div")) or \
                re.match(r"c(eq|ne|lt|le|gt|ge|o|uo)[sd]$", op):
            r = float_op(op, cls, a)
        else:
            raise Unsupported("op " + op)
        if cls == "s":
            mask = M32
        env[dst] = r & mask

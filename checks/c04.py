"""C04 - constant expressions fold to the value run-time evaluation would give.

Proof:   lean/CprocVerif/Props/C04.lean over Model/Eval.lean (eval.c, intconstexpr, condexpr's
         shortcut, integer literals) and Spec/CInt.lean (C11 integer semantics):
         binary_correct / fold_correct (16 operators x 8 integer types, all operands),
         unary_correct, cast_correct_{full,counterexample,partial}, lor_land_*, shift_count_guard,
         eval_canon, eval_correct (induction over expressions), intconstexpr_sign_rule,
         undefined_left_unfolded, addr_fold_*, fold_float_*, literal_*.
Tie:     K-B  generated translation units through the freshly built cproc-qbe on all three
              targets; the folded constants are parsed out of `data` lines (and out of sizeof,
              case keys, alignments, bit-field images, `$a + N` relocations) and compared THREE
              ways: compiler vs Lean model (drv_c04 bin/un/cast/expr/lit) vs C semantics (Python
              reference below, itself cross-checked against drv_c04 spec = Spec/CInt.lean and
              against gcc).
         K-D  the same operations compiled into functions on volatile operands; the emitted IL
              is executed by checks/ilpy.py and must give the folded value.
"""
import math
import os
import re
import struct
import subprocess

from . import common, ilpy

M64 = (1 << 64) - 1
TARGETS = ["x86_64-sysv", "aarch64", "riscv64"]
CHAR_SIGNED = {"x86_64-sysv": True, "aarch64": False, "riscv64": False}

# defects found by this property and repaired in /repo (known_findings.json, status "fixed"):
# fold-bool-cast 7c8b86a, fold-addr-swap-segv 536afbc, fold-int-float-double-rounding 0457315,
# fold-cond-float-unfolded b66d549, literal-overflow-saturates 23c06f0, float-literal-not-rounded 1047c9e,
# fold-float-neg-fraction-to-unsigned 3037a19.
# Their witnesses are part
# of the probe sets below; a regression is an ordinary VIOLATION.


class UB(Exception):
    """the C expression has undefined behaviour (or is not covered by the reference)."""


# ============================================================================ Python reference of
# Spec/CInt.lean (validated against `drv_c04 spec ...` and gcc on every run)
ITYPES = {  # name: (bits, signed or None = target's plain char, rank)
    "_Bool": (1, False, 1),
    "char": (8, None, 2), "signed char": (8, True, 2), "unsigned char": (8, False, 2),
    "short": (16, True, 3), "unsigned short": (16, False, 3),
    "int": (32, True, 4), "unsigned": (32, False, 4),
    "long": (64, True, 5), "unsigned long": (64, False, 5),
    "long long": (64, True, 6), "unsigned long long": (64, False, 6),
    "enum E": (32, False, 4),     # enum E { E0, E1 }: underlying type unsigned int on gcc, clang and cproc
}
INT_NAMES = list(ITYPES)
FTYPES = {"float": 4, "double": 8}
BINOPS = {"*": "mul", "/": "div", "%": "mod", "+": "add", "-": "sub", "<<": "shl", ">>": "shr",
          "&": "band", "|": "bor", "^": "bxor", "<": "lt", ">": "gt", "<=": "le", ">=": "ge",
          "==": "eq", "!=": "ne", "||": "lor", "&&": "land"}
CMP = {"<", ">", "<=", ">=", "==", "!=", "||", "&&"}
UNOPS = {"-": "neg", "~": "bnot", "!": "lnot", "+": "plus"}


def is_int(t):
    return t in ITYPES


def is_flt(t):
    return t in FTYPES


def bits_of(t):
    return ITYPES[t][0]


def signed_of(t, targ):
    s = ITYPES[t][1]
    return CHAR_SIGNED[targ] if s is None else s


def size_of(t):
    if t in FTYPES:
        return FTYPES[t]
    b = ITYPES[t][0]
    return 1 if b == 1 else b // 8


def trange(t, targ):
    b, s = bits_of(t), signed_of(t, targ)
    return (-(1 << (b - 1)), (1 << (b - 1)) - 1) if s else (0, (1 << b) - 1)


def in_range(t, targ, v):
    lo, hi = trange(t, targ)
    return lo <= v <= hi


def wrap(t, targ, v):
    b, s = bits_of(t), signed_of(t, targ)
    if b == 1:
        return int(v != 0)
    v &= (1 << b) - 1
    if s and v >> (b - 1):
        v -= 1 << b
    return v


def promote(t, targ):
    b, s, rank = bits_of(t), signed_of(t, targ), ITYPES[t][2]
    if rank > 4:
        return t
    if rank == 4 and t != "enum E":
        return t
    lo, hi = trange(t, targ)
    return "int" if -2**31 <= lo and hi <= 2**31 - 1 else "unsigned"


def common_type(t1, t2, targ):
    """usual arithmetic conversions (6.3.1.8) for real types."""
    for f in ("double", "float"):
        if t1 == f or t2 == f:
            return f
    t1, t2 = promote(t1, targ), promote(t2, targ)
    if t1 == t2:
        return t1
    s1, s2 = signed_of(t1, targ), signed_of(t2, targ)
    r1, r2 = ITYPES[t1][2], ITYPES[t2][2]
    if s1 == s2:
        return t1 if r1 > r2 else t2
    if s1:
        t1, t2, r1, r2 = t2, t1, r2, r1     # t1 unsigned, t2 signed
    if r1 >= r2:
        return t1
    if bits_of(t1) < bits_of(t2):
        return t2
    return {"long": "unsigned long", "long long": "unsigned long long"}[t2]


def tdiv(a, b):
    q = abs(a) // abs(b)
    return -q if (a < 0) != (b < 0) else q


def bin_spec(op, t, targ, a, b):
    """C11 value of `a op b` at (promoted / common) integer type t; raises UB."""
    lo, hi = trange(t, targ)
    s = signed_of(t, targ)

    def arith(r):
        if s:
            if not lo <= r <= hi:
                raise UB("signed overflow")
            return r
        return wrap(t, targ, r)
    if op == "+":
        return arith(a + b)
    if op == "-":
        return arith(a - b)
    if op == "*":
        return arith(a * b)
    if op == "/":
        if b == 0:
            raise UB("division by zero")
        return arith(tdiv(a, b))
    if op == "%":
        if b == 0:
            raise UB("division by zero")
        q = tdiv(a, b)
        if s and not lo <= q <= hi:
            raise UB("a/b not representable")
        return a - q * b
    if op in ("<<", ">>"):
        if b < 0 or b >= bits_of(t):
            raise UB("shift count")
        if op == ">>":
            return a >> b            # arithmetic for negative a (implementation-defined)
        if s:
            if a < 0:
                raise UB("shift of negative value")
            if not lo <= a << b <= hi:
                raise UB("shift overflow")
            return a << b
        return wrap(t, targ, a << b)
    m = (1 << bits_of(t)) - 1
    if op == "&":
        return wrap(t, targ, (a & m) & (b & m))
    if op == "|":
        return wrap(t, targ, (a & m) | (b & m))
    if op == "^":
        return wrap(t, targ, (a & m) ^ (b & m))
    return int({"<": a < b, ">": a > b, "<=": a <= b, ">=": a >= b, "==": a == b, "!=": a != b,
                "||": a != 0 or b != 0, "&&": a != 0 and b != 0}[op])


def un_spec(op, t, targ, a):
    if op == "-":
        return bin_spec("-", t, targ, 0, a) if signed_of(t, targ) else wrap(t, targ, -a)
    if op == "~":
        return wrap(t, targ, ~a)
    if op == "!":
        return int(a == 0)
    return a


def f32(x):
    """round a double to float (IEEE, ties to even) and widen back."""
    if math.isnan(x) or math.isinf(x):
        return x
    try:
        return struct.unpack("<f", struct.pack("<f", x))[0]
    except OverflowError:
        return math.copysign(math.inf, x)


def int_to_f32(v):
    """correctly rounded (single rounding) conversion of an integer to float."""
    if v == 0:
        return 0.0
    a = abs(v)
    n = a.bit_length()
    if n > 24:
        sh = n - 24
        q, rem, half = a >> sh, a & ((1 << sh) - 1), 1 << (sh - 1)
        if rem > half or (rem == half and q & 1):
            q += 1
        a = q << sh
    return math.copysign(float(a), v)


def dbits(x):
    return struct.unpack("<Q", struct.pack("<d", x))[0]


def fbits(x):
    try:
        return struct.unpack("<I", struct.pack("<f", x))[0]
    except OverflowError:
        return 1 << 40        # a finite value outside the range of float: never a valid observation


def lit_type(value, decimal, suffix):
    """6.4.4.1p5; suffix lower-case.  None = no type."""
    u = "u" in suffix
    rank = suffix.count("l")
    cands = [("int", False, 0), ("unsigned", True, 0), ("long", False, 1), ("unsigned long", True, 1),
             ("long long", False, 2), ("unsigned long long", True, 2)]
    for name, uns, rk in cands:
        if rk < rank:
            continue
        if u and not uns:
            continue
        if not u and decimal and uns:
            continue
        lo, hi = trange(name, "x86_64-sysv")
        if value <= hi:
            return name
    return None


# ============================================================================ expression trees
MTY = {"_Bool": "b1", "signed char": "i8", "unsigned char": "u8", "short": "i16", "unsigned short": "u16",
       "int": "i32", "unsigned": "u32", "long": "i64", "unsigned long": "u64", "long long": "i64",
       "unsigned long long": "u64", "enum E": "u32", "float": "f32", "double": "f64"}


def mty(t, targ):
    if t == "char":
        return "i8" if CHAR_SIGNED[targ] else "u8"
    return MTY[t]


def clit(v):
    """C text of an integer constant expression of value v (type long long / unsigned long long)."""
    if v < 0:
        if v == -2**63:
            return "(-9223372036854775807LL-1)"
        return "(-%dLL)" % -v
    if v >= 2**63:
        return "%dULL" % v
    return "%dLL" % v


def conv_value(v, tfrom, tto, targ):
    """value conversion (6.3.1.x) between arithmetic types; raises UB."""
    if tfrom == tto and is_flt(tto):
        return v
    if is_int(tto):
        if is_flt(tfrom):
            if math.isnan(v) or math.isinf(v):
                raise UB("nan/inf to int")
            if tto == "_Bool":
                return int(v != 0)
            i = int(v)          # truncation toward zero
            if not in_range(tto, targ, i):
                raise UB("float out of range of integer type")
            return i
        return wrap(tto, targ, v)
    if is_int(tfrom):
        return int_to_f32(v) if tto == "float" else float(v)
    return f32(v) if tto == "float" else v


class Node:
    pass


class Lit(Node):
    def __init__(self, text, value, tname, raw=None):
        self.text, self.value, self.tname = text, value, tname
        self.raw = value if raw is None else raw     # what strtod() returned (float literals)

    def c(self):
        return self.text

    def ev(self, targ):
        return self.tname, self.value

    def sx(self, targ):
        t = self.tname
        if is_flt(t):
            # what primaryexpr stores: strtod()'s double, strtof()'s float for an `f` suffix (1047c9e)
            return t, "(c %s %d)" % (mty(t, targ), dbits(self.value))
        return t, "(c %s %d)" % (mty(t, targ), self.value & M64)


def ilit(v):
    """decimal literal of a non-negative value, typed like C types it."""
    t = lit_type(v, True, "")
    if t is None:
        return Lit("%du" % v, v, lit_type(v, True, "u"))
    return Lit("%d" % v, v, t)


class Const(Node):
    """sizeof / _Alignof / offsetof / enum constant: C text, type, value known from the ABI."""
    def __init__(self, text, tname, value, enum=False):
        self.text, self.tname, self.value, self.enum = text, tname, value, enum

    def c(self):
        return self.text

    def ev(self, targ):
        return self.tname, self.value

    def sx(self, targ):
        return self.tname, "(%s %s %d)" % ("e" if self.enum else "c", mty(self.tname, targ), self.value & M64)


def sxconv(sx, tfrom, tto, targ):
    return sx if tfrom == tto else "(cast %s %s)" % (mty(tto, targ), sx)


class Cast(Node):
    def __init__(self, tname, e):
        self.tname, self.e = tname, e

    def c(self):
        return "(%s)%s" % (self.tname, self.e.c())

    def ev(self, targ):
        t, v = self.e.ev(targ)
        return self.tname, conv_value(v, t, self.tname, targ)

    def sx(self, targ):
        t, s = self.e.sx(targ)
        return self.tname, "(cast %s %s)" % (mty(self.tname, targ), s)


class Un(Node):
    def __init__(self, op, e):
        self.op, self.e = op, e

    def c(self):
        return "(%s%s)" % (self.op, self.e.c())

    def ev(self, targ):
        t, v = self.e.ev(targ)
        if self.op == "!":
            return "int", int(v == 0)
        if is_flt(t):
            if self.op == "~":
                raise UB("~ on float")
            return t, (-v if self.op == "-" else v)
        p = promote(t, targ)
        v = conv_value(v, t, p, targ)
        return p, un_spec(self.op, p, targ, v)

    def sx(self, targ):
        t, s = self.e.sx(targ)
        if self.op == "!":
            ct = common_type(t, "int", targ)
            return "int", "(eq i32 %s %s)" % (sxconv(s, t, ct, targ), sxconv("(c i32 0)", "int", ct, targ))
        p = t if is_flt(t) else promote(t, targ)
        s = sxconv(s, t, p, targ)
        if self.op == "+":
            return p, s
        if self.op == "-":
            return p, "(neg %s %s)" % (mty(p, targ), s)
        return p, "(bxor %s %s (c %s %d))" % (mty(p, targ), s, mty(p, targ), M64)


class Bin(Node):
    def __init__(self, op, l, r):
        self.op, self.l, self.r = op, l, r

    def c(self):
        return "(%s %s %s)" % (self.l.c(), self.op, self.r.c())

    def types(self, tl, tr, targ):
        """(type of converted left, of converted right, of result)"""
        op = self.op
        if op in ("||", "&&"):
            return tl, tr, "int"
        if op in ("<<", ">>"):
            if is_flt(tl) or is_flt(tr):
                raise UB("shift of float")
            pl = promote(tl, targ)
            return pl, promote(tr, targ), pl
        if op in ("%", "&", "|", "^") and (is_flt(tl) or is_flt(tr)):
            raise UB("integer operator on float")
        ct = common_type(tl, tr, targ)
        return ct, ct, ("int" if op in CMP else ct)

    def ev(self, targ):
        tl, a = self.l.ev(targ)
        op = self.op
        if op in ("||", "&&"):
            if (a != 0) == (op == "||"):
                return "int", int(op == "||")
            tr, b = self.r.ev(targ)
            return "int", int(b != 0)
        tr, b = self.r.ev(targ)
        cl, cr, rt = self.types(tl, tr, targ)
        a = conv_value(a, tl, cl, targ)
        b = conv_value(b, tr, cr, targ)
        if is_flt(cl):
            if op in ("+", "-", "*", "/"):
                if op == "/" and b == 0:
                    if a == 0 or math.isnan(a):
                        r = math.nan
                    else:
                        r = math.copysign(math.inf, a) * math.copysign(1.0, b)
                else:
                    try:
                        r = {"+": a + b, "-": a - b, "*": a * b, "/": a / b if b else 0.0}[op]
                    except OverflowError:
                        raise UB("python float overflow")
                return rt, (f32(r) if rt == "float" else r)
            return "int", int({"<": a < b, ">": a > b, "<=": a <= b, ">=": a >= b, "==": a == b, "!=": a != b}[op])
        return rt, bin_spec(op, cl, targ, a, b)

    def sx(self, targ):
        tl, sl = self.l.sx(targ)
        tr, sr = self.r.sx(targ)
        cl, cr, rt = self.types(tl, tr, targ)
        return rt, "(%s %s %s %s)" % (BINOPS[self.op], mty(rt, targ), sxconv(sl, tl, cl, targ), sxconv(sr, tr, cr, targ))


class Cond(Node):
    def __init__(self, cnd, l, r):
        self.cnd, self.l, self.r = cnd, l, r

    def c(self):
        return "(%s ? %s : %s)" % (self.cnd.c(), self.l.c(), self.r.c())

    def ev(self, targ):
        tc, c = self.cnd.ev(targ)
        tl, tr = self.tys(targ)
        ct = common_type(tl, tr, targ)
        if c != 0:
            t, v = self.l.ev(targ)
        else:
            t, v = self.r.ev(targ)
        return ct, conv_value(v, t, ct, targ)

    def tys(self, targ):
        return self.l.sx(targ)[0], self.r.sx(targ)[0]

    def sx(self, targ):
        tc, sc = self.cnd.sx(targ)
        tl, sl = self.l.sx(targ)
        tr, sr = self.r.sx(targ)
        ct = common_type(tl, tr, targ)
        return ct, "(cond %s %s %s %s)" % (mty(ct, targ), sc, sxconv(sl, tl, ct, targ), sxconv(sr, tr, ct, targ))


def boundary(t, targ):
    lo, hi = trange(t, targ)
    vs = {0, 1, lo, hi, lo + 1, hi - 1}
    if lo < 0:
        vs.add(-1)
        vs.add(-2)
    for k in (1, 3, 7, 8, 15, 16, 31, 32, 33, 62, 63):
        for d in (-1, 0, 1):
            for sgn in (1, -1):
                v = sgn * ((1 << k) + d)
                if lo <= v <= hi:
                    vs.add(v)
    return sorted(vs)


PRELUDE = "enum E { E0, E1 };\nenum { EA = 5, EB = -3, EC = 2147483647 };\n" \
          "struct S { char c; long l; short s; int a[3]; };\nint arr[10];\n"
CONST_LEAVES = [
    Const("sizeof(int)", "unsigned long", 4), Const("sizeof(long)", "unsigned long", 8),
    Const("sizeof(struct S)", "unsigned long", 32), Const("_Alignof(struct S)", "unsigned long", 8),
    Const("_Alignof(short)", "unsigned long", 2), Const("sizeof(char[7])", "unsigned long", 7),
    Const("__builtin_offsetof(struct S, l)", "unsigned long", 8),
    Const("__builtin_offsetof(struct S, s)", "unsigned long", 16),
    Const("__builtin_offsetof(struct S, a[2])", "unsigned long", 28),
    Const("sizeof arr", "unsigned long", 40),
    Const("EA", "int", 5, True), Const("EB", "int", -3, True), Const("EC", "int", 2147483647, True),
    Const("E1", "int", 1, True),
]


# ============================================================================ compiler front end
class Compiler:
    def __init__(self, ck):
        self.ck = ck
        self.cc = ck.build_cproc_qbe()
        self.dir = os.path.join(ck.scratch(), "kb")
        os.makedirs(self.dir, exist_ok=True)
        self.n = 0

    def run(self, src, targ):
        self.n += 1
        path = os.path.join(self.dir, "p%d.c" % (self.n % 8))
        with open(path, "w") as f:
            f.write(src)
        r = subprocess.run([self.cc, "-t", targ, path], stdout=subprocess.PIPE, stderr=subprocess.PIPE, text=True)
        return r.returncode, r.stdout, r.stderr

    def probes(self, lines, targ, prelude=PRELUDE):
        """Compile one probe per line (all together; a diagnosed line is recorded and removed).
        Returns (stdout of the surviving unit, {index: diagnostic or 'signal N'})."""
        bad = {}
        live = list(range(len(lines)))
        npre = prelude.count("\n")
        for _ in range(60):
            src = prelude + "".join(lines[i] + "\n" for i in live)
            rc, out, err = self.run(src, targ)
            if rc == 0:
                return out, bad
            m = re.search(r":(\d+):\d+: error: (.*)", err)
            if rc < 0 or not m:
                # a crash: bisect for the first line that reproduces it alone
                for i in live:
                    rc1, _, err1 = self.run(prelude + lines[i] + "\n", targ)
                    if rc1 < 0 or (rc1 != 0 and not re.search(r": error: ", err1)):
                        bad[i] = "signal %d" % -rc1 if rc1 < 0 else "rc=%d %s" % (rc1, err1[-200:])
                        live.remove(i)
                        break
                else:
                    raise common.Broken("cproc-qbe fails on a unit but on none of its lines: %s" % err[-300:])
                continue
            ln = int(m.group(1)) - npre - 1
            if not 0 <= ln < len(live):
                raise common.Broken("diagnostic outside the probes: %s" % err[-300:])
            bad[live[ln]] = m.group(2)
            del live[ln]
        # the compiler rejects / dies on more than 60 valid probes: report them (the caller counts every
        # line that never compiled as rejected) instead of giving up
        for i in live:
            bad.setdefault(i, "not compiled: more than 60 other probes of this unit were diagnosed")
        return "", bad


DATA_RE = re.compile(r"^(?:(thread) )?(?:(export) )?data \$(\S+) = align (\d+) \{ (.*)\}\s*$")


def parse_data(out):
    """name -> dict(align, thread, export, items=[(letter, text)])"""
    res = {}
    for ln in out.splitlines():
        m = DATA_RE.match(ln)
        if not m:
            continue
        items = []
        for it in m.group(5).split(","):
            it = it.strip()
            if it:
                letter, _, rest = it.partition(" ")
                items.append((letter, rest.strip()))
        res[m.group(3)] = {"align": int(m.group(4)), "thread": bool(m.group(1)), "export": bool(m.group(2)),
                           "items": items}
    return res


def item_value(d, tname):
    """observed value of a scalar object: ('int', value mod 2^width) or ('flt', bits)."""
    items = d["items"]
    if len(items) != 1:
        return ("shape", items)
    letter, txt = items[0]
    want = {1: "b", 2: "h", 4: "w", 8: "l"}[size_of(tname)] if is_int(tname) else {"float": "s", "double": "d"}[tname]
    if letter == "z" and is_int(tname):
        return ("int", 0) if int(txt) == size_of(tname) else ("shape", items)
    if letter != want:
        return ("shape", items)
    if is_flt(tname):
        if not txt.startswith(letter + "_"):
            return ("shape", items)
        x = float(txt[2:])
        return ("flt", fbits(x) if tname == "float" else dbits(x))
    if not re.fullmatch(r"\d+", txt):
        return ("shape", items)
    return ("int", int(txt) & ((1 << (8 * size_of(tname))) - 1))


def expect_obs(tname, v, targ):
    if is_flt(tname):
        return ("flt", fbits(v) if tname == "float" else dbits(v))
    return ("int", wrap(tname, targ, v) & ((1 << (8 * size_of(tname))) - 1))


def model_obs(tname, line):
    """observation from the driver's `expr` answer `(c <ty> <u>)`."""
    m = re.fullmatch(r"\(c (\S+) (\d+)\)", line)
    if not m:
        return ("model", line)
    u = int(m.group(2))
    if is_flt(tname):
        x = struct.unpack("<d", struct.pack("<Q", u))[0]
        return ("flt", fbits(x) if tname == "float" else u)
    return ("int", u & ((1 << (8 * size_of(tname))) - 1))


def nan_equal(a, b, tname):
    """two float observations are both NaN (sign/payload of a NaN is not prescribed)."""
    if a[0] != "flt" or b[0] != "flt":
        return False
    if tname == "float":
        isn = lambda u: (u & 0x7f800000) == 0x7f800000 and u & 0x7fffff
    else:
        isn = lambda u: (u & 0x7ff0000000000000) == 0x7ff0000000000000 and u & 0xfffffffffffff
    return bool(isn(a[1]) and isn(b[1]))


# ============================================================================ the generic 3-way probe run
class Probe:
    __slots__ = ("e", "dest", "kind", "storage", "tag")

    def __init__(self, e, dest, kind="data", storage="", tag=None):
        self.e, self.dest, self.kind, self.storage, self.tag = e, dest, kind, storage, tag


def run_value_probes(ck, cp, probes, targ, what, stats):
    """`T v_i = E;` for every probe: compiler vs model (`expr`) vs reference.  Undefined
    expressions are compared model-vs-compiler only."""
    lines, exp, drv = [], [], []
    for i, p in enumerate(probes):
        lines.append("%s%s v_%d = %s;" % (p.storage + " " if p.storage else "", p.dest, i, p.e.c()))
        try:
            t, v = p.e.ev(targ)
            exp.append(expect_obs(p.dest, conv_value(v, t, p.dest, targ), targ))
        except UB:
            exp.append(None)
        t, s = p.e.sx(targ)
        drv.append("expr " + sxconv(s, t, p.dest, targ))
    mod = ck.run_drv("\n".join(drv) + "\n") if ck.drv_ok else [None] * len(probes)
    # probes the model predicts to stay unfolded (or to be diagnosed) cannot share a unit with the others
    solo = [i for i in range(len(probes))
            if (mod[i] is not None and not mod[i].startswith("(c ")) or (mod[i] is None and exp[i] is None)]
    solo_set = set(solo)
    batch = [i for i in range(len(probes)) if i not in solo_set]
    out, bad0 = cp.probes([lines[i] for i in batch], targ)
    bad = {batch[k]: v for k, v in bad0.items()}
    data = parse_data(out)
    if len(solo) > 25:
        stats["unfolded_not_compiled"] = stats.get("unfolded_not_compiled", 0) + len(solo) - 25
        solo = ck.rng.sample(solo, 25)
    for i in solo:
        rc, o1, e1 = cp.run(PRELUDE + lines[i] + "\n", targ)
        m1 = re.search(r": error: (.*)", e1)
        if rc == 1 and m1:
            bad[i] = m1.group(1)
        elif rc == 0:
            data.update(parse_data(o1))
        else:
            bad[i] = "signal %d" % -rc if rc < 0 else "rc=%d" % rc
    for i in sorted(batch + solo):
        p = probes[i]
        ck.count((what, p.tag or type(p.e).__name__, p.dest))
        prog = PRELUDE + lines[i]
        if exp[i] is None:
            stats["undefined_dropped"] += 1
        if i in bad:
            got = ("crash", bad[i]) if bad[i].startswith(("signal", "rc=")) else ("rejected", bad[i])
        else:
            d = data.get("v_%d" % i)
            if d is None:
                got = ("missing", None)
            else:
                got = item_value(d, p.dest)
                if p.storage == "_Thread_local" and not d["thread"]:
                    got = ("not-thread", d)
                if p.storage == "static" and d["export"]:
                    got = ("exported-static", d)
        m = None
        if mod[i] is not None:
            m = model_obs(p.dest, mod[i])
            if m[0] == "model":
                if mod[i] == "bad-op":
                    raise common.Broken("drv_c04 cannot parse: %s" % drv[i])
                if mod[i] == "bad":
                    m = ("crash", "host UB")
                else:
                    m = ("rejected", "model: " + ("error()" if mod[i] == "error" else "stays unfolded"))
        same_mc = m is None or m == got or (m[0] == got[0] and m[0] in ("rejected", "crash")) or nan_equal(m, got, p.dest)
        if got[0] == "crash":
            ck.violation({"kind": "compiler-crash", "target": targ, "program": prog, "compiler": got, "model": m,
                          "what": "cproc-qbe ends by a signal / unexpected status while folding"})
            stats["violations"] += 1
            continue
        if exp[i] is None:
            if not same_mc:
                # kept back: reported at the end only if the search finds no real failing input
                ck.c04_nofail.append({"kind": "model-vs-compiler", "target": targ, "program": prog, "compiler": got,
                                      "model": m, "what": "cproc-qbe and Model/Eval.lean disagree on an expression "
                                      "C leaves undefined (no failing input exists for the property itself)",
                                      "theorem": "correspondence Model/Eval.lean ~ eval.c (C04.shift_count_guard / "
                                      "undefined_left_unfolded)"})
                stats["undefined_mismatch"] = stats.get("undefined_mismatch", 0) + 1
            continue
        ok = got == exp[i] or nan_equal(got, exp[i], p.dest)
        stats["checked"] += 1
        if ok and same_mc:
            continue
        replay = {"kind": "wrong-fold", "target": targ, "program": prog, "expected": exp[i], "compiler": got,
                  "model": m, "context": what}
        if not ok:
            ck.violation(dict(replay, what="constant folded to a value C does not give"))
            stats["violations"] += 1
        else:
            ck.violation(dict(replay, what="compiler output satisfies C semantics but Model/Eval.lean does not "
                              "predict it", theorem="correspondence Model/Eval.lean ~ eval.c"), nofail=True)
            stats["violations"] += 1
        if stats["violations"] >= 5:
            return False
    return True


# ============================================================================ generators
def gen_exhaustive(ck, targ):
    """operators x integer types^2 x boundary operand pairs: `(T1)L op (T2)R`."""
    rng = ck.rng
    per = 2 if ck.quick else 20
    probes = []
    for op in BINOPS:
        for t1 in INT_NAMES:
            b1 = boundary(t1, targ)
            for t2 in INT_NAMES:
                if op in ("<<", ">>"):
                    w = bits_of(promote(t1, targ))
                    b2 = [c for c in (0, 1, w - 1, w // 2, 7, w, 63, 64) if in_range(t2, targ, c)]
                else:
                    b2 = boundary(t2, targ)
                pairs = set()
                # always: one pair drawn from the type limits, the rest seeded
                cand = [(x, y) for x in (b1[0], b1[-1], 0, 1) for y in (b2[0], b2[-1], b2[len(b2) // 2])]
                pairs.add(cand[rng.randrange(len(cand))])
                tries = 0
                while len(pairs) < per and tries < 4 * per:
                    pairs.add((rng.choice(b1), rng.choice(b2)))
                    tries += 1
                for x, y in sorted(pairs):
                    e = Bin(op, Cast(t1, Lit(clit(x), x, "long long" if x < 2**63 else "unsigned long long")),
                            Cast(t2, Lit(clit(y), y, "long long" if y < 2**63 else "unsigned long long")))
                    try:
                        dest = e.sx(targ)[0]
                    except UB:
                        continue
                    probes.append(Probe(e, dest, tag=op))
    return probes


def gen_unary_cast(ck, targ):
    probes = []
    rng = ck.rng
    for t in INT_NAMES:
        bs = boundary(t, targ)
        for x in (bs if not ck.quick else rng.sample(bs, min(len(bs), 8))):
            src = Cast(t, Lit(clit(x), x, "long long" if x < 2**63 else "unsigned long long"))
            for op in UNOPS:
                e = Un(op, src)
                probes.append(Probe(e, e.sx(targ)[0], tag="un" + op))
    # casts between all integer types (value of the source type's boundary set), incl. _Bool
    for tf in INT_NAMES:
        bs = boundary(tf, targ)
        for tt in INT_NAMES:
            xs = bs if not ck.quick else rng.sample(bs, min(len(bs), 4))
            for x in xs:
                e = Cast(tt, Cast(tf, Lit(clit(x), x, "long long" if x < 2**63 else "unsigned long long")))
                probes.append(Probe(e, tt, tag="cast"))
    return probes


FLOAT_TEXTS = ["0.0", "1.0", "0.5", "0.1", "0.2", "0.3", "1e10", "3.5", "2.5", "1e-5", "16777216.0", "16777217.0",
               "9007199254740992.0", "9007199254740993.0", "1.5e300", "1e-300", "0x1p-1074", "0x1.fffffep127",
               "0x1p63", "0x1p64", "0x1.fffffffffffffp62", "4294967296.0", "2147483648.0", "2147483647.5", "0.99"]


def flit(rng, kind=None):
    txt = rng.choice(FLOAT_TEXTS)
    v = float.fromhex(txt) if txt.startswith("0x") else float(txt)
    if (kind or rng.choice(["f", "d"])) == "f":
        return Lit(txt + "f", f32(v), "float", raw=v)
    return Lit(txt, v, "double")


def gen_float(ck, targ):
    rng = ck.rng
    probes = []
    n = 150 if ck.quick else 1500
    # float arithmetic and comparisons, float ops round to float
    probes.append(Probe(Bin("+", Lit("0.1f", f32(0.1), "float", raw=0.1), Lit("0.2f", f32(0.2), "float", raw=0.2)), "float", tag="f+"))
    probes.append(Probe(Bin("+", Lit("0.1", 0.1, "double"), Lit("0.2", 0.2, "double")), "double", tag="f+"))
    for _ in range(n):
        op = rng.choice(["+", "-", "*", "/", "<", ">", "<=", ">=", "==", "!="])
        l, r = flit(rng), flit(rng)
        if rng.random() < 0.3:
            x = rng.choice([0, 1, -1, 3, 2**24 + 1, 2**31, -2**31, 2**53 + 1, 2**62 + 12345, 2**63 - 1])
            r = Lit(clit(x), x, "long long")
        if rng.random() < 0.2:
            l = Un("-", l)
        e = Bin(op, l, r)
        try:
            t = e.sx(targ)[0]
        except UB:
            continue
        probes.append(Probe(e, rng.choice([t, t, "double", "float"]) if op not in CMP else "int", tag="f" + op))
    # int -> float at the precision boundaries (single rounding required)
    ivals = [0, 1, -1, 2**24, 2**24 + 1, 2**24 + 3, 2**25 + 2, 2**53, 2**53 + 1, 2**53 + 3, 2**63 - 1, 2**63,
             2**64 - 1, 2**64 - 2048, 2**64 - 1024, 2**64 - 1025, -2**63, -2**63 + 1, 2**60 + 2**36 + 1,
             2**61 + 2**37 + 1, 2**40 + 2**16 + 1, -(2**60 + 2**36 + 1), 2**31 - 1, -2**31, 2**32 - 1, 123456789]
    for x in ivals:
        for ft in ("float", "double"):
            for it in ("int", "unsigned", "long", "unsigned long", "short", "unsigned char", "_Bool"):
                if in_range(it, targ, x):
                    probes.append(Probe(Cast(ft, Cast(it, Lit(clit(x), x, "long long" if x < 2**63 else "unsigned long long"))),
                                        ft, tag="i2f"))
    # float -> int, in range (truncation) and to _Bool
    fvals = ["0.0", "0.5", "0.99", "1.0", "1.5", "2.5", "-0.5", "-1.5", "-0.0", "127.9", "255.5", "32767.99",
             "2147483647.0", "2147483647.5", "-2147483648.0", "-2147483648.9", "4294967295.0", "4294967295.9",
             "16777217.0", "9007199254740993.0", "0x1.fffffffffffffp62", "-0x1p63", "0x1.fffffffffffffp63",
             "0x1p63", "1e18", "-1e18", "1e-300", "0x1p-1074"]
    for txt in fvals:
        v = float.fromhex(txt) if "0x" in txt else float(txt)
        for kind in ("d", "f"):
            src = Lit(txt, v, "double") if kind == "d" else Lit(txt + "f", f32(v), "float", raw=v)
            for it in INT_NAMES:
                e = Cast(it, src)
                try:
                    e.ev(targ)
                except UB:
                    continue
                probes.append(Probe(e, it, tag="f2i"))
    # float <-> double
    for txt in FLOAT_TEXTS:
        v = float.fromhex(txt) if txt.startswith("0x") else float(txt)
        probes.append(Probe(Cast("float", Lit(txt, v, "double")), "float", tag="d2f"))
        probes.append(Probe(Cast("double", Lit(txt + "f", f32(v), "float", raw=v)), "double", tag="f2d"))
    return probes


def gen_nested(ck, targ, n, depth):
    rng = ck.rng

    def leaf():
        r = rng.random()
        if r < 0.15:
            return rng.choice(CONST_LEAVES)
        t = rng.choice(INT_NAMES)
        if r < 0.3:
            x = rng.choice(boundary(t, targ))
        else:
            x = rng.randint(-9, 40) if signed_of(t, targ) else rng.randint(0, 40)
            if t == "_Bool" or t == "enum E":
                x = abs(x)
        if r > 0.75 and x >= 0:
            return ilit(x)
        x = wrap(t, targ, x) if t != "_Bool" else x
        return Cast(t, Lit(clit(x), x, "long long" if x < 2**63 else "unsigned long long"))

    def gen(d):
        if d == 0 or rng.random() < 0.15:
            return leaf()
        r = rng.random()
        if r < 0.62:
            return Bin(rng.choice(list(BINOPS)), gen(d - 1), gen(d - 1))
        if r < 0.74:
            return Un(rng.choice(list(UNOPS)), gen(d - 1))
        if r < 0.86:
            return Cast(rng.choice(INT_NAMES), gen(d - 1))
        return Cond(gen(d - 1), gen(d - 1), gen(d - 1))
    probes = []
    dropped = 0
    tries = 0
    while len(probes) < n and tries < 40 * n:
        tries += 1
        e = gen(rng.randint(2, depth))
        try:
            t, v = e.ev(targ)
        except UB:
            dropped += 1
            continue
        storage = rng.choice(["", "", "", "static", "_Thread_local", "static _Thread_local"])
        if "static" in storage:
            storage = "static" if storage == "static" else "_Thread_local"
        probes.append(Probe(e, rng.choice([t, t, "long long", "unsigned long long", "int", "unsigned char"]),
                            storage=storage, tag="nested"))
    return probes, dropped


# ============================================================================ op-level three-way
def run_oplevel(ck, targ, probes, stats):
    """The same tuples through `drv_c04 bin` (model), `drv_c04 spec bin` (Lean spec) and the Python
    reference: reference != Lean spec marks the check broken; model != spec on a defined tuple
    means a proved theorem no longer holds of the model that was built (also broken machinery)."""
    q = []
    meta = []
    for p in probes:
        e = p.e
        if not isinstance(e, Bin) or e.op in ("||", "&&"):
            continue
        try:
            tl, a = e.l.ev(targ)
            tr, b = e.r.ev(targ)
            cl, cr, rt = e.types(tl, tr, targ)
            a, b = conv_value(a, tl, cl, targ), conv_value(b, tr, cr, targ)
        except UB:
            continue
        bits, sg = bits_of(cl), int(signed_of(cl, targ))
        try:
            want = bin_spec(e.op, cl, targ, a, b)
        except UB:
            want = None
        q.append("spec bin %s %d %d %d %d" % (BINOPS[e.op], bits, sg, a, b))
        q.append("bin %s %d %d %d %d" % (BINOPS[e.op], bits, sg, a & M64, b & M64))
        meta.append((e, cl, rt, a, b, want))
    if not q or not ck.drv_ok:
        return
    out = ck.run_drv("\n".join(q) + "\n")
    for k, (e, cl, rt, a, b, want) in enumerate(meta):
        sp, md = out[2 * k], out[2 * k + 1]
        stats["oplevel"] += 1
        wtxt = "ub" if want is None else str(want)
        if sp != wtxt:
            raise common.Broken("Python reference and Spec/CInt.lean disagree on %s %s %d %d: %s vs %s"
                                % (e.op, cl, a, b, wtxt, sp))
        if want is not None:
            rw = wrap(rt, targ, want) & M64
            if md != str(rw):
                raise common.Broken("Model/Eval.lean contradicts Props.C04.fold_correct on %s %s %d %d: model %s, "
                                    "spec %d" % (e.op, cl, a, b, md, rw))


# ============================================================================ contexts
def small_exprs(ck, targ, n):
    """defined integer constant expressions with their C value, for the folding contexts."""
    probes, _ = gen_nested(ck, targ, n, 4)
    return [p.e for p in probes]


def run_contexts(ck, cp, targ, stats):
    rng = ck.rng
    n = 40 if ck.quick else 300
    es = small_exprs(ck, targ, n)
    lines, checks = [], []   # checks: (kind, index-of-first-line, payload)

    def val(e):
        t, v = e.ev(targ)
        return t, v
    for k, e in enumerate(es):
        t, v = val(e)
        # static assertion: accepted with the right value ...
        lines.append("_Static_assert(%s == %s, \"\");" % (e.c(), Cast(t, Lit(clit(v), v, "long long" if v < 2**63 else "unsigned long long")).c()))
        checks.append(("sassert-ok", len(lines) - 1, e))
        # array bound through sizeof
        ab = Bin("+", Bin("&", e, ilit(1023)), ilit(1))
        n_el = ab.ev(targ)[1]
        lines.append("char ab_%d[%s]; unsigned long abn_%d = sizeof ab_%d;" % (k, ab.c(), k, k))
        checks.append(("array", len(lines) - 1, ("abn_%d" % k, n_el, ab)))
        # enumerator
        lines.append("enum { en_%d = %s }; unsigned long long env_%d = en_%d;" % (k, e.c(), k, k))
        checks.append(("enum", len(lines) - 1, ("env_%d" % k, v & M64, e)))
        # case label (controlling type unsigned long: the key is the value modulo 2^64)
        lines.append("int cf_%d(unsigned long x) { switch (x) { case %s: return 1; } return 0; }" % (k, e.c()))
        checks.append(("case", len(lines) - 1, ("cf_%d" % k, v & M64, e)))
        # bit-field width 1..16, observed through the image of the following field
        bw = Bin("+", Bin("&", e, ilit(15)), ilit(1))
        w = bw.ev(targ)[1]
        lines.append("struct { unsigned f : %s; unsigned g : 3; } bf_%d = { 0, 7 };" % (bw.c(), k))
        checks.append(("bitfield", len(lines) - 1, ("bf_%d" % k, w, bw)))
        # alignment specifier
        al = Bin("<<", ilit(1), Bin("&", e, ilit(3)))
        a = al.ev(targ)[1]
        lines.append("_Alignas(%s) char al_%d = 1;" % (al.c(), k))
        checks.append(("alignas", len(lines) - 1, ("al_%d" % k, a, al)))
    out, bad = cp.probes(lines, targ)
    data = parse_data(out)
    try:
        funcs, _ = ilpy.parse(out)
    except ilpy.Unsupported as ex:
        raise common.Broken("ilpy cannot parse cproc output: %s" % ex)
    for kind, li, payload in checks:
        ck.count(("ctx", kind))
        stats["contexts"] += 1
        prog = PRELUDE + lines[li]
        if li in bad:
            ck.violation({"kind": "context-rejected", "context": kind, "target": targ, "program": prog,
                          "diagnostic": bad[li], "what": "a defined integer constant expression is rejected "
                          "(or evaluated to another value) in a context that requires one"})
            stats["violations"] += 1
            continue
        if kind == "sassert-ok":
            continue
        name, want, e = payload
        got = None
        if kind in ("array", "enum"):
            d = data.get(name)
            got = item_value(d, "unsigned long")[1] if d else None
        elif kind == "alignas":
            d = data.get(name)
            got = d["align"] if d else None
        elif kind == "bitfield":
            d = data.get(name)
            if d:
                img = []
                for letter, txt in d["items"]:
                    if letter == "b":
                        img.append(int(txt))
                    elif letter == "z":
                        img.extend([0] * int(txt))
                    elif letter == "w":
                        img.extend((int(txt) >> s) & 0xff for s in (0, 8, 16, 24))
                word = sum(b << (8 * i) for i, b in enumerate(img[:4]))
                got = (word, len(img))
                want = (7 << want, 4)
        elif kind == "case":
            f = funcs.get(name)
            keys = []
            if f:
                for _, _, insts, _ in f.blocks:
                    for ln, t in insts:
                        if len(t) > 4 and re.fullmatch(r"ceq[wl]", t[2]):
                            keys += [int(x) & M64 for x in t[3:5] if re.fullmatch(r"\d+", x)]
            got = keys[0] if keys else None
        if got != want:
            ck.violation({"kind": "context-value", "context": kind, "target": targ, "program": prog,
                          "expected": want, "compiler": got,
                          "what": "constant expression evaluated to another value in this context"})
            stats["violations"] += 1
    # a failing static assertion must be rejected
    neg = ["_Static_assert(%s == %s, \"\");" % (e.c(), Cast(e.ev(targ)[0], ilit((abs(e.ev(targ)[1]) + 1) % 100)).c())
           for e in es[:10] if wrap(e.ev(targ)[0], targ, (abs(e.ev(targ)[1]) + 1) % 100) != e.ev(targ)[1]]
    for ln in neg:
        rc, _, err = cp.run(PRELUDE + ln + "\n", targ)
        ck.count(("ctx", "sassert-neg"))
        if rc != 1 or "static assertion failed" not in err:
            ck.violation({"kind": "static-assert-accepted", "target": targ, "program": PRELUDE + ln,
                          "what": "false static assertion not diagnosed", "rc": rc, "stderr": err[-300:]})
            stats["violations"] += 1
    # negative constant where none is allowed (intconstexpr_sign_rule)
    for ln, must_fail in [("char na[-1];", True), ("char nb[(long)-1];", True), ("struct { int f : -1; } nc;", True),
                          ("_Alignas(-4) char nd;", True), ("enum { ne = -1 }; int nf = ne;", False),
                          ("_Static_assert(-1, \"\");", False),
                          ("extern char nj[0x80000000L]; _Static_assert(sizeof nj == 2147483648, \"\");", False),
                          ("struct B { char big[0x100000001L]; }; _Static_assert(__builtin_offsetof(struct B, "
                           "big[0x80000000L]) == 2147483648, \"\");", False),
                          ("extern char nk[0x7fffffffffffffffL];", False), ("extern char nl[0x8000000000000000UL / 2];", False),
                          ("extern char nm[(long)0xffffffff80000000UL];", True),
                          ("struct { unsigned long f : 0x100000000L >> 27; } nn;", False), ("char ng[0xffffffffffffffff / 0xffffffffffffffff];", False),
                          ("int nh(int x){switch(x){case -1: return 1;} return 0;}", False)]:
        rc, _, err = cp.run(ln + "\n", targ)
        ck.count(("ctx", "sign-rule", ln))
        if (rc == 1 and "error" in err) != must_fail or rc not in (0, 1):
            ck.violation({"kind": "sign-rule", "target": targ, "program": ln, "rc": rc, "stderr": err[-300:],
                          "what": "intconstexpr(allowneg) rule: negative value %s" % ("accepted" if must_fail else "rejected"),
                          "theorem": "C04.intconstexpr_sign_rule"})
            stats["violations"] += 1


def run_address(ck, cp, targ, stats):
    """address constants: `&arr[i] + j - k`, `(long)&arr[i] + c`, `&*(arr + i)`, `&"str"[i]`."""
    rng = ck.rng
    lines, want = [], []
    n = 40 if ck.quick else 300
    for k in range(n):
        i, j, m = rng.randint(0, 9), rng.randint(0, 9), rng.randint(0, 9)
        form = rng.randrange(7)
        if form == 0:
            lines.append("int *ap_%d = &arr[%d] + %d;" % (k, i, j)); off = 4 * (i + j)
        elif form == 1:
            lines.append("int *ap_%d = %d + &arr[%d] - %d;" % (k, j, i, m)); off = 4 * (i + j - m)
        elif form == 2:
            lines.append("int *ap_%d = (&arr[%d] + %d) - (%d - %d);" % (k, i, j, m, j)); off = 4 * (i + j - (m - j))
        elif form == 3:
            lines.append("long ap_%d = (long)&arr[%d] + %d;" % (k, i, j)); off = 4 * i + j
        elif form == 4:
            lines.append("long ap_%d = (long)&arr[%d] - %d;" % (k, i, j)); off = 4 * i - j
        elif form == 5:
            lines.append("int *ap_%d = &*(arr + %d) + sizeof(int) - %d;" % (k, i + 1, j)); off = 4 * (i + 1 + 4 - j)
        else:
            lines.append("int *ap_%d = &arr[%d << 1 | %d];" % (k, i % 4, j % 2)); off = 4 * ((i % 4) << 1 | (j % 2))
        want.append(off & M64)
    out, bad = cp.probes(lines, targ)
    data = parse_data(out)
    for k, ln in enumerate(lines):
        ck.count(("addr", k % 7))
        stats["address"] += 1
        d = data.get("ap_%d" % k)
        got = None
        if k in bad:
            got = "rejected: " + bad[k]
        elif d and len(d["items"]) == 1 and d["items"][0][0] == "l":
            m = re.fullmatch(r"\$arr(?: \+ (\d+))?", d["items"][0][1])
            if m:
                got = int(m.group(1) or 0)
        if got != want[k]:
            ck.violation({"kind": "address-constant", "target": targ, "program": PRELUDE + ln, "expected": "$arr + %d" % want[k],
                          "compiler": d["items"] if d else got, "what": "address constant folded to another offset",
                          "theorem": "C04.addr_fold_partial"})
            stats["violations"] += 1
    # string literal address
    rc, out, err = cp.run("char *sp = &\"hello\"[2];\nchar *sq = \"abc\" + 1;\n", targ)
    ok = rc == 0 and re.search(r"data \$sp = align 8 \{ l \$\.Lstring\.\d+ \+ 2, \}", out) and \
        re.search(r"data \$sq = align 8 \{ l \$\.Lstring\.\d+ \+ 1, \}", out)
    if not ok:
        ck.violation({"kind": "address-constant", "target": targ, "program": "char *sp = &\"hello\"[2]; char *sq = \"abc\" + 1;",
                      "compiler": out[-300:] + err[-200:], "what": "string address constant"})
        stats["violations"] += 1
    # the commuted form  C + (long)(P + C1)
    prog = "int arr[10]; long sw = 5 + (long)&arr[3];\n"
    rc, out, err = cp.run(prog, targ)
    ck.count(("addr", "swap"))
    d = parse_data(out).get("sw")
    if rc != 0 or not d or d["items"] != [("l", "$arr + 17")]:
        ck.violation({"kind": "address-constant-swap", "target": targ, "program": prog, "rc": rc, "stdout": out[-200:],
                      "stderr": err[-200:], "expected": "l $arr + 17",
                      "what": "C + (long)(P + C1) is not folded to P + (C1 + C)", "theorem": "C04.addr_fold_swapped"})
        stats["violations"] += 1


# ============================================================================ literals
def run_literals(ck, cp, targ, stats):
    rng = ck.rng
    limits = [0, 1, 7, 8, 2**31 - 1, 2**31, 2**32 - 1, 2**32, 2**63 - 1, 2**63, 2**64 - 1]
    vals = set()
    for v in limits:
        for d in (-2, -1, 0, 1, 2):
            if 0 <= v + d < 2**64:
                vals.add(v + d)
    for _ in range(10 if ck.quick else 200):
        vals.add(rng.getrandbits(rng.choice([8, 16, 31, 32, 33, 62, 63, 64])))
    sufs = ["", "u", "U", "l", "L", "ul", "UL", "uL", "Ul", "lu", "LU", "ll", "LL", "ull", "ULL", "uLL", "llu", "LLU", "llU"]
    forms = [("%d", True), ("%#o", False), ("%#x", False), ("%#X", False), ("0b%s", False), ("0B%s", False)]
    items = []
    vs = sorted(vals)
    if ck.quick:
        vs = [v for v in vs if v in limits or v + 1 in limits or v - 1 in limits]
    for v in vs:
        for fmt, dec in forms:
            if fmt.lower().startswith("0b"):
                txt = fmt % bin(v)[2:]
            elif fmt == "%#o":
                txt = "0%o" % v if v else "0"
            else:
                txt = fmt % v
                if fmt == "%#X":
                    txt = "0X%X" % v
            for s in (sufs if not ck.quick else rng.sample(sufs, 5) + [""]):
                items.append((txt + s, v, dec, s.lower()))
    lines, drv = [], []
    gen = "int: 1, unsigned: 2, long: 3, unsigned long: 4, long long: 5, unsigned long long: 6"
    tnum = {"int": 1, "unsigned": 2, "long": 3, "unsigned long": 4, "long long": 5, "unsigned long long": 6}
    for i, (txt, v, dec, s) in enumerate(items):
        lines.append("unsigned long long lv_%d = %s; int lt_%d = _Generic((%s), %s);" % (i, txt, i, txt, gen))
        drv.append("lit " + txt)
        drv.append("spec lit %d %d %d %d" % ("u" in s, s.count("l"), dec, v))
    # constants without a type must be diagnosed: compiled one by one; the others in units of 4000
    data, bad = {}, {}
    good = [i for i, it in enumerate(items) if lit_type(it[1], it[2], it[3]) is not None]
    for lo in range(0, len(good), 4000):
        idx = good[lo:lo + 4000]
        out, bad0 = cp.probes([lines[i] for i in idx], targ, prelude="")
        data.update(parse_data(out))
        bad.update({idx[k]: v for k, v in bad0.items()})
    for i, it in enumerate(items):
        if lit_type(it[1], it[2], it[3]) is None:
            rc, out, err = cp.run(lines[i] + "\n", targ)
            if rc == 1 and "error" in err:
                bad[i] = err.strip()[-80:]
            elif rc == 0:
                data.update(parse_data(out))
            else:
                bad[i] = "signal/rc %d" % rc
    mod = ck.run_drv("\n".join(drv) + "\n") if ck.drv_ok else None
    names = {"unsigned int": "unsigned"}
    for i, (txt, v, dec, s) in enumerate(items):
        ck.count(("lit", dec, s, v.bit_length()))
        stats["literals"] += 1
        want_t = lit_type(v, dec, s)
        if mod is not None:
            mspec = mod[2 * i + 1]
            if names.get(mspec, mspec) != (want_t or "none"):
                raise common.Broken("Python lit_type and Spec/CInt.litType disagree on %s: %s vs %s" % (txt, want_t, mspec))
        if i in bad:
            got = ("error", None)
        else:
            dv, dt = data.get("lv_%d" % i), data.get("lt_%d" % i)
            got = (item_value(dv, "unsigned long long")[1], item_value(dt, "int")[1]) if dv and dt else ("missing", None)
        want = ("error", None) if want_t is None else (v, tnum[want_t])
        mgot = None
        if mod is not None:
            ml = mod[2 * i]
            if ml == "error":
                mgot = ("error", None)
            else:
                mv, _, mt = ml.partition(" ")
                mgot = (int(mv), tnum[names.get(mt, mt)])
        if got != want:
            ck.violation({"kind": "literal", "target": targ, "program": lines[i], "expected": want, "compiler": got,
                          "model": mgot, "what": "integer constant has another value or type than C11 6.4.4.1",
                          "theorem": "C04.literal_value_correct / inttype_correct"})
            stats["violations"] += 1
        elif mgot is not None and mgot != got:
            ck.violation({"kind": "literal-model", "target": targ, "program": lines[i], "compiler": got, "model": mgot,
                          "what": "Model/Eval.parseNumber does not predict the compiler",
                          "theorem": "correspondence Model/Eval.parseNumber ~ expr.c:primaryexpr"}, nofail=True)
            stats["violations"] += 1
    # malformed / overflowing literals
    for txt, fid in [("18446744073709551616u", None), ("0x10000000000000000", None),
                     ("99999999999999999999999ull", None), ("18446744073709551616", None),
                     ("0b10000000000000000000000000000000000000000000000000000000000000000", None),
                     ("02000000000000000000000", None),
                     ("9223372036854775808", None), ("08", None), ("0x", None), ("0b2", None), ("1uu", None), ("1lul", None),
                     ("0b", None), ("1llll", None), ("0xg", None), ("1_000", None)]:
        rc, out, err = cp.run("unsigned long long x = %s;\n" % txt, targ)
        ck.count(("lit-bad", txt))
        if rc != 1 or "error" not in err:
            ck.violation({"kind": "literal-accepted", "target": targ, "program": "unsigned long long x = %s;" % txt,
                          "rc": rc, "stdout": out[-120:], "what": "integer constant without a type (value >= 2^64 "
                          "or malformed) accepted", "theorem": "C04.literal_overflow_rejected"})
            stats["violations"] += 1


# ============================================================================ run-time agreement (K-D)
def run_runtime(ck, cp, targ, stats):
    rng = ck.rng
    n = 120 if ck.quick else 1500
    lines, want, info = [], [], []
    tries = 0
    while len(lines) < n and tries < 20 * n:
        tries += 1
        kind = rng.random()
        t1, t2 = rng.choice(INT_NAMES), rng.choice(INT_NAMES)
        x, y = rng.choice(boundary(t1, targ)), rng.choice(boundary(t2, targ))
        l1 = Cast(t1, Lit(clit(x), x, "long long" if x < 2**63 else "unsigned long long"))
        l2 = Cast(t2, Lit(clit(y), y, "long long" if y < 2**63 else "unsigned long long"))
        k = len(lines)
        if kind < 0.7:
            op = rng.choice(list(BINOPS))
            if op in ("<<", ">>"):
                y = rng.choice([0, 1, bits_of(promote(t1, targ)) - 1, 5])
                if not in_range(t2, targ, y):
                    continue
                l2 = Cast(t2, Lit(clit(y), y, "long long"))
            e = Bin(op, l1, l2)
            body = "volatile %s a = %s; volatile %s b = %s; return a %s b;" % (t1, clit(x), t2, clit(y), op)
        elif kind < 0.85:
            op = rng.choice(list(UNOPS))
            e = Un(op, l1)
            body = "volatile %s a = %s; return %sa;" % (t1, clit(x), op)
        else:
            e = Cast(t2, l1)
            body = "volatile %s a = %s; return (%s)a;" % (t1, clit(x), t2)
        try:
            t, v = e.ev(targ)
        except UB:
            continue
        if t1 == "enum E" or t2 == "enum E":
            continue
        lines.append("long long rf_%d(void) { %s }  long long rc_%d = %s;" % (k, body, k, e.c()))
        want.append(wrap("long long", targ, v) & M64)
        info.append(e)
    out, bad = cp.probes(lines, targ)
    if bad:
        i = sorted(bad)[0]
        ck.violation({"kind": "runtime-unit-rejected", "target": targ, "program": PRELUDE + lines[i], "diagnostic": bad[i]})
        stats["violations"] += 1
        return
    try:
        funcs, _ = ilpy.parse(out)
    except ilpy.Unsupported as ex:
        raise common.Broken("ilpy cannot parse cproc output: %s" % ex)
    data = parse_data(out)
    for k, ln in enumerate(lines):
        ck.count(("runtime", type(info[k]).__name__, getattr(info[k], "op", "cast")))
        stats["runtime"] += 1
        d = data.get("rc_%d" % k)
        folded = item_value(d, "long long")[1] if d else None
        try:
            rt = ilpy.Machine(funcs).call("rf_%d" % k, [])
        except ilpy.Trap as ex:
            rt = "trap: %s" % ex
        except ilpy.Unsupported as ex:
            stats["runtime_unsupported"] = stats.get("runtime_unsupported", 0) + 1
            continue
        if rt == folded == want[k]:
            continue
        rep = {"kind": "fold-vs-runtime", "target": targ, "program": PRELUDE + ln, "folded": folded, "runtime": rt,
               "expected": want[k], "what": "compile-time value differs from the value the emitted code computes"}
        ck.violation(rep)
        stats["violations"] += 1


# ============================================================================ malformed / undefined stream
def run_malformed(ck, cp, targ, stats):
    progs = ["int x = 1/0;", "int x = 1%0;", "long x = (-9223372036854775807L-1)/-1;", "long x = (-9223372036854775807L-1)%-1;",
             "unsigned x = 5u/0u;", "long x = 7L % 0L;", "char a[1/0];", "enum { e = 1/0 };", "_Static_assert(1/0, \"\");",
             "int f(int x){switch(x){case 1/0: return 1;} return 0;}", "struct { int f : 1/0; } s;", "_Alignas(1/0) char c;",
             "long x = (long)(0.0/0.0);", "unsigned long x = (unsigned long)(0.0/0.0);", "long x = (long)1e19;",
             "long x = (long)-1e19;", "unsigned long x = (unsigned long)-1.0;", "unsigned long x = (unsigned long)1.9e19;",
             "long x = (long)(1.0/0.0);", "long x = (long)0x1p63;", "unsigned long x = (unsigned long)0x1p64;",
             "long x = (long)-0x1.0000000000001p63;", "int x = (int)0x1p63f;", "unsigned x = (unsigned)-1.0f;", "int x = (int)(1e300*1e300);", "char a[(long)1e30];",
             "int x = 0 ? 1/0 : 2/0;", "int x = 2147483647 + 1 - 1/0;"]
    for p in progs:
        rc, out, err = cp.run(p + "\n", targ)
        ck.count(("malformed", p))
        stats["malformed"] += 1
        if rc != 1 or "error" not in err:
            ck.violation({"kind": "malformed", "target": targ, "program": p, "rc": rc, "stderr": err[-300:],
                          "stdout": out[-200:], "what": "an undefined / unrepresentable constant operation where a "
                          "constant is required must be diagnosed with exit status 1 (never a signal, never accepted)",
                          "theorem": "C04.undefined_left_unfolded / fold_float_to_int_model"})
            stats["violations"] += 1
    # evaluated lazily: these are valid
    for p, name, v in [("int x = 0 && 1/0;", "x", 0), ("int x = 1 || 1/0;", "x", 1), ("int x = 1 ? 3 : 1/0;", "x", 3),
                       ("int x = 0 ? 1/0 : 4;", "x", 4), ("int x = 5||0; int y = 0.5 && 1; int z = 0 || 0.0;", "x", 1),
                       ("int x = -0.0 || 0;", "x", 0), ("int x = 0.5 && 0.25;", "x", 1), ("int x = 2 && 4;", "x", 1)]:
        rc, out, err = cp.run(p + "\n", targ)
        ck.count(("lazy", p))
        d = parse_data(out).get(name)
        got = item_value(d, "int") if d else None
        if rc != 0 or got != ("int", v):
            ck.violation({"kind": "logical", "target": targ, "program": p, "rc": rc, "compiler": got, "expected": v,
                          "stderr": err[-200:], "what": "|| / && / ?: with an unevaluated undefined operand",
                          "theorem": "C04.lor_land_short_circuit / lor_land_zero_one / cond_shortcut_correct"})
            stats["violations"] += 1
    # floating condition of ?:
    for p, v in [("int x = 0.5 ? 1 : 2;", 1), ("int x = 0.0 ? 1 : 2;", 2), ("int x = -0.0 ? 1 : 2;", 2),
                 ("int x = 1e-320 ? 1/0 + 1 : 2;", None), ("int x = 0.0f ? 1/0 : 7;", 7)]:
        rc, out, err = cp.run(p + "\n", targ)
        ck.count(("cond-float", p))
        d = parse_data(out).get("x")
        good = (rc == 1 and "error" in err) if v is None else (rc == 0 and d and item_value(d, "int") == ("int", v))
        if not good:
            ck.violation({"kind": "cond-float", "target": targ, "program": p, "rc": rc, "stderr": err[-200:],
                          "expected": v, "what": "?: with a floating constant condition",
                          "theorem": "C04.cond_float_condition"})
            stats["violations"] += 1


# ============================================================================ spec validation against gcc
def gcc_values(src):
    r = subprocess.run(["gcc", "-S", "-w", "-std=gnu11", "-x", "c", "-o", "-", "-"], input=src, stdout=subprocess.PIPE,
                       stderr=subprocess.PIPE, text=True)
    if r.returncode != 0:
        return None, r.stderr
    vals, cur = {}, None
    for ln in r.stdout.splitlines():
        ln = ln.strip()
        m = re.match(r"([A-Za-z_]\w*):$", ln)
        if m:
            cur = m.group(1)
            vals[cur] = []
            continue
        m = re.match(r"\.(byte|value|short|long|quad|zero)\s+(-?\d+)", ln)
        if m and cur:
            n = {"byte": 1, "value": 2, "short": 2, "long": 4, "quad": 8, "zero": 0}[m.group(1)]
            if n == 0:
                vals[cur].append((int(m.group(2)), 0))
            else:
                vals[cur].append((n, int(m.group(2)) & ((1 << (8 * n)) - 1)))
        elif ln.startswith(".") and not ln.startswith((".byte", ".value", ".long", ".quad", ".zero", ".short")):
            if ln.startswith((".text", ".section", ".globl", ".type", ".size", ".align", ".data", ".bss", ".local", ".comm")):
                if ln.startswith((".text", ".section", ".data", ".bss")):
                    cur = None
    return vals, ""


def validate_with_gcc(ck, probes, stats):
    """the reference's expected values against gcc (host = x86_64): a disagreement marks the check broken."""
    targ = "x86_64-sysv"
    sel = [p for p in probes if not p.storage]
    if len(sel) > (600 if ck.quick else 6000):
        sel = ck.rng.sample(sel, 600 if ck.quick else 6000)
    lines, exp = [], []
    for p in sel:
        try:
            t, v = p.e.ev(targ)
            o = expect_obs(p.dest, conv_value(v, t, p.dest, targ), targ)
        except UB:
            continue
        lines.append("%s g_%d = %s;" % (p.dest, len(lines), p.e.c()))
        exp.append((o, p))
    vals, err = gcc_values(PRELUDE + "\n".join(lines) + "\n")
    if vals is None:
        raise common.Broken("gcc rejects the reference's probes: %s" % err[-400:])
    for i, (o, p) in enumerate(exp):
        g = vals.get("g_%d" % i)
        if not g:
            continue
        size = size_of(p.dest)
        if g[0][1] == 0 and g[0][0] == size:
            gv = 0
        elif g[0][0] == size:
            gv = g[0][1]
        else:
            continue
        stats["gcc_validated"] += 1
        if gv != o[1]:
            if o[0] == "flt" and nan_equal(("flt", gv), o, p.dest):
                continue
            raise common.Broken("reference (Spec/CInt mirror) disagrees with gcc on `%s`: %s vs gcc %d" % (lines[i], o, gv))


# ============================================================================ corpus (runs first)
def run_corpus(ck, cp, stats):
    d = os.path.join(common.VERIF, "corpus", "C04")
    if not os.path.isdir(d):
        return
    for f in sorted(os.listdir(d)):
        if not f.endswith(".c"):
            continue
        src = open(os.path.join(d, f)).read()
        head = src.splitlines()[0]
        for targ in TARGETS:
            rc, out, err = cp.run(src, targ)
            ck.count(("corpus", f))
            stats["corpus"] = stats.get("corpus", 0) + 1
            m = re.match(r"// expect-error: (.*)", head)
            if m:
                good = rc == 1 and re.search(m.group(1), err)
            else:
                m = re.match(r"// expect: (.*)", head)
                good = rc == 0 and re.search(m.group(1), out, re.S)
            if not good:
                ck.violation({"kind": "corpus", "witness": "corpus/C04/" + f, "target": targ, "program": src, "rc": rc,
                              "stdout": out[-400:], "stderr": err[-300:], "expect": head,
                              "what": "a recorded (repaired) folding defect is back"})
                stats["violations"] += 1
                break


# ============================================================================ driver
def run(ck):
    ck.cov["rule"] = ("K-B three-way (cproc-qbe vs Lean model vs C reference) on: 18 binary operators x 13 integer "
                      "types^2 x %d boundary operand pairs, 4 unary operators x 13 types x boundary values, casts "
                      "between all 13 integer types, float arithmetic/comparisons/conversions at precision "
                      "boundaries, random nested expressions of depth <= 6 (defined behaviour only), all folding "
                      "contexts (static/thread initialisers, static assertions, array bounds, enumerators, case "
                      "labels, bit-field widths, _Alignas, ?:), address constants, integer literals of every "
                      "base/suffix around each type limit; K-D run-time agreement through executed IL; undefined/"
                      "malformed stream.  distinct_nontrivial = distinct (context, operator, type) classes."
                      % (2 if ck.quick else 20))
    ck.lean_build()
    if not ck.proofs_ok:
        ck.notes.append("Props.C04 does not build; searching for a failing input")
    cp = Compiler(ck)
    ck.c04_nofail = []
    stats = {"checked": 0, "undefined_dropped": 0, "violations": 0, "oplevel": 0, "contexts": 0, "address": 0,
             "literals": 0, "runtime": 0, "malformed": 0, "gcc_validated": 0}
    all_probes = []
    run_corpus(ck, cp, stats)
    for ti, targ in enumerate(TARGETS):
        ex = gen_exhaustive(ck, targ)
        if ck.quick and ti > 0:
            ex = ck.rng.sample(ex, len(ex) // 3)
        uc = gen_unary_cast(ck, targ)
        fl = gen_float(ck, targ)
        ne, dropped = gen_nested(ck, targ, 300 if ck.quick else 4000, 6)
        stats["undefined_dropped"] += dropped
        run_oplevel(ck, targ, ex, stats)
        for name, ps in (("binary", ex), ("unary-cast", uc), ("float", fl), ("nested", ne)):
            for lo in range(0, len(ps), 4000):
                if not run_value_probes(ck, cp, ps[lo:lo + 4000], targ, name, stats):
                    break
        if targ == "x86_64-sysv":
            all_probes = ex + uc + fl + ne
            ck.sample({"probe": PRELUDE.splitlines()[0] + " ... " + "%s v = %s;" % (ex[7].dest, ex[7].e.c()), "target": targ})
            ck.sample({"nested": "%s v = %s;" % (ne[3].dest, ne[3].e.c())})
        if stats["violations"] >= 5:
            break
        run_contexts(ck, cp, targ, stats)
        run_address(ck, cp, targ, stats)
        run_literals(ck, cp, targ, stats)
        run_runtime(ck, cp, targ, stats)
        run_malformed(ck, cp, targ, stats)
    if all_probes:
        validate_with_gcc(ck, all_probes, stats)
    if ck.c04_nofail and not ck.violations:
        for rep in ck.c04_nofail[:2]:
            ck.violation(rep, nofail=True)
    ck.cov["stats"] = stats
    ck.cov["input_distribution"] = {"operators": sorted(BINOPS), "integer_types": INT_NAMES, "targets": TARGETS}
    if not ck.proofs_ok and not ck.violations:
        ck.violation({"kind": "proof-broken", "theorem": "CprocVerif.Props.C04 (lake build failed)",
                      "log": ck.build_log[-3000:]}, nofail=True)
    ck.assumptions = [
        "the host's double arithmetic and (float) conversion are the target's IEEE-754 arithmetic (FloatOps is "
        "uninterpreted in the theorems; checked numerically here against Python/struct and gcc)",
        "strtoull/strtod/printf(\"%.17g\") of the host libc behave as specified",
        "QBE parses the decimal constants of data items modulo 2^64 and truncates them to the item width",
        "checks/ilpy.py's reading of the integer instructions (run-time agreement)",
        "typing of expressions (promotions, usual arithmetic conversions) is C05's obligation; the reference "
        "here re-implements 6.3.1.1/6.3.1.8 and is validated against gcc",
    ]


META = {
    "category": "proof",
    "text": ("Lean 4 theorems over a model of eval.c (cast/unary/binary/eval), intconstexpr, the constant shortcut of "
             "condexpr and integer-literal typing: for each of the 16 arithmetic/bitwise/comparison operators and every "
             "integer type of width 8/16/32/64 (all operand values, no sampling) the folded 64-bit constant is the "
             "canonical representation of the C11 value whenever C11 defines one (binary_correct, fold_correct), same "
             "for unary operators, conversions, ||/&& with short circuit, and by induction for arbitrary nested "
             "integer constant expressions (eval_canon, eval_correct); operations undefined on the host are never "
             "folded (undefined_left_unfolded).  Tied to /repo on every run by a three-way comparison (cproc-qbe vs "
             "model vs C reference validated against the Lean spec and gcc) over operators x 13 types^2 x boundary "
             "operands, all folding contexts, address constants, literals, floats, and by executing the emitted IL "
             "for the same operations on volatile operands."),
    "design_ref": "DESIGN.md section 4, C04",
    "note": ("Floating point is uninterpreted in the theorems (same operation on the same operands).  Five defects "
             "found while stating the theorems were repaired in /repo (conversion to _Bool 7c8b86a, C + (long)(P + C1) "
             "536afbc, int->float double rounding 0457315, floating ?: condition b66d549, literal >= 2^64 23c06f0); "
             "their witnesses stay in the probe sets."),
    "technique": "Lean 4 proof (per-width case analysis + omega, induction over expressions) + three-way differential correspondence + executed IL",
}

"""C05 - every expression is given the type C11 assigns it.

Proof:   lean/CprocVerif/Props/C05.lean -- model of type.c/targ.c/the typing half of expr.c
         (Model/Types.lean) against the C11 spec (Spec/Conv.lean): integer promotions by range,
         usual arithmetic conversions, typehasint / literal typing for ALL 64-bit values, operator
         result types, conditional operator, compatibility (reflexive, symmetric, sound, complete),
         enums, target facts; tables regenerated from /repo by tools/gen_c05.py are proof obligations.
Tie:     K-A  harness/type_h.c links /repo's type.c targ.c util.c and calls the REAL targinit,
              typepromote, typecommonreal, typehasint, typecompatible, typeadjust on every tuple
              of the finite domain; the model driver answers the same lines; the code's answers
              are also judged by the Spec predicates (Spromote/Susual/Srange/Scompat).
         K-B  generated C compiled by the freshly built cproc-qbe for all three targets; the type
              of every probe expression is observed through `_Generic`, `sizeof` and
              `__builtin_types_compatible_p(typeof(E), T)` emitted as data, compared with the
              model (`typeof`) and with the Spec (`ok=`); clang --target validates the Spec.
"""
import itertools
import os
import re
import subprocess

from . import common
from .common import Broken, CompileError

TARGETS = [("x86_64-sysv", "x86_64-linux-gnu"), ("aarch64", "aarch64-linux-gnu"), ("riscv64", "riscv64-linux-gnu")]
BASICS = ["bool", "char", "schar", "uchar", "short", "ushort", "int", "uint", "long", "ulong", "llong",
          "ullong", "float", "double", "ldouble"]
INTS = BASICS[:12]
CNAME = {"bool": "_Bool", "char": "char", "schar": "signed char", "uchar": "unsigned char", "short": "short",
         "ushort": "unsigned short", "int": "int", "uint": "unsigned", "long": "long", "ulong": "unsigned long",
         "llong": "long long", "ullong": "unsigned long long", "float": "float", "double": "double",
         "ldouble": "long double", "void": "void"}
SIZE = {"bool": 1, "char": 1, "schar": 1, "uchar": 1, "short": 2, "ushort": 2, "int": 4, "uint": 4, "long": 8,
        "ulong": 8, "llong": 8, "ullong": 8, "float": 4, "double": 8, "ldouble": 16}
WIDTHS = [1, 7, 8, 15, 16, 31, 32, 33, 63, 64]
# enum type objects of the probes: id -> (typedef name, base, enumerator list)
ENUMS = {1: ("EU", "uint", "EU_A"), 2: ("EI", "int", "EI_A = -1"), 3: ("EUL", "ulong", "EUL_A = 0x100000000"),
         4: ("EL", "long", "EL_A = -0x100000000"), 5: ("ELL", "llong", None), 15: ("ELL2", "llong", None),
         11: ("EU2", "uint", "EU2_A"), 12: ("EI2", "int", "EI2_A = -1"), 13: ("EUL2", "ulong", "EUL2_A = 0x100000000"),
         14: ("EL2", "long", "EL2_A = -0x100000000")}
TWIN = {1: 11, 2: 12, 3: 13, 4: 14, 5: 15}
BINOPS = {"lor": "||", "land": "&&", "eql": "==", "neq": "!=", "less": "<", "greater": ">", "leq": "<=", "geq": ">=",
          "bor": "|", "xor": "^", "band": "&", "add": "+", "sub": "-", "mod": "%", "mul": "*", "div": "/",
          "shl": "<<", "shr": ">>"}
UNOPS = {"plus": "+", "minus": "-", "bnot": "~", "lnot": "!"}
M64 = (1 << 64) - 1


# ----------------------------------------------------------------------------- type syntax
def ty_parse(toks, pos=0):
    """prefix type syntax of Drv/C05.lean -> (ast, newpos).  ast = tuple."""
    t = toks[pos]
    pos += 1
    if t in ("void", "nullptr"):
        return (t,), pos
    if t in SIZE:
        return ("b", t), pos
    m = re.fullmatch(r"e(\d+):(\w+)", t)
    if m:
        return ("e", int(m.group(1)), m.group(2)), pos
    c, n = t[0], t[1:]
    if c in "su":
        return (c, int(n)), pos
    if c == "p":
        b, pos = ty_parse(toks, pos)
        return ("p", int(n), b), pos
    if c == "a":
        ln, pq = toks[pos], int(toks[pos + 1])
        b, pos = ty_parse(toks, pos + 2)
        return ("a", int(n), ln, pq, b), pos
    if c == "f":
        v, cnt = int(toks[pos]), int(toks[pos + 1])
        r, pos = ty_parse(toks, pos + 2)
        ps = []
        for _ in range(cnt):
            p, pos = ty_parse(toks, pos)
            ps.append(p)
        return ("f", int(n), v, r, tuple(ps)), pos
    raise ValueError("bad type token %r" % t)


def ty_of(s):
    a, pos = ty_parse(s.split())
    assert pos == len(s.split()), s
    return a


def ty_show(a):
    k = a[0]
    if k in ("void", "nullptr"):
        return k
    if k == "b":
        return a[1]
    if k == "e":
        return "e%d:%s" % (a[1], a[2])
    if k in "su":
        return "%s%d" % (k, a[1])
    if k == "p":
        return "p%d %s" % (a[1], ty_show(a[2]))
    if k == "a":
        return "a%d %s %d %s" % (a[1], a[2], a[3], ty_show(a[4]))
    if k == "f":
        return "f%d %d %d %s%s" % (a[1], a[2], len(a[4]), ty_show(a[3]), "".join(" " + ty_show(p) for p in a[4]))
    raise ValueError(a)


def qstr(q):
    return " ".join(w for b, w in ((1, "const"), (2, "restrict"), (4, "volatile")) if q & b)


def cdecl(a, q=0, inner=""):
    """C declaration of `inner` with type `a` whose own qualifiers are q."""
    k = a[0]
    qs = qstr(q)
    if k in ("void", "b", "e", "s", "u", "nullptr"):
        name = {"void": "void", "nullptr": "typeof(nullptr)"}.get(k) or (
            CNAME[a[1]] if k == "b" else ENUMS[a[1]][0] if k == "e" else ("struct S%d" % a[1] if k == "s" else "union U%d" % a[1]))
        return " ".join(x for x in (qs, name, inner) if x)
    if k == "p":
        base = a[2]
        s = "*" + (qs + " " if qs else "") + inner
        if base[0] in ("a", "f"):
            s = "(" + s + ")"
        return cdecl(base, a[1], s)
    if k == "a":
        ln = "" if a[2] == "-" else a[2]
        return cdecl(a[4], a[1] | q, "%s[%s]" % (inner, ln))
    if k == "f":
        ps = [cdecl(p) for p in a[4]]
        if a[2]:
            ps.append("...")
        return cdecl(a[3], a[1], "%s(%s)" % (inner, ", ".join(ps) if ps else "void"))
    raise ValueError(a)


def sizeof(a):
    k = a[0]
    if k == "b":
        return SIZE[a[1]]
    if k == "e":
        return SIZE[a[2]]
    if k in ("p", "nullptr"):
        return 8
    if k == "a":
        return None if a[2] in "-*" else int(a[2]) * (sizeof(a[4]) or 0)
    if k in "su":
        return STRUCT_SIZE.get((k, a[1]))
    return None


STRUCT_SIZE = {}


# ----------------------------------------------------------------------------- K-A
def hasint_values():
    vs = {0, 1, 2, M64, M64 - 1}
    for k in range(1, 65):
        for d in (-2, -1, 0, 1, 2):
            vs.add(((1 << k) + d) & M64)
            vs.add((M64 + 1 - (1 << k) + d) & M64)
    return sorted(vs)


def ka_atys():
    a = list(BASICS)
    a += ["e1:%s" % b for b in INTS]
    a += ["e2:uint", "e2:int", "e2:long", "e2:ulong", "e2:llong", "e2:char"]
    return a


def rand_type(rng, depth, ids=3):
    """random type in prefix syntax (list of tokens)"""
    r = rng.random()
    if depth <= 0 or r < 0.3:
        c = rng.random()
        if c < 0.55:
            return [rng.choice(BASICS)]
        if c < 0.7:
            return ["e%d:%s" % (rng.choice([1, 2, 3, 4, 11, 12]), rng.choice(["uint", "int", "ulong", "long"]))]
        if c < 0.8:
            return ["void"]
        if c < 0.9:
            return ["s%d" % rng.randrange(ids)]
        return ["u%d" % rng.randrange(ids)]
    if r < 0.6:
        b = rand_type(rng, depth - 1)
        q = rng.choice([0, 0, 0, 1, 4, 5, 2])
        if q & 2 and not b[0].startswith("p"):      # restrict only qualifies pointer types
            q = 0
        return ["p%d" % q] + b
    if r < 0.8:
        b = rand_type(rng, depth - 1)
        while b[0] == "void" or b[0].startswith("f") or (b[0].startswith("a") and b[1] == "-"):
            b = rand_type(rng, depth - 1)
        return ["a%d" % rng.choice([0, 0, 1, 4]), rng.choice(["-", "*", "2", "3", "3"]), str(rng.choice([0, 0, 1])) ] + b
    ret = rand_type(rng, depth - 1)
    while ret[0].startswith("a") or ret[0].startswith("f"):
        ret = rand_type(rng, depth - 1)
    n = rng.choice([0, 1, 1, 2, 3])
    ps = []
    for _ in range(n):
        p = rand_type(rng, depth - 1)
        while p[0] == "void" or p[0].startswith("a") or p[0].startswith("f"):
            p = rand_type(rng, depth - 1)
        ps += p
    return ["f%d" % rng.choice([0, 0, 0, 1]), str(rng.choice([0, 0, 1]) if n else 0), str(n)] + ret + ps


def mutate_type(rng, toks):
    """a near miss: change one token (qualifier, length, basic type, identity, vararg)"""
    toks = list(toks)
    for _ in range(8):
        i = rng.randrange(len(toks))
        t = toks[i]
        if t in SIZE:
            toks[i] = rng.choice(BASICS)
            return toks
        if re.fullmatch(r"[pa]\d", t):
            toks[i] = t[0] + str(rng.choice([0, 1, 4, 5]))
            return toks
        if re.fullmatch(r"[su]\d+", t):
            toks[i] = t[0] + str(rng.randrange(3))
            return toks
        if re.fullmatch(r"e\d+:\w+", t):
            toks[i] = rng.choice(["e1:uint", "e11:uint", "uint", "int", "e2:int"])
            return toks
        if t in ("2", "3") and i > 0 and re.fullmatch(r"a\d", toks[i - 1]):
            toks[i] = rng.choice(["2", "3", "-", "*"])
            return toks
    return toks


def run_ka(ck):
    try:
        h = ck.build_harness("type_h.c", ["type", "targ", "util"])
    except CompileError as e:
        ck.harness_broken("type_h.c", e)
        return
    rng = ck.rng
    atys = ka_atys()
    ints = [a for a in atys if a.split(":")[-1] in INTS]
    wall = ["-"] + [str(w) for w in range(0, 67)]
    wgrid = ["-"] + [str(w) for w in WIDTHS]
    hv = hasint_values()
    lines = []   # (line, kind)
    for tname, _ in TARGETS:
        lines.append(("targ " + tname, "targ"))
        for a in atys:
            for w in wall:
                lines.append(("promote %s %s" % (a, w), "promote"))
        pairs = list(itertools.product(atys, atys))
        grid = list(itertools.product(wgrid, wgrid))
        if ck.quick:
            grid = [g for g in grid if g[0] in ("-", "1", "31", "32", "33", "64") and g[1] in ("-", "1", "31", "32", "33", "64")]
        for a, b in pairs:
            for w1, w2 in grid:
                lines.append(("commonreal %s %s %s %s" % (a, w1, b, w2), "commonreal"))
        for a in ints:
            for v in hv:
                for s in "01":
                    lines.append(("hasint %s %d %s" % (a, v, s), "hasint"))
        # compatibility: every pair of leaf types, then derived random pairs with near misses
        leaves = BASICS + ["void", "nullptr", "e1:uint", "e2:uint", "e1:int", "e3:ulong", "e4:long", "s0", "s1", "u0", "u1"]
        for a, b in itertools.product(leaves, leaves):
            lines.append(("compat %s | %s" % (a, b), "compat"))
        n = 1500 if ck.quick else 12000
        for _ in range(n):
            t1 = rand_type(rng, rng.choice([1, 2, 3, 3]))
            r = rng.random()
            t2 = list(t1) if r < 0.25 else mutate_type(rng, t1) if r < 0.8 else rand_type(rng, 2)
            lines.append(("compat %s | %s" % (" ".join(t1), " ".join(t2)), "compat"))
            lines.append(("compat %s | %s" % (" ".join(t2), " ".join(t1)), "compat"))
        for _ in range(200 if ck.quick else 1500):
            t = rand_type(rng, 2)
            q = 0 if t[0].startswith("f") else rng.choice([0, 1, 4])
            lines.append(("adjust %d %s" % (q, " ".join(t)), "adjust"))
    text = "\n".join(l for l, _ in lines) + "\n"
    env = dict(os.environ, ASAN_OPTIONS="detect_leaks=0:exitcode=77", UBSAN_OPTIONS="exitcode=77:print_stacktrace=1")
    r = subprocess.run([h], input=text, stdout=subprocess.PIPE, stderr=subprocess.PIPE, text=True, env=env)
    out_c = r.stdout.splitlines()
    if len(out_c) != len(lines):
        ck.violation({"kind": "crash", "what": "type_h harness died outside fatal()/assert()",
                      "answered": len(out_c), "asked": len(lines), "stderr": r.stderr[-2000:]})
        return
    out_m = ck.run_drv(text) if ck.drv_ok else None
    # the code's own answers judged by the Spec (valid C11 inputs only)
    spec_q, spec_i = [], []
    cur = None
    for i, ((line, kind), oc) in enumerate(zip(lines, out_c)):
        f = line.split()
        if kind == "targ":
            spec_q.append(line)
            spec_i.append(None)
            continue
        if kind == "promote":
            a, w = f[1], f[2]
            if valid_width(a, w):
                spec_q.append("Spromote %s %s" % (a, w))
                spec_i.append((i, "eq"))
        elif kind == "commonreal":
            a, w1, b, w2 = f[1:5]
            if valid_width(a, w1) and valid_width(b, w2) and oc not in ("fatal", "abort"):
                spec_q.append("Susual %s %s %s %s %s" % (a, w1, b, w2, oc))
                spec_i.append((i, "1"))
        elif kind == "hasint":
            # _Bool included (one value bit) since fix 08f8fa4
            spec_q.append("Srange %s %s %s" % (f[1], f[2], f[3]))
            spec_i.append((i, "eq"))
        elif kind == "compat":
            spec_q.append("S" + line)
            spec_i.append((i, "eq"))
    out_s = ck.run_drv("\n".join(spec_q) + "\n") if ck.drv_ok else []
    hist = {}
    for (line, kind) in lines:
        hist[kind] = hist.get(kind, 0) + 1
    bad_spec = 0
    for sp, so in zip(spec_i, out_s):
        if sp is None:
            continue
        i, how = sp
        line, kind = lines[i]
        oc = out_c[i]
        good = (oc == so) if how == "eq" else (so == "1")
        if not good:
            bad_spec += 1
            targ = last_targ(lines, i)
            ck.violation({"kind": "ka-spec", "target": targ, "call": line, "code_answer": oc,
                          "spec_answer": so if how == "eq" else "usualArith rejects %s" % oc,
                          "model_answer": out_m[i] if out_m else None,
                          "what": "the real %s returns a result C11 does not allow" % kind,
                          "probe": ka_probe(line, targ)})
            if bad_spec >= 3:
                break
    # commonreal on valid C11 operands must not die
    for i, ((line, kind), oc) in enumerate(zip(lines, out_c)):
        if kind == "commonreal" and oc in ("fatal", "abort"):
            f = line.split()
            if valid_width(f[1], f[2]) and valid_width(f[3], f[4]):
                ck.violation({"kind": "ka-fatal", "target": last_targ(lines, i), "call": line, "code_answer": oc,
                              "what": "typecommonreal dies on valid C11 operand types"})
                break
    if out_m is not None and not ck.violations:
        for i, (oc, om) in enumerate(zip(out_c, out_m)):
            if oc != om:
                line, kind = lines[i]
                ck.violation({"kind": "correspondence", "target": last_targ(lines, i), "call": line,
                              "code_answer": oc, "model_answer": om,
                              "what": "type.c and Model/Types.lean disagree although the code's answer satisfies the Spec "
                                      "(or the input is outside the C11 domain): the model no longer describes the code",
                              "theorem": "CprocVerif.C05.%s" % {"promote": "promote_correct", "commonreal": "commonreal_partial",
                                                               "hasint": "hasint_correct", "compat": "compat_sound",
                                                               "adjust": "typeadjust_correct"}.get(kind, kind)}, nofail=True)
                break
    for (line, kind) in lines:
        ck.count(("ka", line) if kind != "hasint" else ("ka", kind, line.split()[1], line.split()[3]), nontrivial=kind != "targ")
    ck.cov["ka_lines"] = hist
    ck.sample({"K-A": [lines[7][0], lines[5000][0], lines[-3][0]], "answers": [out_c[7], out_c[5000], out_c[-3]]})


def last_targ(lines, i):
    while i >= 0:
        if lines[i][1] == "targ":
            return lines[i][0].split()[1]
        i -= 1
    return "x86_64-sysv"


def valid_width(a, w):
    b = a.split(":")[-1]
    if w == "-":
        return True
    if b not in INTS:
        return False
    return 1 <= int(w) <= 8 * SIZE[b]


def ka_probe(line, targ):
    """a C probe that shows the same call through the binary, when there is an easy one"""
    f = line.split()
    if f[0] == "promote" and ":" not in f[1]:
        if f[2] == "-":
            return "%s x; int k = _Generic(+x, int: 1, unsigned: 2, default: 3);  /* -t %s */" % (CNAME[f[1]], targ)
        return "struct { %s f:%s; } s; int k = _Generic(+s.f, int: 1, unsigned: 2, default: 3);  /* -t %s */" % (CNAME[f[1]], f[2], targ)
    if f[0] == "commonreal" and ":" not in f[1] and ":" not in f[3] and f[2] == "-" and f[4] == "-":
        return "%s a; %s b; unsigned long s = sizeof(a + b);  /* -t %s */" % (CNAME[f[1]], CNAME[f[3]], targ)
    return None


# ----------------------------------------------------------------------------- K-B: probe program
class Leaf:
    def __init__(self, c, d, decl=None, tag=None):
        self.c, self.d, self.decl, self.tag = c, d, decl, tag


MEMBERS = [  # struct S1 members: (name, declared C, type prefix, member qualifiers, bits)
    ("m", "int m;", "int", 0, None), ("cm", "const int cm;", "int", 1, None), ("vm", "volatile long vm;", "long", 4, None),
    ("a", "short a[2];", "a0 2 0 short", 0, None), ("ca", "const char ca[3];", "a1 3 0 char", 0, None),
    ("p", "int *p;", "p0 int", 0, None), ("b3", "unsigned b3:3;", "uint", 0, 3), ("in", "struct S2 in;", "s2", 0, None),
]


def preamble():
    d = []
    for i, (n, b, en) in ENUMS.items():
        if en is None:   # C23 fixed underlying type (regression for fix 6d47956)
            d.append("typedef enum : %s { %s_A } %s;" % (CNAME[b], n, n))
        else:
            d.append("typedef enum { %s } %s;" % (en, n))
    d.append("struct S0 { int x; }; struct S2 { int y; const int cy; }; union U0 { int x; long y; }; union U1 { int x; };")
    d.append("struct S1 { %s };" % " ".join(m[1] for m in MEMBERS))
    d.append("struct S3 { char c; };")
    return d


def leaves_arith(quick):
    ls = []
    for b in BASICS:
        ls.append(Leaf("v_%s" % b, "var 0 %s" % b, "%s v_%s;" % (CNAME[b], b), ("basic", b)))
    for i in (1, 2, 3, 4, 5):
        n, b, _ = ENUMS[i]
        ls.append(Leaf("v_%s" % n, "var 0 e%d:%s" % (i, b), "%s v_%s;" % (n, n), ("enum", b)))
    ls.append(Leaf("EU_A", "rv int", None, ("enumconst", "int")))
    bfs = []
    for b in INTS:
        for w in WIDTHS:
            if w > 8 * SIZE[b] or (b == "bool" and w > 1):
                continue
            bfs.append((b, w))
    if quick:
        keep = {("bool", 1), ("uchar", 7), ("schar", 8), ("char", 7), ("ushort", 15), ("ushort", 16), ("short", 16), ("int", 1), ("int", 31),
                ("int", 32), ("uint", 1), ("uint", 31), ("uint", 32), ("long", 31), ("long", 32), ("long", 33), ("ulong", 31),
                ("ulong", 32), ("ulong", 33), ("ulong", 64), ("llong", 63), ("ullong", 32)}
        bfs = [x for x in bfs if x in keep]
    for b, w in bfs:
        ls.append(Leaf("bf_%s_%d.f" % (b, w), "bf 0 %d %s" % (w, b), "struct { %s f:%d; } bf_%s_%d;" % (CNAME[b], w, b, w),
                       ("bitfield", b, w)))
    return ls


def leaves_ptr():
    spec = [("p_i", "p0 int"), ("p_ci", "p1 int"), ("p_vi", "p4 int"), ("p_v", "p0 void"), ("p_cv", "p1 void"),
            ("p_c", "p0 char"), ("p_u", "p0 uint"), ("p_l", "p0 long"), ("p_a3", "p0 a0 3 0 int"), ("p_ai", "p0 a0 - 0 int"),
            ("p_f", "p0 f0 0 1 int int"), ("p_s", "p0 s1"), ("p_cs", "p1 s1"), ("pp", "p0 p0 int"), ("p_eu", "p0 e1:uint"),
            ("arr", "a0 3 0 int"), ("carr", "a1 2 0 int"), ("arr2", "a0 2 0 a0 3 0 int"),
            ("fn", "f0 0 1 int int"), ("fs", "f0 0 0 short"), ("fv", "f0 1 1 int int"), ("fp_ret", "f0 0 0 p1 char")]
    ls = []
    for n, t in spec:
        a = ty_of(t)
        ext = "extern " if a[0] == "a" else ""
        ls.append(Leaf(n, "var 0 %s" % t, ext + cdecl(a, 0, n) + ";", ("ptr", t)))
    ls.append(Leaf("s1", "var 0 s1", "struct S1 s1;", ("struct", "s1")))
    ls.append(Leaf("cs1", "var 1 s1", "extern const struct S1 cs1;", ("struct", "s1")))
    ls.append(Leaf("vs1", "var 4 s1", "volatile struct S1 vs1;", ("struct", "s1")))
    ls.append(Leaf("u0", "var 0 u0", "union U0 u0;", ("union", "u0")))
    return ls


class Probe:
    __slots__ = ("c", "d", "cls", "model", "noclang", "note")

    def __init__(self, c, d, cls, noclang=False, note=None):
        self.c, self.d, self.cls, self.noclang, self.note = c, d, cls, noclang, note
        self.model = None


def gen_probes(ck, quick):
    rng = ck.rng
    A = leaves_arith(quick)
    P = leaves_ptr()
    probes = []
    add = probes.append
    zero = Leaf("0", "int 0 1 -")
    npc = Leaf("(void*)0", "cast p0 void int 0 1 -")
    c_nc = Leaf("c", "var 0 int")     # non-constant condition
    # (1) every operator x every pair of arithmetic operands (variables, enums, bit-fields)
    for op, cop in BINOPS.items():
        for l in A:
            for r in A:
                add(Probe("%s %s %s" % (l.c, cop, r.c), "bin %s %s %s" % (op, l.d, r.d), ("bin", op, l.tag[0], r.tag[0])))
    # (2) unary operators, sizeof/_Alignof
    for l in A:
        for op, cop in UNOPS.items():
            add(Probe("%s%s" % (cop, l.c), "un %s %s" % (op, l.d), ("un", op, l.tag[0])))
        if l.tag[0] != "bitfield":
            add(Probe("sizeof %s" % l.c, "un sizeof %s" % l.d, ("un", "sizeof", l.tag[0])))
            add(Probe("sizeof(%s)" % l.c, "un sizeof %s" % l.d, ("un", "sizeof", l.tag[0])))
        if l.decl and l.tag[0] != "enumconst":
            bf = l.tag[0] == "bitfield"
            add(Probe("%s++" % l.c, "un postinc %s" % l.d, ("un", "postinc", l.tag[0]), noclang=bf))
            add(Probe("--%s" % l.c, "un predec %s" % l.d, ("un", "predec", l.tag[0]), noclang=bf))
            add(Probe("(%s = 1)" % l.c, "asg %s int 1 1 -" % l.d, ("asg", l.tag[0]), noclang=bf))
            add(Probe("(%s += 1)" % l.c, "opasg add %s int 1 1 -" % l.d, ("opasg", "add", l.tag[0]), noclang=bf))
            add(Probe("(0, %s)" % l.c, "comma int 0 1 - %s" % l.d, ("comma", l.tag[0]), noclang=bf))
            # documented deviation D4: width is not propagated through assignment/comma
            if bf:
                add(Probe("(%s = 1) + 0" % l.c, "bin add asg %s int 1 1 - int 0 1 -" % l.d, ("D4", "asg"), noclang=True))
                add(Probe("(0, %s) + 0" % l.c, "bin add comma int 0 1 - %s int 0 1 -" % l.d, ("D4", "comma"), noclang=True))
    # (2b) the assignment OPERATOR with every kind of left operand against every kind of right operand
    # (6.5.16.1: pointer <- integer / floating / incompatible pointer / qualifier loss / struct, struct <- other
    # struct, arithmetic <- pointer / struct, ...): mostly invalid, so these are the probes of the accept/reject
    # comparison (the type of the valid ones is compared like that of every other probe)
    # (struct S1 has a const member, so an S1 object is no modifiable lvalue: 6.3.2.1p1 -- cproc does not check that)
    lhs = [l for l in P if l.tag[1].startswith("p") or l.tag[0] == "union"]
    lhs = [l for l in lhs if not l.d.startswith("var 1") and not l.d.startswith("var 4")]     # not const/volatile objects
    arith_some = [a for a in A if a.decl and a.tag[0] != "bitfield"]
    arith_some = arith_some[::max(1, len(arith_some) // 6)][:6]
    for l in lhs + arith_some:
        for r in P + arith_some + [zero, npc]:
            add(Probe("(%s = %s)" % (l.c, r.c), "asg %s %s" % (l.d, r.d), ("asg2", l.tag[0], r.tag[0] if r.tag else "const")))
    for b in BASICS + ["void*"]:
        t = "p0 void" if b == "void*" else b
        cn = "void *" if b == "void*" else CNAME[b]
        add(Probe("sizeof(%s)" % cn, "sizeoft %s" % t, ("sizeoft", b)))
        add(Probe("_Alignof(%s)" % cn, "sizeoft %s" % t, ("alignoft", b)))
    # (3) ?: -- non-constant and constant condition
    for l in A:
        for r in A:
            add(Probe("c ? %s : %s" % (l.c, r.c), "cond %s %s %s" % (c_nc.d, l.d, r.d), ("cond", l.tag[0], r.tag[0])))
    for l in A:
        add(Probe("1 ? %s : %s" % (l.c, l.c), "cond int 1 1 - %s %s" % (l.d, l.d), ("cond-const", l.tag[0])))
        add(Probe("0 ? v_int : %s" % l.c, "cond int 0 1 - var 0 int %s" % l.d, ("cond-const", l.tag[0])))
    # (4) casts
    for b in BASICS:
        for l in rng.sample(A, 6) + [zero]:
            add(Probe("(%s)%s" % (CNAME[b], l.c), "cast %s %s" % (b, l.d), ("cast", b)))
    for i in (1, 2):
        add(Probe("(%s)v_long" % ENUMS[i][0], "cast e%d:%s var 0 long" % (i, ENUMS[i][1]), ("cast", "enum")))
    add(Probe("(const int)v_long", "cast int var 0 long", ("cast", "qualified")))
    add(Probe("(int *)p_v", "cast p0 int var 0 p0 void", ("cast", "ptr")))
    add(Probe("(long)p_i", "cast long var 0 p0 int", ("cast", "ptr")))
    # (5) literals around every limit, every base and suffix; character constants
    lims = sorted({0, 1, 2**31 - 1, 2**31, 2**32 - 1, 2**32, 2**63 - 1, 2**63, 2**64 - 1, 2**15, 2**16, 255, 2**31 + 1, 2**63 + 1})
    sfx = ["", "u", "U", "l", "L", "ul", "uL", "Ul", "UL", "lu", "LU", "ll", "LL", "ull", "uLL", "ULL", "llu", "LLU", "llU"]
    for v in lims:
        for base, fmt in (("dec", "%d"), ("hex", "0x%x"), ("oct", "0%o"), ("bin", "0b%s")):
            for s in sfx:
                txt = (fmt % v if base != "bin" else "0b" + bin(v)[2:]) + s
                if base == "oct" and v == 0:
                    txt = "0" + s
                add(Probe(txt, "int %d %d %s" % (v, 1 if base == "dec" else 0, s or "-"), ("lit", base, s.lower()),
                          noclang=base == "bin"))
    for s, txt in (("", "1.5"), ("f", "1.5f"), ("F", "1e3F"), ("l", "1.5l"), ("L", "0x1p3L"), ("", "0x1.8p1"), ("", "1e10"), ("f", ".5f")):
        add(Probe(txt, "flt %s" % (s or "-"), ("flt", s.lower())))
    for p, txt in (("none", "'a'"), ("L", "L'a'"), ("u", "u'a'"), ("U", "U'a'"), ("u8", "u8'a'"), ("none", "'\\377'"), ("L", "L'\\x80'")):
        add(Probe(txt, "chr %s" % p, ("chr", p), noclang=p == "u8"))   # clang-14 has no u8 character constants
    # (6) pointers: arithmetic, difference, comparison, equality, logical, conditional
    ptrs = [p for p in P if p.tag[0] == "ptr"]
    ints = [a for a in A if a.tag[0] in ("basic", "enum") and a.tag[1] not in ("float", "double", "ldouble")][:16] + \
           [a for a in A if a.tag[0] == "bitfield"][:3]
    for p in ptrs:
        for i in ints:
            for op in ("add", "sub"):
                add(Probe("%s %s %s" % (p.c, BINOPS[op], i.c), "bin %s %s %s" % (op, p.d, i.d), ("ptr", op, "ptr-int")))
            add(Probe("%s + %s" % (i.c, p.c), "bin add %s %s" % (i.d, p.d), ("ptr", "add", "int-ptr")))
        add(Probe("%s[1]" % p.c, "idx %s int 1 1 -" % p.d, ("ptr", "index")))
        add(Probe("1[%s]" % p.c, "idx int 1 1 - %s" % p.d, ("ptr", "index")))
        add(Probe("*%s" % p.c, "un deref %s" % p.d, ("ptr", "deref")))
        add(Probe("&%s" % p.c, "un addr %s" % p.d, ("ptr", "addr")))
        add(Probe("!%s" % p.c, "un lnot %s" % p.d, ("ptr", "lnot")))
        add(Probe("%s" % p.c, p.d, ("ptr", "decay")))
        add(Probe("sizeof %s" % p.c, "un sizeof %s" % p.d, ("ptr", "sizeof")))
        add(Probe("&*%s" % p.c, "un addr un deref %s" % p.d, ("ptr", "addr-deref")))
        add(Probe("(%s, %s)" % ("v_int", p.c), "comma var 0 int %s" % p.d, ("ptr", "comma")))
        for q in ptrs:
            for op in ("sub", "less", "geq", "eql", "neq", "land", "lor"):
                add(Probe("%s %s %s" % (p.c, BINOPS[op], q.c), "bin %s %s %s" % (op, p.d, q.d), ("ptr", op, "ptr-ptr")))
            add(Probe("c ? %s : %s" % (p.c, q.c), "cond %s %s %s" % (c_nc.d, p.d, q.d), ("ptr", "cond")))
        for z in (zero, npc):
            add(Probe("%s == %s" % (p.c, z.c), "bin eql %s %s" % (p.d, z.d), ("ptr", "eql", "npc")))
            add(Probe("%s != %s" % (z.c, p.c), "bin neq %s %s" % (z.d, p.d), ("ptr", "neq", "npc")))
            add(Probe("c ? %s : %s" % (p.c, z.c), "cond %s %s %s" % (c_nc.d, p.d, z.d), ("ptr", "cond-npc")))
            add(Probe("c ? %s : %s" % (z.c, p.c), "cond %s %s %s" % (c_nc.d, z.d, p.d), ("ptr", "cond-npc")))
        add(Probe("c ? (const void*)0 : %s" % p.c, "cond %s cast p1 void int 0 1 - %s" % (c_nc.d, p.d), ("npc-qualified-void",)))
    add(Probe("c ? s1 : s1", "cond %s var 0 s1 var 0 s1" % c_nc.d, ("cond", "struct")))
    add(Probe("c ? (void)0 : (void)1", "cond %s cast void int 0 1 - cast void int 1 1 -" % c_nc.d, ("cond", "void")))
    # (7) member access on qualified aggregates; calls
    for obj, od in (("s1", "var 0 s1"), ("cs1", "var 1 s1"), ("vs1", "var 4 s1"), ("(*p_s)", "un deref var 0 p0 s1"),
                    ("(*p_cs)", "un deref var 0 p1 s1")):
        for (mn, _, mt, mq, bits) in MEMBERS:
            e = "mem 0 %d %s %s %s" % (mq, bits or "-", mt, od)
            if bits is None:
                add(Probe("&%s.%s" % (obj, mn), "un addr " + e, ("member", "dot-addr", mn)))
            add(Probe("%s.%s" % (obj, mn), e, ("member", "dot", mn)))
            add(Probe("+%s.%s" % (obj, mn) if mt in ("int", "long", "uint") else "%s.%s" % (obj, mn),
                      ("un plus " + e) if mt in ("int", "long", "uint") else e, ("member", "dot-plus", mn)))
    for ptr, pd in (("p_s", "var 0 p0 s1"), ("p_cs", "var 0 p1 s1"), ("(&vs1)", "un addr var 4 s1")):
        for (mn, _, mt, mq, bits) in MEMBERS:
            e = "mem 1 %d %s %s %s" % (mq, bits or "-", mt, pd)
            if bits is None:
                add(Probe("&%s->%s" % (ptr, mn), "un addr " + e, ("member", "arrow-addr", mn)))
            add(Probe("%s->%s" % (ptr, mn), e, ("member", "arrow", mn)))
    add(Probe("s1.in.cy", "mem 0 1 - int mem 0 0 - s2 var 0 s1", ("member", "nested")))
    add(Probe("&cs1.in.y", "un addr mem 0 0 - int mem 0 0 - s2 var 1 s1", ("member", "nested")))
    add(Probe("fn(1)", "call 1 var 0 f0 0 1 int int int 1 1 -", ("call", "int")))
    add(Probe("fs()", "call 0 var 0 f0 0 0 short", ("call", "short")))
    add(Probe("fs() + fs()", "bin add call 0 var 0 f0 0 0 short call 0 var 0 f0 0 0 short", ("call", "short")))
    add(Probe("fv(1, 2.0f, v_char)", "call 3 var 0 f0 1 1 int int int 1 1 - flt f var 0 char", ("call", "vararg")))
    add(Probe("p_f(2)", "call 1 var 0 p0 f0 0 1 int int int 2 1 -", ("call", "ptr")))
    add(Probe("(*p_f)(2)", "call 1 un deref var 0 p0 f0 0 1 int int int 2 1 -", ("call", "ptr")))
    add(Probe("fp_ret()", "call 0 var 0 f0 0 0 p1 char", ("call", "ptr-ret")))
    add(Probe("*fp_ret()", "un deref call 0 var 0 f0 0 0 p1 char", ("call", "ptr-ret")))
    # (8) random nested arithmetic/pointer expressions, depth <= 4
    pool = [a for a in A if a.tag[0] != "enumconst"] + [p for p in ptrs if p.c in ("p_i", "p_ci", "p_c", "p_l", "arr", "pp", "p_v")]

    def rnd(depth):
        if depth == 0 or rng.random() < 0.2:
            r = rng.random()
            if r < 0.12:
                v = rng.choice(lims)
                s = rng.choice(["", "u", "l", "ul", "ll", "ull"])
                dec = rng.random() < 0.5
                return ("%d%s" % (v, s) if dec else "0x%x%s" % (v, s)), "int %d %d %s" % (v, 1 if dec else 0, s or "-"), True
            l = rng.choice(pool)
            return l.c, l.d, False
        r = rng.random()
        if r < 0.55:
            op = rng.choice(list(BINOPS))
            a, b = rnd(depth - 1), rnd(depth - 1)
            return "(%s %s %s)" % (a[0], BINOPS[op], b[0]), "bin %s %s %s" % (op, a[1], b[1]), a[2] and b[2]
        if r < 0.7:
            op = rng.choice(list(UNOPS))
            a = rnd(depth - 1)
            return "(%s%s)" % (UNOPS[op], a[0]), "un %s %s" % (op, a[1]), a[2]
        if r < 0.85:
            a, b = rnd(depth - 1), rnd(depth - 1)
            return "(c ? %s : %s)" % (a[0], b[0]), "cond %s %s %s" % (c_nc.d, a[1], b[1]), False
        if r < 0.95:
            b = rng.choice(BASICS)
            a = rnd(depth - 1)
            return "((%s)%s)" % (CNAME[b], a[0]), "cast %s %s" % (b, a[1]), a[2]
        a, b = rnd(depth - 1), rnd(depth - 1)
        return "(%s, %s)" % (a[0], b[0]), "comma %s %s" % (a[1], b[1]), False
    n = 3000 if quick else 40000
    for _ in range(n):
        c, d, const = rnd(rng.choice([2, 3, 4, 4]))
        if const:      # all-constant trees fold: null-pointer-constant-ness is the model's blind spot
            continue
        # deviation D4: clang carries the bit-field width through the comma operator
        add(Probe(c, d, ("nested",), noclang=bool(re.search(r", bf_\w+\.f\)", c))))
    decls = preamble() + [l.decl for l in A + P if l.decl] + ["int c;"]
    return probes, decls


GENERIC_LIST = ", ".join("%s: %d" % (CNAME[b], i + 1) for i, b in enumerate(BASICS))


def model_types(ck, targ, probes):
    lines = ["targ " + targ] + ["typeof " + p.d for p in probes]
    out = ck.run_drv("\n".join(lines) + "\n")
    if out[0] != "ok" or len(out) != len(lines):
        raise Broken("drv_c05 protocol error: %r" % out[:2])
    for p, o in zip(probes, out[1:]):
        if o == "bad-op":
            raise Broken("drv_c05 cannot parse %r" % p.d)
        if o == "error":
            p.model = None
            continue
        m = re.fullmatch(r"(.*) q=(\d) lv=([01]) w=(\S+) nc=([01]) dk=([01]) ok=([01])", o)
        p.model = {"ty": ty_of(m.group(1)), "q": int(m.group(2)), "lv": m.group(3) == "1", "w": m.group(4),
                   "dk": m.group(6) == "1", "ok": m.group(7) == "1", "txt": m.group(1)}


def twin_type(a):
    """a type that is compatible with `a` iff `a` is the basic type (not the enum type object):
    the twin enum over the same base; None if no such discriminator exists"""
    if a[0] == "b" and a[1] in ("uint", "int", "ulong", "long", "llong"):
        i = {"uint": 11, "int": 12, "ulong": 13, "long": 14, "llong": 15}[a[1]]
        return ("e", i, a[1]), 1
    if a[0] == "e" and a[1] in TWIN:
        return ("e", TWIN[a[1]], a[2]), 0
    return None, None


def kb_source(probes, decls, idx):
    """C text: one probe = lines k<i>, s<i>, t<i>, d<i>"""
    out = list(decls)
    linemap = {}
    for i in idx:
        p = probes[i]
        a = p.model["ty"]
        e = p.c
        if a[0] in ("void",):
            out.append("int T_%d = __builtin_types_compatible_p(typeof(%s), void);" % (i, e))
            linemap[len(out)] = i
            continue
        out.append("int K_%d = _Generic((%s), %s, default: 99);" % (i, e, GENERIC_LIST))
        linemap[len(out)] = i
        if sizeof(a) is not None and not p.model["w"].isdigit() and a[0] != "f" and not p.model["dk"]:
            out.append("unsigned long Z_%d = sizeof(%s);" % (i, e))
            linemap[len(out)] = i
        if p.model["dk"]:   # typeof() looks through the decay; _Generic sees the pointer
            out.append("int T_%d = _Generic((%s), %s: 1, default: 0);" % (i, e, cdecl(a)))
        else:
            out.append("int T_%d = __builtin_types_compatible_p(typeof(%s), %s);" % (i, e, cdecl(a)))
        linemap[len(out)] = i
        tw, _ = twin_type(a)
        if tw:
            out.append("int D_%d = __builtin_types_compatible_p(typeof(%s), %s);" % (i, e, cdecl(tw)))
            linemap[len(out)] = i
    return "\n".join(out) + "\n", linemap


DATA_RE = re.compile(r"data \$([KZTD])_(\d+) = align \d+ \{ [wlbh] (-?\d+)")


def run_cproc(cc, targ, path):
    r = subprocess.run([cc, "-t", targ, path], stdout=subprocess.PIPE, stderr=subprocess.PIPE, text=True)
    return r.returncode, r.stdout, r.stderr


def normalized(a):
    """no qualifier set attached to an array type (mirror of Spec.normalize a = a)"""
    k = a[0]
    if k == "p":
        return not (a[1] and a[2][0] == "a") and normalized(a[2])
    if k == "a":
        return not (a[1] and a[4][0] == "a") and normalized(a[4])
    if k == "f":
        return normalized(a[3]) and all(normalized(x) for x in a[4])
    return True


def add_elem_qual(q, a):
    if a[0] != "a":
        return a
    if a[4][0] == "a":
        return ("a", 0, a[2], a[3], add_elem_qual(a[1] | q, a[4]))
    return ("a", a[1] | q, a[2], a[3], a[4])


def normalize(a):
    """mirror of Spec.normalize: qualifiers of an array type belong to its element type"""
    k = a[0]
    if k == "p":
        b = normalize(a[2])
        return ("p", 0, add_elem_qual(a[1], b)) if b[0] == "a" else ("p", a[1], b)
    if k == "a":
        e = normalize(a[4])
        return ("a", 0, a[2], a[3], add_elem_qual(a[1], e)) if e[0] == "a" else ("a", a[1], a[2], a[3], e)
    if k == "f":
        return ("f", a[1], a[2], normalize(a[3]), tuple(normalize(x) for x in a[4]))
    return a


def classify(p):
    """finding id of a probe class that is a known/reported deviation, else None"""
    if p.model and not normalized(p.model["ty"]):
        # cproc attaches qualifiers to an array type itself instead of its element type (6.7.3p9)
        return "qualified-array-type"
    return None


def run_kb(ck):
    cc = ck.build_cproc_qbe()
    d = os.path.join(ck.scratch(), "kb")
    os.makedirs(d, exist_ok=True)
    probes, decls = gen_probes(ck, ck.quick)
    hist = {}
    reported = set()
    stats = {"probes": 0, "observed": 0, "spec_invalid_skipped": 0, "model_error_skipped": 0, "accepted_invalid": 0,
             "rejected_by_cproc": 0, "clang_checked": 0, "D4_deviation": 0}
    for targ, triple in TARGETS:
        model_types(ck, targ, probes)
        idx = []
        for i, p in enumerate(probes):
            if p.model is None:
                stats["model_error_skipped"] += 1
            elif not p.model["ok"]:
                # the model types it but the Spec does not allow it: either an invalid expression
                # cproc accepts (constraint checking is C10) or a Spec/model disagreement on a valid
                # one -- the latter would contradict the theorems, so look at it through clang below
                stats["spec_invalid_skipped"] += 1
                key = "/".join(str(x) for x in p.cls[:2])
                inv = stats.setdefault("spec_invalid_classes", {})
                inv[key] = inv.get(key, 0) + 1
                p.model["skip"] = True
            else:
                idx.append(i)
        # accept/reject agreement on the probes that are NOT compared type-wise: the model answers `error`
        # (mkbinaryexpr & co. call error()) or types an expression the Spec does not allow.  Whether rejecting
        # is right is property C10; here only: does the model's accept/reject decision describe the code?
        if targ == TARGETS[0][0]:
            acceptance_agreement(ck, cc, d, targ, probes, decls, stats)
        # compile, dropping probes cproc rejects (each one is examined)
        rejected = []
        for attempt in range(40):
            src, linemap = kb_source(probes, decls, idx)
            path = os.path.join(d, "p_%s.c" % targ)
            open(path, "w").write(src)
            rc, out, err = run_cproc(cc, targ, path)
            if rc == 0:
                break
            m = re.search(r":(\d+):\d+: error: (.*)", err)
            if not m or int(m.group(1)) not in linemap:
                raise Broken("cproc-qbe failed on the probe preamble: %s" % err[-400:])
            bad = linemap[int(m.group(1))]
            rejected.append((bad, m.group(2)))
            idx.remove(bad)
        else:
            raise Broken("too many probes rejected by cproc-qbe: %s" % rejected[:5])
        for bad, msg in rejected:
            p = probes[bad]
            stats["rejected_by_cproc"] += 1
            ck.violation({"kind": "kb-rejected", "target": targ, "expr": p.c, "model_type": p.model["txt"], "stderr": msg,
                          "program": "\n".join(decls) + "\nint k = _Generic((%s), int: 1, default: 2);" % p.c,
                          "what": "cproc rejects an expression the model types and the Spec allows"})
        obs = {}
        for m in DATA_RE.finditer(out):
            obs.setdefault(int(m.group(2)), {})[m.group(1).lower().replace("z", "s")] = int(m.group(3))
        bad_n = 0
        for i in idx:
            p = probes[i]
            a = p.model["ty"]
            o = obs.get(i)
            stats["probes"] += 1
            ck.count((targ,) + p.cls + (p.model["txt"],))
            hist[p.cls[0]] = hist.get(p.cls[0], 0) + 1
            if o is None:
                raise Broken("no data emitted for probe %d (%s)" % (i, p.c))
            stats["observed"] += 1
            want = {}
            if a[0] != "void":
                want["k"] = BASICS.index(a[1] if a[0] == "b" else a[2]) + 1 if a[0] in "be" else 99
            if "s" in o:
                want["s"] = sizeof(a)
            want["t"] = 1
            tw, twv = twin_type(a)
            if tw:
                want["d"] = twv
            diff = {k: (o.get(k), v) for k, v in want.items() if o.get(k) != v}
            fid = classify(p)
            if p.cls[0] == "D4":
                stats["D4_deviation"] += 1
            if fid == "qualified-array-type":
                # the model's AST is the code's AST; rendered as C (qualifiers on the element type) it is
                # the type C11 specifies, which cproc does not consider compatible with its own
                if set(diff) <= {"t"}:
                    stats["qualified_array_type"] = stats.get("qualified_array_type", 0) + 1
                    if fid in reported:
                        continue
                    reported.add(fid)
                    ck.report({"kind": "kb-type", "target": targ, "expr": p.c, "code_type": p.model["txt"], "c11_type": cdecl(a),
                               "program": "struct S { short a[2]; }; const struct S cs;\nconst short (*p)[2] = &cs.a;\n",
                               "what": "a const/volatile-qualified array is not treated as an array of qualified elements (6.7.3p9): "
                                       "pointer to it is incompatible with the declared pointer-to-array type"}, fid=fid)
                    continue
            if diff:
                bad_n += 1
                stats["mismatches"] = stats.get("mismatches", 0) + 1
                if bad_n > 3:
                    continue
                # what does the Spec say about the type the code really chose?
                obs_ty = BASICS[o["k"] - 1] if 1 <= o.get("k", 0) <= 15 else None
                ck.violation({"kind": "kb-type", "target": targ, "expr": p.c, "class": list(p.cls),
                              "model_type": p.model["txt"], "spec_accepts_model_type": p.model["ok"],
                              "observed": o, "expected": want, "observed_basic_type": obs_ty,
                              "program": probe_program(decls, p),
                              "what": "the type cproc gives this expression differs from the model's (which the Spec %s)"
                                      % ("accepts: so the code's type is not the one C11 specifies" if p.model["ok"] else "rejects")},
                             nofail=False if p.model["ok"] else True)
        if bad_n or rejected:
            break
        # Spec validation through clang (can only mark the check broken)
        cl = [i for i in idx if not probes[i].noclang and classify(probes[i]) is None]
        if ck.quick and len(cl) > 25000:
            cl = ck.rng.sample(cl, 25000)
        lines = list(decls)
        amap = {}
        for i in cl:
            p = probes[i]
            a = p.model["ty"]
            if a[0] in ("void", "f") or p.model["w"].isdigit():
                continue
            if a[0] == "a" and a[2] in "-*":
                continue
            lines.append('_Static_assert(_Generic((%s), %s: 1, default: 0), "P%d");' % (p.c, cdecl(a), i))
            amap[len(lines)] = i
            tw, twv = twin_type(a)
            # (clang gives an enumeration wider than int its underlying type under promotion, where the C11
            # text says "unchanged": the identity of a wide enum result is not validated against clang)
            if tw and a[0] != "e":
                lines.append('_Static_assert(_Generic((%s), %s: 1, default: 0) == %d, "P%d");' % (p.c, cdecl(tw), twv, i))
                amap[len(lines)] = i
        cpath = os.path.join(d, "v_%s.c" % targ)
        open(cpath, "w").write("\n".join(lines) + "\n")
        r = subprocess.run(["clang", "--target=" + triple, "-std=gnu2x", "-fsyntax-only", "-w", "-ferror-limit=0", cpath],
                           stdout=subprocess.PIPE, stderr=subprocess.PIPE, text=True)
        stats["clang_checked"] += len(amap)
        errs = re.findall(r":(\d+):\d+: error: (.*)", r.stderr)
        if errs:
            ln, msg = errs[0]
            i = amap.get(int(ln))
            raise Broken("Spec/Conv.lean disagrees with clang --target=%s on %r (spec type %s): %s [%d disagreements]"
                         % (triple, probes[i].c if i is not None else "?", probes[i].model["txt"] if i is not None else "?",
                            msg, len(errs)))
    ck.cov["kb_stats"] = stats
    ck.cov["kb_histogram"] = hist
    hard = bool(stats["rejected_by_cproc"] or stats.get("mismatches"))
    ck.sample({"K-B probe": probes[100].c, "driver": probes[100].d, "model": probes[100].model and probes[100].model["txt"]})
    ck.sample({"K-B probe": probes[-5].c, "driver": probes[-5].d, "model": probes[-5].model and probes[-5].model["txt"]})
    return hard


def acceptance_agreement(ck, cc, d, targ, probes, decls, stats):
    sel = [i for i, p in enumerate(probes) if p.model is None or not p.model["ok"]]
    if len(sel) > 6000:
        sel = ck.rng.sample(sel, 6000)
    dd = os.path.join(d, "acc")
    os.makedirs(dd, exist_ok=True)
    for i in sel:
        with open(os.path.join(dd, "%d.c" % i), "w") as f:
            f.write("\n".join(decls) + "\nint A_%d = __builtin_types_compatible_p(typeof(%s), int);\n" % (i, probes[i].c))
    script = 'for f; do "$CC" -t "$TARG" "$f" >/dev/null 2>"$f.err"; echo "$f $?"; done'
    names = "".join(os.path.join(dd, "%d.c" % i) + "\n" for i in sel)
    r = subprocess.run(["xargs", "-P", str(common.NPROC), "-n", "48", "sh", "-c", script, "sh"], input=names,
                       stdout=subprocess.PIPE, stderr=subprocess.PIPE, text=True, env=dict(os.environ, CC=cc, TARG=targ))
    rc = {}
    for ln in r.stdout.splitlines():
        f, c = ln.rsplit(" ", 1)
        rc[int(os.path.basename(f)[:-2])] = int(c)
    if len(rc) != len(sel):
        raise Broken("acceptance run lost results: %d of %d" % (len(rc), len(sel)))
    agree = {"model_error_code_rejects": 0, "model_types_code_accepts": 0}
    bad = 0
    for i in sel:
        p = probes[i]
        ck.count(("accept", targ) + p.cls)
        err = open(os.path.join(dd, "%d.c.err" % i)).read()
        if rc[i] not in (0, 1):
            raise Broken("cproc-qbe status %d on %r: %s" % (rc[i], p.c, err[-200:]))
        if (p.model is None) == (rc[i] != 0):
            agree["model_error_code_rejects" if p.model is None else "model_types_code_accepts"] += 1
            continue
        bad += 1
        if bad > 3:
            continue
        ck.violation({"kind": "kb-accept", "target": targ, "expr": p.c, "class": list(p.cls),
                      "model": "error" if p.model is None else p.model["txt"], "code": "rejects: " + err.strip()[-200:] if rc[i] else "accepts",
                      "program": "\n".join(decls) + "\nint A = __builtin_types_compatible_p(typeof(%s), int);\n" % p.c,
                      "theorem": "Model/Types.lean no longer describes which expressions expr.c accepts",
                      "what": "the model %s this expression, cproc-qbe %s it" %
                              (("rejects", "accepts") if p.model is None else ("types", "rejects"))}, nofail=True)
    agree["disagreements"] = bad
    stats["acceptance_agreement"] = agree
    import shutil
    shutil.rmtree(dd, True)


def probe_program(decls, p):
    return "\n".join(decls) + "\nint k = _Generic((%s), %s, default: 99);\n" % (p.c, GENERIC_LIST)


# ----------------------------------------------------------------------------- K-B: compatibility
def kb_ctype_ok(toks):
    """types expressible at file scope in the probe programs"""
    s = " ".join(toks)
    if "*" in toks or "nullptr" in toks:
        return False
    if any(re.fullmatch(r"[paf][2367]", t) for t in toks):   # restrict is exercised in K-A only
        return False
    try:
        a = ty_of(s)
    except Exception:
        return False

    def ok(a, top):
        k = a[0]
        if k == "e":
            return a[1] in ENUMS and ENUMS[a[1]][1] == a[2]
        if k == "a":
            return ok(a[4], False) and a[4][0] not in ("void", "f") and not (a[4][0] == "a" and a[4][2] == "-")
        if k == "p":
            return ok(a[2], False) and not (a[2][0] == "f" and a[1])   # no qualified function types
        if k == "f":
            return ok(a[3], False) and all(ok(x, False) and x[0] not in ("void", "a", "f") for x in a[4]) and a[3][0] not in ("a", "f")
        if k == "s":
            return a[1] < 3
        if k == "u":
            return a[1] < 2
        return True
    return ok(a, True)


def strip_ptrqual(a):
    """array `[q]` qualifiers only exist in parameter declarations: drop them"""
    k = a[0]
    if k == "p":
        return ("p", a[1], strip_ptrqual(a[2]))
    if k == "a":
        return ("a", a[1], a[2], 0, strip_ptrqual(a[4]))
    if k == "f":
        return ("f", a[1], a[2], strip_ptrqual(a[3]), tuple(strip_ptrqual(x) for x in a[4]))
    return a


def fix_enum(rng, toks):
    out = []
    for t in toks:
        m = re.fullmatch(r"e(\d+):(\w+)", t)
        if m:
            i = rng.choice([1, 2, 3, 4, 11, 12])
            t = "e%d:%s" % (i, ENUMS[i][1])
        if re.fullmatch(r"s\d+", t):
            t = "s%d" % rng.choice([0, 1, 2])
        if re.fullmatch(r"u\d+", t):
            t = "u%d" % rng.choice([0, 1])
        out.append(t)
    return out


def has_qualified_enum(a):
    """clang-14 answers 0 for `const E *` vs `const int *` (it compares the qualified pointee types without
    looking through the enum): such pairs are not used to validate the Spec"""
    k = a[0]
    if k == "p":
        return (a[1] and a[2][0] == "e") or has_qualified_enum(a[2])
    if k == "a":
        return (a[1] and a[4][0] == "e") or has_qualified_enum(a[4])
    if k == "f":
        return (a[1] and a[3][0] == "e") or has_qualified_enum(a[3]) or any(has_qualified_enum(x) for x in a[4])
    return False


def run_kb_compat(ck):
    rng = ck.rng
    cc = ck.build_cproc_qbe()
    d = os.path.join(ck.scratch(), "kbc")
    os.makedirs(d, exist_ok=True)
    pairs = []
    n = 1200 if ck.quick else 10000
    tries = 0
    while len(pairs) < n and tries < 50 * n:
        tries += 1
        t1 = fix_enum(rng, rand_type(rng, rng.choice([1, 2, 3])))
        r = rng.random()
        t2 = list(t1) if r < 0.2 else fix_enum(rng, mutate_type(rng, t1)) if r < 0.8 else fix_enum(rng, rand_type(rng, 2))
        if not (kb_ctype_ok(t1) and kb_ctype_ok(t2)):
            continue
        a1, a2 = normalize(strip_ptrqual(ty_of(" ".join(t1)))), normalize(strip_ptrqual(ty_of(" ".join(t2))))
        # no top-level array element qualifiers: compilers differ on "top-level qualifiers are ignored"
        def topq(a):
            while a[0] == "a":
                if a[1]:
                    return True
                a = a[4]
            return False
        if topq(a1) or topq(a2) or a1[0] == "void" or a2[0] == "void":
            continue
        pairs.append((a1, a2))
    q = ["targ x86_64-sysv"]
    for a1, a2 in pairs:
        q.append("compat %s | %s" % (ty_show(a1), ty_show(a2)))
        q.append("Scompat %s | %s" % (ty_show(a1), ty_show(a2)))
    out = ck.run_drv("\n".join(q) + "\n")[1:]
    model = [o == "1" for o in out[0::2]]
    spec = [o == "1" for o in out[1::2]]
    decls = preamble()
    src = list(decls)
    for i, (a1, a2) in enumerate(pairs):
        src.append("int c%d = __builtin_types_compatible_p(%s, %s);" % (i, cdecl(a1), cdecl(a2)))
    path = os.path.join(d, "compat.c")
    open(path, "w").write("\n".join(src) + "\n")
    ncompat = 0
    for targ, triple in TARGETS:
        rc, o, err = run_cproc(cc, targ, path)
        if rc != 0:
            raise Broken("cproc-qbe rejected the compatibility probes: %s" % err[-300:])
        got = {int(m.group(1)): int(m.group(2)) for m in re.finditer(r"data \$c(\d+) = align 4 \{ w (\d+)", o)}
        for i, (a1, a2) in enumerate(pairs):
            ck.count(("compat", targ, ty_show(a1), ty_show(a2)))
            if got.get(i) != int(spec[i]):
                ck.violation({"kind": "kb-compat", "target": targ, "t1": cdecl(a1), "t2": cdecl(a2), "ast1": ty_show(a1),
                              "ast2": ty_show(a2), "code": got.get(i),
                              "spec": int(spec[i]), "model": int(model[i]),
                              "program": "\n".join(decls) + "\nint c = __builtin_types_compatible_p(%s, %s);" % (cdecl(a1), cdecl(a2)),
                              "what": "__builtin_types_compatible_p disagrees with C11 6.2.7"})
                return
            if got.get(i) != int(model[i]):
                ck.violation({"kind": "correspondence", "t1": cdecl(a1), "t2": cdecl(a2), "code": got.get(i), "model": int(model[i]),
                              "theorem": "CprocVerif.C05.compat_sound/compat_complete"}, nofail=True)
                return
        ncompat = sum(got.values())
    # the Spec against clang
    v = list(decls)
    for i, (a1, a2) in enumerate(pairs):
        if has_qualified_enum(a1) or has_qualified_enum(a2):
            v.append("")
            continue
        v.append('_Static_assert(__builtin_types_compatible_p(%s, %s) == %d, "P%d");' % (cdecl(a1), cdecl(a2), int(spec[i]), i))
    vpath = os.path.join(d, "vcompat.c")
    open(vpath, "w").write("\n".join(v) + "\n")
    r = subprocess.run(["clang", "--target=x86_64-linux-gnu", "-std=gnu2x", "-fsyntax-only", "-w", "-ferror-limit=0", vpath],
                       stdout=subprocess.PIPE, stderr=subprocess.PIPE, text=True)
    errs = re.findall(r":(\d+):\d+: error: (.*)", r.stderr)
    if errs:
        ln = int(errs[0][0])
        raise Broken("Spec compatibility disagrees with clang: %s -- %s [%d]" % (v[ln - 1], errs[0][1], len(errs)))
    # redeclaration acceptance: all spec-compatible pairs in one unit must be accepted ...
    okdecl = list(decls)
    k = 0
    for i, (a1, a2) in enumerate(pairs):
        if spec[i] and a1[0] != "void":
            okdecl.append("extern %s; extern %s;" % (cdecl(a1, 0, "r%d" % i), cdecl(a2, 0, "r%d" % i)))
            k += 1
    open(path, "w").write("\n".join(okdecl) + "\n")
    rc, o, err = run_cproc(cc, "x86_64-sysv", path)
    if rc != 0:
        m = re.search(r":(\d+):\d+: error: (.*)", err)
        ln = int(m.group(1)) if m else 0
        ck.violation({"kind": "kb-redecl", "decl": okdecl[ln - 1] if ln else None, "stderr": err[-300:],
                      "program": "\n".join(decls) + "\n" + (okdecl[ln - 1] if ln else ""),
                      "what": "redeclaration with a compatible type rejected"})
        return
    # ... and a sample of incompatible ones, and of qualifier mismatches, must be rejected one by one
    bad = [i for i in range(len(pairs)) if not spec[i] and pairs[i][0][0] != "void" and pairs[i][1][0] != "void"]
    rej = 0
    for i in rng.sample(bad, min(len(bad), 60 if ck.quick else 400)):
        a1, a2 = pairs[i]
        txt = "\n".join(decls) + "\nextern %s; extern %s;\n" % (cdecl(a1, 0, "r"), cdecl(a2, 0, "r"))
        open(path, "w").write(txt)
        rc, o, err = run_cproc(cc, "x86_64-sysv", path)
        ck.count(("redecl", ty_show(a1), ty_show(a2)))
        if rc == 0:
            ck.violation({"kind": "kb-redecl", "program": txt, "what": "redeclaration with an incompatible type accepted"})
            return
        rej += 1
    for txt, want in (("extern int x; extern const int x;", 1), ("extern int *const x; extern int *x;", 1),
                      ("extern int a[]; extern int a[3]; extern int a[];", 0), ("int f(int a[const 3]); int f(int *const a);", 0),
                      ("int f(int g(void)); int f(int (*g)(void));", 0), ("int f(const int); int f(int);", 0),
                      ("typedef int T; typedef int T;", 0), ("typedef int T; typedef unsigned T;", 1),
                      ("enum E {A}; extern enum E e; extern unsigned e;", 0), ("enum E {A=-1}; extern enum E e; extern unsigned e;", 1),
                      ("int *p; const int *q; void f(void) { q = p; }", 0), ("int *p; const int *q; void f(void) { int *r = q; }", 1),
                      ("int *p; void *v; void f(void) { int *r = v; void *w = p; }", 0),
                      ("int *p; unsigned *u; void f(void) { int *r = u; }", 1)):
        open(path, "w").write(txt + "\n")
        rc, o, err = run_cproc(cc, "x86_64-sysv", path)
        ck.count(("redecl-fixed", txt))
        if (rc != 0) != bool(want):
            ck.violation({"kind": "kb-redecl", "program": txt, "rejected": rc != 0,
                          "what": "redeclaration / pointer-assignment compatibility check gives the wrong verdict"})
            return
    ck.cov["kb_compat"] = {"pairs": len(pairs), "compatible": ncompat, "redecl_accepted": k, "redecl_rejected": rej}


# ----------------------------------------------------------------------------- reported deviations (fixed reproducers)
FINDINGS = [
    # (finding id, program, predicate "still broken" on (status, stdout), what) -- none at present:
    # enum-bool-range was repaired by 08f8fa4 and is now the regression witness corpus/C05/enum_bool_range.c
]


def run_findings(ck):
    cc = ck.build_cproc_qbe()
    path = os.path.join(ck.scratch(), "finding.c")
    for fid, src, broken, what in FINDINGS:
        open(path, "w").write(src)
        r = subprocess.run([cc, path], stdout=subprocess.PIPE, stderr=subprocess.PIPE, text=True)
        ck.count(("finding", fid))
        if broken(r.returncode, r.stdout):
            ck.report({"kind": "finding", "program": src, "stderr": r.stderr[-300:], "what": what}, fid=fid)
        else:
            ck.notes.append("finding %s no longer reproduces: the model/theorems (%s_full) are stale" % (fid, fid))


def run_corpus(ck):
    """corpus/C05/*.c: hand-written witnesses and minimised past failures; `expect: name=value ...` in the
    leading comment are the data values C11 prescribes; an optional `fid:` marks a known finding"""
    cc = ck.build_cproc_qbe()
    d = os.path.join(common.VERIF, "corpus", "C05")
    n = 0
    for f in sorted(os.listdir(d)) if os.path.isdir(d) else []:
        if not f.endswith(".c"):
            continue
        src = open(os.path.join(d, f)).read()
        rej = re.search(r"expect-reject:\s*(.*?)\s*\*/", src)
        if rej:
            # a witness that must be diagnosed (a repaired defect in what the typing code accepts)
            r = subprocess.run([cc, os.path.join(d, f)], stdout=subprocess.PIPE, stderr=subprocess.PIPE, text=True)
            n += 1
            ck.count(("corpus", f))
            if r.returncode != 1 or not re.search(rej.group(1), r.stderr):
                ck.violation({"kind": "corpus", "file": "corpus/C05/" + f, "program": src, "exit_status": r.returncode,
                              "stderr": r.stderr[-300:], "expected_diagnostic": rej.group(1),
                              "what": "corpus witness of a repaired defect is accepted again (or not diagnosed as expected)"})
            continue
        m = re.search(r"expect:\s*([^*\n]*)", src)
        if not m:
            continue
        want = dict(kv.split("=") for kv in m.group(1).split())
        fid = re.search(r"fid:\s*(\S+)", src)
        r = subprocess.run([cc, os.path.join(d, f)], stdout=subprocess.PIPE, stderr=subprocess.PIPE, text=True)
        got = {m2.group(1): m2.group(2) for m2 in re.finditer(r"data \$(\w+) = align \d+ \{ [wlbh] (-?\d+)", r.stdout)}
        n += 1
        ck.count(("corpus", f))
        bad = {k: (got.get(k), v) for k, v in want.items() if got.get(k) != v}
        if r.returncode != 0 or bad:
            ck.report({"kind": "corpus", "file": "corpus/C05/" + f, "program": src, "stderr": r.stderr[-300:],
                       "got_vs_expected": bad, "what": "corpus witness fails"}, fid=fid.group(1) if fid else None)
    ck.cov["corpus_files"] = n


def run(ck):
    ck.cov["rule"] = ("K-A: every (target, arithmetic type object incl. enums over every base, width none/0..66) for typepromote; "
                      "every pair x width grid for typecommonreal; every integer type x boundary values (2^k, 2^k+-1,2, 2^64-2^k...) "
                      "x sign for typehasint; all leaf pairs + random derived pairs with near misses for typecompatible; typeadjust. "
                      "K-B: per target every operator x every pair of arithmetic operands (15 types, 4 enum types, enum constant, "
                      "bit-fields of 12 base types x widths {1,7,8,15,16,31,32,33,63,64}), unary ops, ?: (constant and not), casts, "
                      "assignment/compound/comma/incdec, literals of every base/suffix around every limit, char constants, pointer "
                      "arithmetic/difference/comparison/?:/null pointer constants, member access on qualified aggregates, calls, "
                      "decay, random nested expressions depth <= 4, random derived-type pairs via __builtin_types_compatible_p and "
                      "redeclaration.  distinct_nontrivial = distinct (target, probe class, result type) and K-A tuples.")
    ck.lean_build()
    gen_error = getattr(ck, "gen_error", None)
    if gen_error:
        ck.notes.append("translator failed: %s" % gen_error)
    if not ck.proofs_ok:
        ck.notes.append("Props.C05 does not build; searching for a failing input")
    if not ck.drv_ok:
        raise Broken("drv_c05 does not build: %s" % ck.build_log[-1500:])
    run_corpus(ck)
    run_ka(ck)
    hard = bool(ck.violations)
    if not hard:
        hard = run_kb(ck)
    if not hard:
        run_kb_compat(ck)
    run_findings(ck)
    if (not ck.proofs_ok or gen_error) and not ck.violations:
        ck.violation({"kind": "proof-broken" if not gen_error else "translator-broken",
                      "theorem": "CprocVerif.Props.C05 (lake build failed: a table regenerated from /repo no longer satisfies its obligation)"
                      if not gen_error else "tools/gen_c05.py: %s" % gen_error,
                      "log": ck.build_log[-3000:]}, nofail=True)
    ck.assumptions = ["the parser delivers operands to mkbinaryexpr/condexpr/unaryexpr as primaryexpr/postfixexpr build them "
                      "(observed only through K-B)",
                      "clang-14 --target implements C11 typing for the three targets (Spec validation)",
                      "documented deviations D1-D4 of Spec/Conv.lean (bit-fields wider than int promote by width; composite "
                      "type = first type; C23 '()', u8, enum E : T; no bit-field-ness through assignment/comma)"]


META = {
    "category": "proof",
    "text": ("Lean 4 theorems over a model of type.c / targ.c / the typing code of expr.c / decl.c:tagspec, for all inputs: "
             "typepromote = 6.3.1.1p2 by value range for every type object and bit-field width; typecommonreal = the "
             "common real type of 6.3.1.8; typehasint decides range membership for every 64-bit pattern (_Bool included); inttype = first "
             "type of the 6.4.4.1p5 list for every value < 2^64, base and suffix incl. the no-type error; every binary "
             "operator, ?:, unary + - ~, sizeof, member qualifiers, decay, typeadjust; typecompatible is reflexive, "
             "symmetric, sound and complete w.r.t. an inductive 6.2.7 relation; enum facts; target facts; tables "
             "regenerated from /repo are proof obligations.  Tied to /repo by calling the real functions on the whole "
             "finite domain (K-A) and by observing the type of ~10^5 generated expressions per target through _Generic/"
             "sizeof/__builtin_types_compatible_p in the emitted data (K-B); Spec validated against clang --target."),
    "design_ref": "DESIGN.md section 4, C05",
    "note": ("Trusted: Lean kernel + propext/Classical.choice/Quot.sound; the hand-written model (tied exhaustively on the finite "
             "core, by probes elsewhere); clang as oracle for the Spec; the C parser is exercised only through K-B.  Partial: "
             "hasint excludes _Bool (hasint_counterexample, finding enum-bool-range); composite types are not built (D2)."),
    "technique": "Lean 4 proof (range reasoning, case analysis over the type objects, structural induction on the type AST) + exhaustive in-process correspondence + black-box _Generic probes",
}

"""C11 - diagnostics name the file and line of the offending construct.

Proof:   lean/CprocVerif/Props/C11.lean over Model/Scan.lean (nextchar's line/column counting, the `..`
         push-back) + Model/PPLine.lean (pp.c: directive() for `# n "file" flags`, `#line n ["file"]`,
         `#pragma`, the null directive, the diagnosed directives; scansetloc's timing; nextinto/next) and
         Spec/Presumed.lean (presumed file/line of a byte offset = last line directive ending at or before
         it + physical new-lines since; column = distance from the start of the physical line + 1):
         every delivered token other than a new-line token, and every token a preprocessor diagnostic
         points at, carries the presumed location of its first byte, for every source text.
Tie:     K-A  harness/scan_h.c (`pp`/`ppnl` token dumps with file:line.col of the real scanner +
              preprocessor, one forked child per input, ASan+UBSan) vs drv_c11 vs an independent Python
              reference (own lexer for byte offsets + the spec formula) on: every text of <= N symbols over
              {a, space, newline, backslash-newline, /*, */, //, #, line, 1, 7, "f", .}, random texts built
              from markers / #line / pragmas / comments spanning lines / line comments ending in splices /
              literals / CR / FF / missing final new-line, and a backslash-newline at every position.
         K-B  cproc-qbe built from /repo: otherwise-valid programs with random markers, splices, comments
              and multi-line macro invocations and ONE violating construct on a line of its own; the first
              stderr line must name the presumed file and line of that construct.
Spec validation: the Python reference against drv_c11 (offsets, directive records, Spec/Presumed.lean's
         values) on every K-A input, and against `gcc -fsyntax-only` / `clang -fsyntax-only` diagnostics on
         the K-B programs; a disagreement marks the check broken, never a violation.
"""
import concurrent.futures
import itertools
import json
import os
import re
import subprocess
import time

from . import common, lexgen
from .common import CompileError, Broken
from .lexgen import hx, parse_line

ASAN_ENV = dict(os.environ, ASAN_OPTIONS="detect_leaks=0", UBSAN_OPTIONS="print_stacktrace=1")
M64 = (1 << 64) - 1
FID_NL = "newline-token-next-line"
FID_TENT = "tentative-incomplete-at-eof"


class Ctx:
    pass


# ============================================================================= Python reference
# A lexer that knows byte offsets and nothing about line numbers, the directive grammar, and the
# presumed-location formula of Spec/Presumed.lean.  It is validated against drv_c11 on every input.
PUNCTS = sorted([p for p in lexgen.PUNCTUATORS], key=lambda p: -len(p))
BLANK = b" \t\f\v"
IDSTART = set(b"abcdefghijklmnopqrstuvwxyzABCDEFGHIJKLMNOPQRSTUVWXYZ_")
IDCHAR = IDSTART | set(b"0123456789")
DIGIT = set(b"0123456789")
HEX = set(b"0123456789abcdefABCDEF")
OCT = set(b"01234567")
SIMPLE_ESC = set(b"'\"?\\abfnrtv")


class LexError(Exception):
    def __init__(self, kind, off):
        self.kind, self.off = kind, off


def phase2(text):
    """characters after removal of backslash-newline (one pass), each with its raw offset"""
    cs, offs = bytearray(), []
    i, n = 0, len(text)
    while i < n:
        if text[i] == 0x5c and i + 1 < n and text[i + 1] == 0x0a:
            i += 2
            continue
        cs.append(text[i])
        offs.append(i)
        i += 1
    return bytes(cs), offs


class RawLexer:
    """yields (kind, off, lexeme) with kind in id num str chr punct other nl eof"""

    def __init__(self, text):
        self.cs, self.offs = phase2(text)
        self.n = len(self.cs)
        self.i = 0
        self.end = len(text)

    def off(self, i):
        return self.offs[i] if i < self.n else self.end

    def literal(self, i, q, start):
        cs, n = self.cs, self.n
        str_ = q == 0x22
        i += 1
        while True:
            if i >= n:
                raise LexError("eofStr" if str_ else "eofChar", self.end)
            c = cs[i]
            if c == 0x5c:
                i += 1
                if i < n and cs[i] == 0x78:
                    i += 1
                    if i >= n or cs[i] not in HEX:
                        raise LexError("hexEscape", self.off(i))
                    while i < n and cs[i] in HEX:
                        i += 1
                elif i < n and cs[i] in OCT:
                    i += 1
                    if i < n and cs[i] in OCT:
                        i += 1
                        if i < n and cs[i] in OCT:
                            i += 1
                elif i < n and cs[i] != 0 and cs[i] in SIMPLE_ESC:
                    i += 1
                else:
                    raise LexError("escape", self.off(i))
            elif c == q:
                return i + 1
            elif c == 0x0a:
                raise LexError("nlStr" if str_ else "nlChar", self.off(i))
            elif c == 0:
                raise LexError("nulStr" if str_ else "nulChar", self.off(i))
            else:
                i += 1

    def next(self):
        cs, n = self.cs, self.n
        i = self.i
        while True:
            if i >= n:
                self.i = i
                return ("eof", self.end, b"")
            c = cs[i]
            if c in BLANK:
                i += 1
                continue
            if c == 0x2f and i + 1 < n and cs[i + 1] == 0x2f:
                j = cs.find(b"\n", i)
                i = n if j < 0 else j
                continue
            if c == 0x2f and i + 1 < n and cs[i + 1] == 0x2a:
                j = cs.find(b"*/", i + 2)
                if j < 0:
                    raise LexError("eofComment", self.end)
                i = j + 2
                continue
            break
        start = i
        if c == 0x0a:
            self.i = i + 1
            return ("nl", self.offs[start], b"\n")
        # encoding prefix glued to a quote
        j = i
        if c in b"LUu":
            j = i + 1
            if c == 0x75 and j < n and cs[j] == 0x38:
                j += 1
            if j < n and cs[j] in b"'\"":
                e = self.literal(j, cs[j], start)
                self.i = e
                return ("str" if cs[j] == 0x22 else "chr", self.offs[start], cs[start:e])
        if c in b"'\"":
            e = self.literal(i, c, start)
            self.i = e
            return ("str" if c == 0x22 else "chr", self.offs[start], cs[start:e])
        if c in IDSTART:
            j = i + 1
            while j < n and cs[j] in IDCHAR:
                j += 1
            self.i = j
            return ("id", self.offs[start], cs[start:j])
        if c in DIGIT or (c == 0x2e and i + 1 < n and cs[i + 1] in DIGIT):
            j = i + 1
            allow = False
            while j < n:
                d = cs[j]
                if d in b"eEpP":
                    allow = True
                elif d in b"+-":
                    if not allow:
                        break
                    allow = False
                elif d in b"_." or d in IDCHAR:
                    allow = False
                else:
                    break
                j += 1
            self.i = j
            return ("num", self.offs[start], cs[start:j])
        if c == 0x2e:
            if cs.startswith(b"...", i):
                self.i = i + 3
                return ("punct", self.offs[start], b"...")
            self.i = i + 1
            return ("punct", self.offs[start], b".")
        for p in PUNCTS:
            if cs.startswith(p, i):
                self.i = i + len(p)
                return ("punct", self.offs[start], p)
        self.i = i + 1
        return ("other", self.offs[start], cs[i:i + 1])


NOTIMPL = (b"if", b"ifdef", b"ifndef", b"elif", b"endif", b"include", b"error")


class Ref:
    """what the reference says about a text: delivered tokens [(kind, off)], line directives
    [(endOff, n, file|None)], and how the run ends: None | ('pp', what, (kind, off)) | ('scan', kind, off)
    | ('unmodelled',)"""
    __slots__ = ("toks", "dirs", "end")


def line_value(lex):
    k = 0
    while k < len(lex) and lex[k] in DIGIT:
        k += 1
    return min(int(lex[:k] or b"0"), M64)


def reference(text, nl, kb=False):
    """The preprocessor's view of `text` (no macro table).  kb=True: only the line directives are wanted;
    `#define`, `#undef` and `#pragma` lines are skipped."""
    r = Ref()
    r.toks, r.dirs, r.end = [], [], None
    lx = RawLexer(text)
    newline = True
    try:
        while True:
            t = lx.next()
            if newline and t[0] == "punct" and t[2] == b"#":
                t = lx.next()
                if t[0] == "nl":
                    continue
                num = None
                if t[0] == "num":
                    num = t
                elif t[0] != "id":
                    r.end = ("pp", "expected.4.afterHash", t)
                    return r
                elif t[2] in NOTIMPL:
                    r.end = ("pp", "notimpl." + t[2].hex(), t)
                    return r
                elif t[2] in (b"define", b"undef"):
                    if not kb:
                        r.end = ("unmodelled",)
                        return r
                    while t[0] not in ("nl", "eof"):
                        t = lx.next()
                    continue
                elif t[2] == b"line":
                    t = lx.next()
                    if t[0] != "num":
                        r.end = ("pp", "expected.5.afterLine", t)
                        return r
                    num = t
                elif t[2] == b"pragma":
                    first = True
                    while t[0] not in ("nl", "eof"):
                        t = lx.next()
                        if first and t[0] == "punct" and t[2] == b"#" and not kb:
                            r.end = ("unmodelled",)
                            return r
                        first = False
                    if t[0] != "nl":
                        r.end = ("pp", "expected.2.afterDirective", t)
                        return r
                    continue
                else:
                    r.end = ("pp", "invalid." + t[2].hex(), t)
                    return r
                n = line_value(num[2])
                t = lx.next()
                f = None
                if t[0] == "str":
                    a = t[2].index(b'"')
                    f = t[2][a + 1:t[2].index(b'"', a + 1)]
                    t = lx.next()
                while t[0] == "num":
                    t = lx.next()
                if t[0] != "nl":
                    r.end = ("pp", "expected.2.afterDirective", t)
                    return r
                r.dirs.append((t[1] + 1, n, f))
                continue
            newline = t[0] == "nl"
            if t[0] == "nl" and not nl:
                continue
            r.toks.append((t[0], t[1]))
            if t[0] == "eof":
                return r
    except LexError as e:
        r.end = ("scan", e.kind, e.off)
        return r


def presumed(text, dirs, off, file0=b"in.c"):
    """Spec/Presumed.lean in Python: (file, line, col) of byte offset `off`"""
    file, base, origin = file0, 1, 0
    for (e, n, f) in dirs:
        if e <= off:
            base, origin = n, e
            if f is not None:
                file = f
    line = base + text.count(b"\n", origin, off)
    ls = text.rfind(b"\n", 0, off) + 1
    return file, line & M64, off - ls + 1


# ============================================================================= K-A
MSGS = [
    (re.compile(r"^expected identifier newline, or number after '#', saw "), "expected.4.afterHash"),
    (re.compile(r"^expected number after #line, saw "), "expected.5.afterLine"),
    (re.compile(r"^expected newline after preprocessing directive, saw "), "expected.2.afterDirective"),
    (re.compile(r"^#(\w+) directive is not implemented$"), "notimpl"),
    (re.compile(r"^invalid preprocessor directive #(.*)$", re.S), "invalid"),
]


def fname(f):
    """file column of a token dump -> bytes"""
    return b"in.c" if f == "=" else bytes.fromhex(f)


def real_end(end):
    """harness run end -> None | ('err', file bytes, line, col, what) | ('crash', status)"""
    if end is None:
        return None
    if end[0] != "err":
        return ("crash", end[1])
    f = b"in.c" if end[1] == "=" else end[1].encode("latin-1")
    msg = end[4]
    if msg in lexgen.MSG.values():
        return ("err", f, end[2], end[3], "scan." + msg)
    for rx, k in MSGS:
        m = rx.match(msg)
        if m:
            if k in ("notimpl", "invalid"):
                k = k + "." + m.group(1).encode("latin-1").hex()
            return ("err", f, end[2], end[3], k)
    return ("err", f, end[2], end[3], "?" + msg)


class MRun:
    __slots__ = ("toks", "end", "spec", "dirs", "errspec", "errtok", "raw")


def parse_model(line):
    parts = line.split(" | ")
    if len(parts) != 4:
        raise Broken("unparsable model line %r" % line[:200])
    m = MRun()
    m.raw = line
    m.toks, m.end, m.errtok = [], None, None
    for w in parts[0].split(" "):
        if not w:
            continue
        if w.startswith("!"):
            p = w[1:].split(":")
            lc = p[1].split(".")
            m.end = ("err", fname(p[0]), int(lc[0]), int(lc[1]), p[2])
            if len(p) > 3:
                o, k = p[3].split(".")
                m.errtok = (int(o), int(k))
        else:
            p = w.split(":")
            lc = p[3].split(".")
            m.toks.append((int(p[0]), None if p[1] == "-" else bytes.fromhex(p[1]), fname(p[2]), int(lc[0]),
                           int(lc[1]), p[4] == "1"))
    m.spec = []
    for w in parts[1].split(" "):
        if w:
            o, f, lc = w.split(":")
            l, c = lc.split(".")
            m.spec.append((int(o), fname(f), int(l), int(c)))
    m.dirs = []
    for w in parts[2].split(" "):
        if w:
            e, n, f = w.split(":")
            m.dirs.append((int(e), int(n), None if f == "-" else bytes.fromhex(f[1:])))
    m.errspec = None
    w = parts[3].strip()
    if w:
        o, f, lc = w.split(":")
        l, c = lc.split(".")
        m.errspec = (int(o), fname(f), int(l), int(c))
    return m


def validate_reference(X, text, mode, ref, m):
    """Python reference vs Lean model + Lean spec.  Any disagreement = broken machinery."""
    def bad(what):
        raise Broken("Python reference and drv_c11 disagree (%s) on %s %r: ref toks=%r dirs=%r end=%r; model %s"
                     % (what, mode, text, ref.toks[:8], ref.dirs, ref.end, m.raw[:400]))
    munm = m.end is not None and m.end[4] == "unmodelled"
    if (ref.end == ("unmodelled",)) != munm:
        bad("modelled domain")
    if munm:
        return
    if [o for _, o in ref.toks] != [s[0] for s in m.spec]:
        bad("token offsets")
    for (k, _), t in zip(ref.toks, m.toks):
        if (k == "nl") != (t[0] == X.TNEWLINE) or (k == "eof") != (t[0] == X.TEOF):
            bad("token kinds")
    if ref.end is None:
        if m.end is not None:
            bad("end")
    elif ref.end[0] == "pp":
        if m.end is None or m.end[4] != ref.end[1] or m.errtok is None or m.errtok[0] != ref.end[2][1]:
            bad("pp diagnostic")
    elif ref.end[0] == "scan":
        if m.end is None or m.end[4] != "scan." + ref.end[1]:
            bad("scan diagnostic")
    # directive records: the model's log at the end is a prefix-compatible view of the reference's
    if ref.end is None or ref.end[0] == "pp":
        if [(e, n & M64, f) for e, n, f in ref.dirs] != m.dirs:
            bad("directive records")
    # Spec/Presumed.lean (evaluated by the driver) vs presumed()
    for (o, f, l, c) in m.spec:
        if presumed(text, ref.dirs, o) != (f, l, c):
            bad("Spec/Presumed.lean value at offset %d" % o)
    if m.errspec is not None:
        o, f, l, c = m.errspec
        if presumed(text, ref.dirs, o) != (f, l, c):
            bad("Spec/Presumed.lean value at the diagnostic's token")


def ok_predicate(X, text, ref, h):
    """The property, stated on the implementation's own output: every delivered token, and the token a
    diagnostic points at, is located at the presumed location of its first byte.
    Returns a list of (severity, reason); severity 'nl' = the deviation is exactly the recorded
    finding newline-token-next-line (a new-line located on the following line, column 0)."""
    out = []
    if ref.end == ("unmodelled",):
        return out
    hend = real_end(h.end)
    if hend is not None and hend[0] == "crash":
        return [("bad", "the harness child crashed: %s" % (hend,))]
    if len(h.toks) != len(ref.toks):
        return [("bad", "%d tokens delivered where the reference delivers %d" % (len(h.toks), len(ref.toks)))]
    for i, (t, (k, o)) in enumerate(zip(h.toks, ref.toks)):
        if (k == "nl") != (t.kind == X.TNEWLINE) or (k == "eof") != (t.kind == X.TEOF):
            return [("bad", "token %d is %s where the reference has %s" % (i, X.kname.get(t.kind), k))]
        want = presumed(text, ref.dirs, o)
        got = (fname(t.file), t.line, t.col)
        if got != want:
            if k == "nl" and got == (want[0], (want[1] + 1) & M64, 0):
                out.append(("nl", "new-line token at offset %d located %s:%d:%d, presumed %s:%d:%d" %
                            (o, got[0].decode("latin-1"), got[1], got[2], want[0].decode("latin-1"), want[1], want[2])))
            else:
                out.append(("bad", "token %d (%s at offset %d) located %s:%d:%d, presumed location %s:%d:%d" %
                            (i, X.kname.get(t.kind), o, got[0].decode("latin-1"), got[1], got[2],
                             want[0].decode("latin-1"), want[1], want[2])))
    if ref.end is None:
        if hend is not None:
            out.append(("bad", "diagnostic %r where the reference delivers TEOF" % (hend,)))
        return out
    if hend is None:
        out.append(("bad", "no diagnostic where the reference expects %r" % (ref.end[:2],)))
        return out
    if ref.end[0] == "pp":
        k, o = ref.end[2][0], ref.end[2][1]
        if hend[4] != ref.end[1]:
            out.append(("bad", "diagnostic %r where the reference expects %s" % (hend[4], ref.end[1])))
            return out
        want = presumed(text, ref.dirs, o)
        got = (hend[1], hend[2], hend[3])
        if got != want:
            if k == "nl" and got == (want[0], (want[1] + 1) & M64, 0):
                out.append(("nl", "diagnostic at a new-line token: %s:%d:%d, presumed %s:%d:%d" %
                            (got[0].decode("latin-1"), got[1], got[2], want[0].decode("latin-1"), want[1], want[2])))
            else:
                out.append(("bad", "diagnostic %s located %s:%d:%d, presumed location of the offending token "
                            "(offset %d) %s:%d:%d" % (hend[4], got[0].decode("latin-1"), got[1], got[2], o,
                                                      want[0].decode("latin-1"), want[1], want[2])))
    else:
        kind, o = ref.end[1], ref.end[2]
        if hend[4] != "scan." + kind:
            out.append(("bad", "diagnostic %r where the reference expects scan.%s" % (hend[4], kind)))
            return out
        want = presumed(text, ref.dirs, o)
        if (hend[1], hend[2]) != want[:2]:
            if text[o:o + 1] == b"\n" and (hend[1], hend[2], hend[3]) == (want[0], (want[1] + 1) & M64, 0):
                out.append(("nl", "'%s' located %s:%d:%d, the new-line is at %s:%d:%d" %
                            (kind, hend[1].decode("latin-1"), hend[2], hend[3], want[0].decode("latin-1"),
                             want[1], want[2])))
            else:
                out.append(("bad", "scanner diagnostic %s located %s:%d, offending byte (offset %d) is at %s:%d" %
                            (kind, hend[1].decode("latin-1"), hend[2], o, want[0].decode("latin-1"), want[1])))
    return out


def same_run(h, m):
    """observational equality of the real run and the model run"""
    if [t.lockey()[:2] + (fname(t.file), t.line, t.col, t.space) for t in h.toks] != m.toks:
        return False
    he = real_end(h.end)
    if (he is None) != (m.end is None):
        return False
    return he is None or tuple(he) == tuple(m.end)


def run_pair(X, lines, plain=False):
    hbin = X.harness_plain if plain else X.harness
    hout = lexgen.run_sharded([hbin], lines, env=ASAN_ENV)
    mout = lexgen.run_sharded([X.ck.drv_path()], lines) if X.ck.drv_ok else None
    return hout, mout


def shrink(text, bad, budget=160):
    cur = text
    chunk = max(1, len(cur) // 2)
    steps = 0
    while chunk >= 1 and steps < budget and len(cur) > 1:
        i = 0
        progressed = False
        while i < len(cur) and steps < budget:
            cand = cur[:i] + cur[i + chunk:]
            steps += 1
            if cand and bad(cand):
                cur = cand
                progressed = True
            else:
                i += chunk
        if not progressed:
            chunk //= 2
    return cur


def features(text):
    f = []
    if re.search(rb"(^|\n)[ \t\f\v]*#[ \t]*[0-9]", text):
        f.append("marker")
    if b"line" in text and b"#" in text:
        f.append("#line")
    if b"\\\n" in text:
        f.append("splice")
    if re.search(rb"/\*[^*]*\n", text):
        f.append("comment-spanning-lines")
    if b"//" in text:
        f.append("line-comment")
    if b'"' in text or b"'" in text:
        f.append("literal")
    if b"\r" in text:
        f.append("CR")
    if b"\f" in text:
        f.append("FF")
    if text and not text.endswith(b"\n"):
        f.append("no-final-newline")
    if b"pragma" in text:
        f.append("pragma")
    if b".." in text:
        f.append("dotdot")
    return f


def examine(X, texts, label, modes=("pp", "ppnl"), plain=False):
    """model vs real vs reference on `texts` in the given modes"""
    ck = X.ck
    for mode in modes:
        if len(ck.violations) >= 3:
            return
        lines = ["%s %s" % (mode, hx(t)) for t in texts]
        hout, mout = run_pair(X, lines, plain)
        nl = mode == "ppnl"
        for i, t in enumerate(texts):
            ck.count((mode, t))
            X.ninputs[label] = X.ninputs.get(label, 0) + 1
            h = parse_line(hout[i])
            ref = reference(t, nl)
            m = parse_model(mout[i]) if mout is not None else None
            if m is not None:
                validate_reference(X, t, mode, ref, m)
            if ref.end == ("unmodelled",):
                X.nunmodelled += 1
                continue
            for f in features(t):
                X.feat[f] = X.feat.get(f, 0) + 1
            X.ntok += len(h.toks)
            X.ndirs += len(ref.dirs)
            if h.end is not None:
                e = real_end(h.end)
                key = ".".join(e[4].split(".")[:2]) if e[0] == "err" else "crash"
                if key.startswith(("notimpl", "invalid")):
                    key = key.split(".")[0]
                X.errs[key] = X.errs.get(key, 0) + 1
            if len(ck.violations) >= 3:
                continue
            why = ok_predicate(X, t, ref, h)
            bad = [w for s, w in why if s == "bad"]
            if bad:
                def still_bad(c, nl=nl, mode=mode):
                    hh = parse_line(lexgen.run_sharded([X.harness_plain], ["%s %s" % (mode, hx(c))], env=ASAN_ENV,
                                                       shards=1)[0])
                    return any(s == "bad" for s, _ in ok_predicate(X, c, reference(c, nl), hh))
                small = shrink(t, still_bad) if len(t) > 4 else t
                hh = lexgen.run_sharded([X.harness_plain], ["%s %s" % (mode, hx(small))], env=ASAN_ENV, shards=1)[0]
                why2 = [w for s, w in ok_predicate(X, small, reference(small, nl), parse_line(hh)) if s == "bad"]
                ck.violation({"kind": "ok-predicate", "mode": mode, "input_hex": hx(small), "input": repr(small),
                              "original_input_hex": hx(t), "why": (why2 or bad)[:4], "impl": hh[:600],
                              "set": label, "reproduce": "printf %s | xxd -r -p > t.c  (harness/scan_h.c: %s <hex>)"
                              % (hx(small), mode),
                              "what": "a token or diagnostic of the real scanner/preprocessor is not located at the "
                                      "presumed location of its first byte"})
                continue
            if why:
                X.nlhits += 1
                ck.report({"kind": "ok-predicate", "mode": mode, "input_hex": hx(t), "input": repr(t),
                           "why": [w for _, w in why][:4], "impl": hout[i][:600], "set": label,
                           "what": "a new-line is located on the line after the one it ends"}, fid=FID_NL)
            if m is not None and not same_run(h, m):
                ck.violation({"kind": "correspondence", "mode": mode, "input_hex": hx(t), "input": repr(t),
                              "impl": hout[i][:600], "model": mout[i][:600], "set": label,
                              "what": "scan.c/pp.c and Model/Scan.lean + Model/PPLine.lean disagree although the "
                                      "implementation's locations satisfy the presumed-location predicate",
                              "theorem": "CprocVerif.C11.tok_loc_correct_partial / diag_loc_correct_partial are about "
                                         "Model/PPLine.lean, which no longer describes pp.c/scan.c"}, nofail=True)


SYMS = [b"a", b" ", b"\n", b"\\\n", b"/*", b"*/", b"//", b"#", b"line", b"1", b"7", b'"f"', b"."]


def exhaustive(X):
    ck = X.ck
    n1 = 4 if ck.quick else 5
    texts = [b""]
    for n in range(1, n1 + 1):
        texts.extend(b"".join(t) for t in itertools.product(SYMS, repeat=n))
    texts = sorted(set(texts))
    modes = ("pp", "ppnl")
    for k in range(0, len(texts), 100000):
        examine(X, texts[k:k + 100000], "exhaustive<=%d" % n1, modes, plain=True)
        if ck.violations:
            return
    # a sample of the next length, and a sample of everything under ASan+UBSan
    nxt = [b"".join(ck.rng.choice(SYMS) for _ in range(n1 + 1 + (j % 3))) for j in range(3000 if ck.quick else 40000)]
    examine(X, nxt, "sample-len%d-%d" % (n1 + 1, n1 + 3), modes, plain=True)
    examine(X, ck.rng.sample(texts, min(len(texts), 2500 if ck.quick else 12000)), "exhaustive-asan-sample", modes)


FILES = [b"foo.c", b"a.h", b"dir/x.c", b"in.c", b"f", b"<built-in>", b"a b.c", b"", b"x.c"]
WORDS = [b"int", b"x", b"y1", b"=", b";", b"+", b"(", b")", b"{", b"}", b"42", b"0x1p-3", b"1e+5", b".5", b"..", b"...",
         b".", b"->", b"<<=", b'"s"', b"'c'", b'L"w"', b"u8'a'", b'"a\\"b"', b"'\\n'", b"a", b"return", b",", b"[", b"]",
         b"#", b"##", b"@", b"\\", b"$"]


def rnd_number(rng):
    r = rng.random()
    if r < 0.5:
        return str(rng.randint(1, 99)).encode()
    if r < 0.7:
        return str(rng.choice([0, 100, 2147483647, 2147483648, 4294967296, 10 ** 12])).encode()
    if r < 0.8:
        return rng.choice([b"010", b"0x10", b"007", b"12abc", b"1e3", b"08", b"1.5", b"1_0"])
    if r < 0.9:
        return str(rng.choice([M64, M64 - 1, M64 - 3, M64 + 1, 10 ** 25, (1 << 63) - 1, 1 << 63])).encode()
    return str(rng.randint(0, 100000)).encode()


def rnd_directive(rng):
    sp = lambda: rng.choice([b" ", b"", b"  ", b"\t", b" /* c */ ", b"\\\n", b" \\\n "])
    r = rng.random()
    if r < 0.40:        # gcc line marker
        fl = b"".join(sp() + b" " + rng.choice([b"1", b"2", b"3", b"4", b"1 3", b"3 4", b"99"]) for _ in range(rng.choice([0, 0, 1, 2])))
        return sp() + b"#" + sp() + rnd_number(rng) + b" " + sp() + b'"' + rng.choice(FILES) + b'"' + fl + sp() + b"\n"
    if r < 0.50:
        return b"#" + sp() + rnd_number(rng) + sp() + b"\n"
    if r < 0.70:
        return sp() + b"#" + sp() + b"line " + sp() + rnd_number(rng) + b" " + sp() + b'"' + rng.choice(FILES) + b'"' + sp() + b"\n"
    if r < 0.80:
        return b"#line " + rnd_number(rng) + sp() + b"\n"
    if r < 0.85:
        return sp() + b"#" + sp() + b"\n"
    if r < 0.91:
        return b"#pragma " + b" ".join(rng.choice(WORDS[:20]) for _ in range(rng.randint(0, 4))) + b"\n"
    # malformed / diagnosed directives
    return rng.choice([b"#line\n", b"#line x\n", b"# 5 x\n", b'# 5 "f" x\n', b"#if 1\n", b"#else\n", b"#foo bar\n",
                       b"# +\n", b'#line 5 "f" 1 "g"\n', b'# 7 L"w.c"\n', b'# 7 "a\\"b.c"\n', b"#include <x>\n",
                       b"#error e\n", b"#line 3 4 5\n", b'# "f"\n', b"#7\n", b"#line 5", b"#pragma", b'# 9 "f',
                       b"#pragma # 3\nz\n", b"#define A 1\n", b"#undef A\n"])


def rnd_codeline(rng):
    parts = []
    for _ in range(rng.randint(0, 7)):
        r = rng.random()
        if r < 0.62:
            parts.append(rng.choice(WORDS))
        elif r < 0.72:
            parts.append(rng.choice([b"/* c */", b"/*\n*/", b"/* a\n b\n c */", b"/**/", b"/*/\n*/"]))
        elif r < 0.78:
            parts.append(rng.choice([b"// c", b"// c \\\n d", b"//\\\n\\\nz", b"//"]))
        elif r < 0.84:
            parts.append(b"\\\n")
        elif r < 0.88:
            parts.append(rng.choice([b"\r", b"\f", b"\v", b"\t", b"\x00", b"\x80"]))
        else:
            parts.append(rng.choice([b" ", b"  "]))
        if rng.random() < 0.5:
            parts.append(b" ")
    return b"".join(parts) + rng.choice([b"\n", b"\n", b"\n", b"\r\n", b"\\\n\n", b" \n"])


def rnd_text(rng):
    out = []
    for _ in range(rng.randint(1, 9)):
        r = rng.random()
        if r < 0.38:
            out.append(rnd_directive(rng))
        elif r < 0.48:
            out.append(rng.choice([b"\n", b"\n\n", b"\\\n", b"\\\n\n", b" \n", b"\\\n\\\n"]))
        else:
            out.append(rnd_codeline(rng))
    t = b"".join(out)
    if rng.random() < 0.2 and t.endswith(b"\n"):
        t = t[:-1]
    return t


FIXED = [b'# 10 "foo.c"\n\nint x = y;\n', b'# 10 "foo.c"\n\\\nint x\n', b"#line 010\nint x = y;\n", b"..\\\nx\n y",
         b"#define\nint x;\n", b"#line\n", b'#line 5 "g.c"\n\n#line 9 x\n', b'#line 1 "a"\n#line 2\n#line 3 "b"\nx\n#line 4\ny',
         b'# 1 "f"\n# 2 "g"\n', b'/*\n#line 5\n*/x', b'"\n', b"'a\n", b'x "abc\n', b"/* unterminated\n\n", b"// c \\\n#line 7\nx",
         b"a\\\n#line 5\nb", b" # 5\nx", b"/* c */ # 5 \"q\"\nx", b"x # 5\ny", b"#\\\nline 5\nx", b"#li\\\nne 6 \"f\\\ng\"\nx",
         b'# 4294967296 "big"\nx', b"# 18446744073709551615\nx\ny", b"# 18446744073709551616\nx\n\ny",
         b"# 99999999999999999999999\n\nx", b"#line 0\nx", b"..\\\n\\\n\nx", b". .\\\n.x", b"...\\\n..\\\nx",
         b"#pragma once\nx\n", b"#pragma\nx", b"#pragma a\\\nb\nx", b"\r\nx\r\n#line 5\r\n", b"\f# 3\nx", b"#line 5 \"f\"",
         b"# 5 \"f\" 1 2 3 4\n\n\nx", b"x\n#\n#\n# 8\n#\ny"]


def random_texts(X):
    ck = X.ck
    rng = ck.rng
    base = list(FIXED)
    n = 2500 if ck.quick else 30000
    base += [rnd_text(rng) for _ in range(n)]
    examine(X, base, "random", plain=True)
    if ck.violations:
        return
    for k in (3, 11, 17):
        if k < len(base):
            ck.sample({"random text": base[len(FIXED) + k][:160].decode("latin-1")})
    # a backslash-newline at every position of short texts, at random positions of long ones
    variants = []
    src = base[:len(FIXED)] + rng.sample(base[len(FIXED):], 150 if ck.quick else 700)
    for b in src:
        for v, ps in lexgen.splice_variants(b, rng, every_limit=40 if ck.quick else 60, extra=2 if ck.quick else 4):
            variants.append(v)
            for p in ps:
                X.splicepos[min(p, 99)] = X.splicepos.get(min(p, 99), 0) + 1
    examine(X, variants, "splice-at-every-position", plain=True)
    if ck.violations:
        return
    examine(X, rng.sample(base + variants, min(len(base) + len(variants), 3000 if ck.quick else 12000)), "asan-sample")


# ============================================================================= K-B
PRELUDE = [
    b"const int c11_const = 1;",
    b"struct c11_s { int a; } c11_sv;",
    b"void c11_f(int);",
    b"int c11_g(void);",
    b"int c11_dup;",
    b"int c11_h(int);",
    b"#define C11_ADD(a, b) ((a) + (b))",
    b"#define C11_ID(x) x",
    b"#define C11_ZERO 0",
    b"#define C11_STR(x) #x",
]
# (name, slot, code, fid or None)   slot: stmt | case | decl | arg
TEMPLATES = [
    ("undeclared", "stmt", b"c11_undeclared = 1;", None),
    ("assign-const", "stmt", b"c11_const = 2;", None),
    ("call-too-many", "stmt", b"c11_f(1, 2);", None),
    ("call-too-few", "stmt", b"c11_f();", None),
    ("no-member", "stmt", b"y = c11_sv.nomember;", None),
    ("missing-operand", "stmt", b"y = 1 +;", None),
    ("unbalanced-paren", "stmt", b"y = (1;", None),
    ("break-operand", "stmt", b"break 1;", None),
    ("goto-nothing", "stmt", b"goto;", None),
    ("deref-int", "stmt", b"y = *y;", None),
    ("bad-octal", "stmt", b"y = 08;", None),
    ("cond-missing-colon", "stmt", b"y = 1 ? 2;", None),
    ("not-lvalue", "stmt", b"y++ = 1;", None),
    ("incomplete-local", "stmt", b"struct c11_undef c11_loc;", None),
    ("unterminated-string", "stmt", b'y = "abc;', FID_NL),
    ("unterminated-char", "stmt", b"y = 'ab;", FID_NL),
    ("duplicate-case", "case", b"case 1: ;", None),
    ("redeclared-type", "decl", b"float c11_dup;", None),
    ("negative-array", "decl", b"int c11_arr[-1];", None),
    ("static-assert", "decl", b'_Static_assert(0, "m");', None),
    ("redeclared-function", "decl", b"int c11_h(long);", None),
    ("undeclared-init", "decl", b"int c11_i = c11_undeclared;", None),
    ("redeclared-kind", "decl", b"typedef int c11_dup;", None),
    ("init-missing-operand", "decl", b"int c11_k = 1 +;", None),
    ("pointer-from-double", "decl", b"int *c11_p = 1.0;", None),
    ("linkage", "decl", b"static int c11_dup;", None),
    ("designator-range", "decl", b"int c11_m[2] = { [5] = 1 };", None),
    ("undeclared-in-body", "decl", b"int c11_fn9(void) { return c11_nope; }", None),
    ("tentative-incomplete", "decl", b"void c11_v;", FID_TENT),
    ("undeclared-macro-arg", "arg", b"c11_undeclared", None),
    ("no-member-macro-arg", "arg", b"c11_sv.nomember", None),
]
ORACLE_SKIP = {"tentative-incomplete": ("gcc",)}      # gcc accepts `void v;` at file scope
FILLER_STMTS = [b"y = y + 1;", b"y = C11_ID(y);", b"if (y) y = 3;", b"y = c11_sv.a;", b"c11_f(y);", b"y = c11_g();",
                b"{ int z = y; y = z; }", b"while (y > 100) y = y - 1;", b"y = C11_ADD(y, C11_ZERO);", b";",
                b"y = sizeof C11_STR(a b);", b"y = y ? y : c11_const;"]
FILLER_MULTI = [[b"y = C11_ADD(x,", b"\t3);"], [b"y = C11_ADD(", b"\t1,", b"\t2", b");"], [b"y = C11_ID(", b"y", b");"],
                [b"c11_f(C11_ADD(1,", b"C11_ID(", b"2)));"], [b"y = y +", b"\t1;"], [b"if (y)", b"\ty = 4;"]]
FILLER_DECLS = [b"int c11_q%d;", b"static int c11_r%d = C11_ADD(1, 2);", b"extern int c11_e%d;",
                b"int c11_fun%d(int p) { return p + 1; }", b"struct c11_t%d { int m; };", b"typedef int c11_ty%d;"]
KB_FILES = [b"foo.c", b"a.h", b"dir/x.c", b"gen.c", b"f", b"inc/b.h"]


class Prog:
    pass


def gen_program(rng, path, tmpl=None):
    """An otherwise-valid program as a list of physical-line groups, ONE violating construct on a line of
    its own.  Returns Prog with .text, .viol_off, .tmpl, .feat (set), .oracle_safe."""
    P = Prog()
    P.tmpl = tmpl or rng.choice(TEMPLATES)
    name, slot, code, fid = P.tmpl
    P.feat = set()
    P.oracle_safe = True
    P.clang_safe = True
    items = []      # ("line", bytes) | ("viol", bytes) | ("nodeco", bytes) – nodeco: no directive may precede
    stack = [path]

    def deco():
        """things that may stand between two lines"""
        out = []
        while rng.random() < 0.45:
            r = rng.random()
            if r < 0.30:
                n = rng.choice([1, 2, 7, 10, 99, 100, 1000, 40000, rng.randint(1, 3000)])
                f = rng.choice(KB_FILES)
                fr = rng.random()
                flags = b""
                if fr < 0.45:
                    stack[-1] = f
                elif fr < 0.60 and items:      # (clang cannot pop a file entered on the very first line)
                    flags = b" 1"
                    stack.append(f)
                elif fr < 0.72 and len(stack) > 1:
                    stack.pop()
                    f = stack[-1]
                    flags = b" 2"
                elif fr < 0.80:
                    flags = b" 3"
                    stack[-1] = f
                    if slot == "arg":      # gcc locates macro-argument tokens of a system header at the expansion point
                        P.oracle_safe = False
                elif fr < 0.84:
                    flags = rng.choice([b" 2", b" 1 3 4", b" 4", b" 7", b" 2 3"])
                    P.oracle_safe = False
                    stack[-1] = f
                else:
                    stack[-1] = f
                out.append(rng.choice([b"# ", b"#", b"#  "]) + str(n).encode() + b' "' + f + b'"' + flags)
                P.feat.add("marker")
                if flags:
                    P.feat.add("marker-flags")
            elif r < 0.45:
                n = rng.choice([1, 5, 33, 1234, rng.randint(1, 9999)])
                if rng.random() < 0.5:
                    f = rng.choice(KB_FILES)
                    stack[-1] = f
                    out.append(b"#line " + str(n).encode() + b' "' + f + b'"')
                else:
                    out.append(b"#line " + str(n).encode())
                P.feat.add("#line")
            elif r < 0.52:
                out.append(rng.choice([b"#", b"# ", b"#pragma c11 p", b"#pragma"]))
                P.feat.add("null/pragma")
            elif r < 0.64:
                out.append(b"")
                P.feat.add("blank")
            elif r < 0.80:
                out.append(rng.choice([b"/* c", b"/*"]) + b"\n" * rng.randint(1, 3) + b" c */")
                P.feat.add("comment-spanning-lines")
            elif r < 0.90:
                out.append(b"// c \\\n continued " + rng.choice([b"", b"\\\n again"]))
                P.feat.add("line-comment-splice")
            else:
                out.append(rng.choice([b"\\", b"\\\n\\", b" \\"]))      # a line that is only a splice: joins with the next
                P.feat.add("splice-line")
        return out

    def splice_some(line):
        """insert backslash-newlines into a (non-violating) line"""
        if rng.random() < 0.25 and len(line) > 1 and not line.startswith(b"#"):
            k = rng.randint(1, 2)
            for _ in range(k):
                p = rng.randint(0, len(line))
                if line[max(0, p - 1):p] in (b"\\", b"\n") or line[p:p + 1] in (b"\\", b"\n"):
                    continue
                line = line[:p] + b"\\\n" + line[p:]
                P.feat.add("splice-in-line")
        return line

    def add(line, kind="line"):
        if not kind.endswith("nodeco"):
            for d in deco():
                items.append(("deco", d))
        items.append((kind, line))

    for l in PRELUDE:
        add(l)
    nd = rng.randint(0, 4)
    decls = [rng.choice(FILLER_DECLS) % i for i in range(nd)]
    vd = rng.randint(0, nd) if slot == "decl" else -1
    for i, d in enumerate(decls):
        if i == vd:
            add(code, "viol")
        add(d)
    if vd == nd:
        add(code, "viol")
    add(b"int c11_main(int x)")
    add(b"{")
    add(b"\tint y = 0;")
    body = []
    for _ in range(rng.randint(1, 7)):
        if rng.random() < 0.3:
            body.append(rng.choice(FILLER_MULTI))
            P.feat.add("multi-line-macro-invocation")
        else:
            body.append([rng.choice(FILLER_STMTS)])
    sw = [[b"switch (x) {"], [b"case 1:"], [b"\ty = 2;"], [b"\tbreak;"], ["CASE"], [b"default:"], [b"\tbreak;"], [b"}"]]
    pos = rng.randint(0, len(body))
    body[pos:pos] = sw
    if slot in ("stmt", "arg"):
        cand = [i for i in range(len(body) + 1) if i != pos + 1 and i != pos + 5]
        vi = rng.choice(cand)
        if slot == "stmt":
            body.insert(vi, ["VIOL"])
        else:
            body.insert(vi, [b"y = C11_ADD(1,", "VIOL", b"\t+ 2);"] if rng.random() < 0.5 else
                        [b"c11_f(C11_ID(", "VIOL", b"));"])
            P.feat.add("violation-in-macro-argument")
    for grp in body:
        first = True
        for ln in grp:
            if ln == "CASE":
                if slot == "case":
                    add(code, "viol")
                continue
            if ln == "VIOL":
                add(code, "viol" if first else "violnodeco")
            else:
                add(ln, "line" if first else "nodeco")
            first = False
    add(b"\treturn y;")
    add(b"}")
    add(b"int c11_after;")
    # render
    out = bytearray()
    P.viol_off = None
    for kind, ln in items:
        if kind in ("viol", "violnodeco"):
            pre = rng.choice([b"", b"", b"\t", b"  ", b"/* c */ ", b"/* a\n b */ ", b"\\\n", b"\f"])
            if b"\n" in pre:
                P.feat.add("comment/splice-before-violation")
            if pre == b"\\\n":
                P.clang_safe = False      # clang starts a token at a backslash-newline that directly precedes it
            out += pre
            P.viol_off = len(out)
            if bytes(out).endswith(b"\\\n"):
                P.clang_safe = False      # clang starts a token at a backslash-newline that directly precedes it
            out += ln + rng.choice([b"", b"", b" ", b" // c", b" /* c */", b" \\\n"])
            out += b"\n"
        else:
            out += (splice_some(ln) if kind == "line" else ln) + b"\n"
    if rng.random() < 0.15:
        out = out[:-1]
        P.feat.add("no-final-newline")
    P.text = bytes(out)
    P.name = name
    P.fid = fid
    return P


_DIAG = re.compile(rb"^(.*?):(\d+):(\d+): (?:fatal )?error: (.*)$", re.M)


def first_error(stderr):
    m = _DIAG.search(stderr)
    if not m:
        return None
    return (m.group(1), int(m.group(2)), int(m.group(3)), m.group(4)[:120])


def kb_expected(P, path):
    ref = reference(P.text, False, kb=True)
    return presumed(P.text, ref.dirs, P.viol_off, file0=path), ref


def run_kb(X):
    ck = X.ck
    rng = ck.rng
    d = os.path.join(ck.scratch(), "kb")
    os.makedirs(d, exist_ok=True)
    nprog = 500 if ck.quick else 4000
    progs = []
    # every template at least once, then random
    order = list(TEMPLATES) * (3 if ck.quick else 12)
    for k in range(nprog):
        path = os.path.join(d, "p%d.c" % k).encode()
        P = gen_program(rng, path, order[k] if k < len(order) else None)
        P.path = path
        open(path, "wb").write(P.text)
        progs.append(P)

    def run_one(P):
        r = subprocess.run([X.cproc, P.path.decode()], stdout=subprocess.DEVNULL, stderr=subprocess.PIPE, timeout=60)
        res = {"cproc": (r.returncode, r.stderr)}
        if P.oracle_safe:
            for cc in X.oracles:
                if cc == "clang" and not P.clang_safe or cc in ORACLE_SKIP.get(P.name, ()):
                    continue
                o = subprocess.run([cc, "-fsyntax-only", "-std=c11", "-x", "c", P.path.decode()],
                                   stdout=subprocess.DEVNULL, stderr=subprocess.PIPE, timeout=60)
                res[cc] = (o.returncode, o.stderr)
        return res

    with concurrent.futures.ThreadPoolExecutor(common.NPROC) as ex:
        results = list(ex.map(run_one, progs))
    nval = {cc: 0 for cc in X.oracles}
    for P, res in zip(progs, results):
        if len(ck.violations) >= 3:
            break
        ck.count(("kb", P.text))
        X.kb_tmpl[P.name] = X.kb_tmpl.get(P.name, 0) + 1
        for f in P.feat:
            X.kb_feat[f] = X.kb_feat.get(f, 0) + 1
        (wf, wl, wc), ref = kb_expected(P, P.path)
        X.kb_dirs += len(ref.dirs)
        # spec validation against the platform compilers (same presumed-location rules)
        for cc in X.oracles:
            if cc in res:
                fe = first_error(res[cc][1])
                if fe is None:
                    raise Broken("%s accepts a K-B program of template %s: %r" % (cc, P.name, P.text[-300:]))
                if (fe[0], fe[1]) != (wf, wl):
                    raise Broken("the presumed location %s:%d computed for template %s disagrees with %s (%s:%d: %s) on\n%s"
                                 % (wf.decode("latin-1"), wl, P.name, cc, fe[0].decode("latin-1"), fe[1],
                                    fe[3].decode("latin-1"), P.text.decode("latin-1")))
                nval[cc] += 1
        rc, err = res["cproc"]
        fe = first_error(err)
        rep = {"kind": "K-B", "template": P.name, "program": P.text.decode("latin-1"), "file": P.path.decode(),
               "viol_off": P.viol_off,
               "expected": "%s:%d" % (wf.decode("latin-1"), wl), "stderr": err[:400].decode("latin-1"),
               "reproduce": "cproc-qbe <file with the program text>; the first stderr line must start with the expected file:line",
               "what": "the diagnostic does not name the presumed file and line of the violating construct"}
        if rc == 0 or fe is None:
            rep["what"] = "no `file:line:col: error:` diagnostic for the violating construct (exit status %d)" % rc
            ck.violation(rep)
            continue
        if (fe[0], fe[1]) == (wf, wl):
            if P.fid is not None:
                X.notes_fixed.add(P.fid)
            continue
        rep["got"] = "%s:%d:%d" % (fe[0].decode("latin-1"), fe[1], fe[2])
        rep["original_expected"], rep["original_got"] = rep["expected"], rep["got"]
        nlw = None
        if ref.end is not None and ref.end[0] == "scan" and ref.end[1] in ("nlStr", "nlChar"):
            nlw = presumed(P.text, ref.dirs, ref.end[2], file0=P.path)      # where the offending new-line is
        if P.fid == FID_NL and nlw is not None and (fe[0], fe[1], fe[2]) == (nlw[0], nlw[1] + 1, 0):
            ck.report(rep, fid=FID_NL)
        elif P.fid == FID_TENT and fe[0] == presumed(P.text, ref.dirs, len(P.text), file0=P.path)[0] and \
                fe[1] == presumed(P.text, ref.dirs, len(P.text), file0=P.path)[1]:
            ck.report(rep, fid=FID_TENT)
        else:
            small = kb_shrink(X, P, d)
            if small is not None:
                rep.update(small)
            ck.violation(rep)
    ck.cov["spec_validated_against"] = nval


def kb_shrink(X, P, d):
    """drop physical lines that are not needed for the disagreement (keeps the violation line)"""
    lines = P.text.split(b"\n")
    # index of the line that holds viol_off
    acc, vline = 0, 0
    for i, ln in enumerate(lines):
        if acc <= P.viol_off <= acc + len(ln):
            vline = i
            break
        acc += len(ln) + 1
    path = os.path.join(d, "shrink.c").encode()

    def failing(ls, vi):
        text = b"\n".join(ls)
        off = sum(len(x) + 1 for x in ls[:vi]) + (P.viol_off - acc)
        open(path, "wb").write(text)
        r = subprocess.run([X.cproc, path.decode()], stdout=subprocess.DEVNULL, stderr=subprocess.PIPE)
        fe = first_error(r.stderr)
        ref = reference(text, False, kb=True)
        w = presumed(text, ref.dirs, off, file0=path)
        if fe is None:
            return None
        if not fe[3].startswith(first_error_msg):
            return None
        return None if (fe[0], fe[1]) == (w[0], w[1]) else (text, w, fe)

    r0 = subprocess.run([X.cproc, P.path.decode()], stdout=subprocess.DEVNULL, stderr=subprocess.PIPE)
    fe0 = first_error(r0.stderr)
    if fe0 is None:
        return None
    first_error_msg = fe0[3][:30]
    cur, vi = list(lines), vline
    last = None
    i = 0
    steps = 0
    while i < len(cur) and steps < 200:
        if i == vi:
            i += 1
            continue
        cand = cur[:i] + cur[i + 1:]
        cvi = vi - 1 if i < vi else vi
        steps += 1
        res = failing(cand, cvi)
        if res is not None:
            cur, vi, last = cand, cvi, res
        else:
            i += 1
    if last is None:
        return None
    text, w, fe = last
    return {"program": text.decode("latin-1"), "expected": "%s:%d" % (w[0].decode("latin-1"), w[1]),
            "viol_off": text.find(P.tmpl[2]),
            "got": "%s:%d:%d" % (fe[0].decode("latin-1"), fe[1], fe[2]), "file": path.decode(),
            "original_program": P.text.decode("latin-1")}


# ============================================================================= corpus
def run_corpus(X):
    ck = X.ck
    cdir = os.path.join(common.VERIF, "corpus", "C11")
    if not os.path.isdir(cdir):
        return
    ka = []
    for f in sorted(os.listdir(cdir)):
        p = os.path.join(cdir, f)
        if f.endswith(".kb.json"):
            w = json.load(open(p))
            text = bytes.fromhex(w["text_hex"])
            path = os.path.join(ck.scratch(), "corpus-" + f.replace(".kb.json", ".c"))
            open(path, "wb").write(text)
            r = subprocess.run([X.cproc, path], stdout=subprocess.DEVNULL, stderr=subprocess.PIPE)
            fe = first_error(r.stderr)
            ck.count(("corpus", f))
            X.ninputs["corpus-kb"] = X.ninputs.get("corpus-kb", 0) + 1
            wf = path.encode() if w["file"] is None else w["file"].encode()
            got = None if fe is None else (fe[0], fe[1])
            rep = {"kind": "corpus", "witness": f, "program": text.decode("latin-1"), "what": w.get("what"),
                   "expected": "%s:%d" % (wf.decode(), w["line"]), "stderr": r.stderr[:300].decode("latin-1")}
            if got == (wf, w["line"]):
                continue
            if w.get("fid") and fe is not None and (fe[1], fe[2]) == tuple(w.get("known_got", (-1, -1))):
                ck.report(rep, fid=w["fid"])
            else:
                ck.violation(rep)
        elif f.endswith(".c"):
            ka.append(open(p, "rb").read())
    if ka:
        examine(X, ka, "corpus")


def run_replay(X, rep):
    """bin/check C11 --replay file: re-run one recorded input"""
    ck = X.ck
    if "input_hex" in rep and rep.get("mode") in ("pp", "ppnl"):
        examine(X, [bytes.fromhex(rep["input_hex"])], "replay", modes=(rep["mode"],))
    elif "program" in rep:
        text = rep["program"].encode("latin-1")
        path = os.path.join(ck.scratch(), "replay.c").encode()
        open(path, "wb").write(text)
        r = subprocess.run([X.cproc, path.decode()], stdout=subprocess.DEVNULL, stderr=subprocess.PIPE)
        fe = first_error(r.stderr)
        ck.count(("replay", text))
        off = rep.get("viol_off")
        if off is None or off < 0:
            ck.notes.append("replay without the offset of the violating construct: nothing to compare")
            return
        ref = reference(text, False, kb=True)
        w = presumed(text, ref.dirs, off, file0=path)
        if fe is None or (fe[0], fe[1]) != (w[0], w[1]):
            ck.violation({"kind": "K-B", "program": rep["program"], "viol_off": off,
                          "expected": "%s:%d" % (w[0].decode("latin-1"), w[1]),
                          "got": None if fe is None else "%s:%d:%d" % (fe[0].decode("latin-1"), fe[1], fe[2]),
                          "stderr": r.stderr[:300].decode("latin-1"),
                          "what": "the diagnostic does not name the presumed file and line of the violating construct"})


# ============================================================================= main
def run(ck):
    ck.cov["rule"] = (
        "K-A: the pp/ppnl token stream of the real scanner+preprocessor (file:line.col per token, first stderr line; "
        "one forked child per input; ASan+UBSan on samples) vs Model/PPLine.lean vs an independent Python reference "
        "(byte-offset lexer + presumed-location formula): every text of <= %d symbols over {a, space, newline, "
        "backslash-newline, /*, */, //, #, line, 1, 7, \"f\", .}, random texts of markers/#line/pragmas/comments spanning "
        "lines/line comments ending in splices/literals/CR/FF/missing final new-line, a backslash-newline at every "
        "position. K-B: generated programs (markers with flags, #line, splices, comments, multi-line macro invocations) "
        "with one of %d violating constructs on a line of its own through cproc-qbe; first stderr line parsed as "
        "file:line:col and compared with the presumed location, which is validated against gcc and clang. "
        "distinct_nontrivial = distinct (mode, text) pairs and programs." % (4 if ck.quick else 5, len(TEMPLATES)))
    X = Ctx()
    X.ck = ck
    X.ninputs, X.feat, X.errs, X.splicepos = {}, {}, {}, {}
    X.kb_tmpl, X.kb_feat, X.kb_dirs = {}, {}, 0
    X.nunmodelled = X.ntok = X.ndirs = X.nlhits = 0
    X.notes_fixed = set()
    try:
        import importlib.util
        p = os.path.join(common.VERIF, "tools", "gen_c13.py")
        spec = importlib.util.spec_from_file_location("gen_c13", p)
        mod = importlib.util.module_from_spec(spec)
        spec.loader.exec_module(mod)
        kinds = mod.table_tokenkinds(common.REPO)
    except Exception as e:  # noqa
        ck.violation({"kind": "correspondence-broken", "what": "enum tokenkind can no longer be extracted from cc.h: %s" % e},
                     nofail=True)
        return
    X.kname = {v: k for k, v in kinds}
    kn = dict(kinds)
    X.TNEWLINE, X.TEOF = kn["TNEWLINE"], kn["TEOF"]
    ck.lean_build()
    if getattr(ck, "gen_error", None):
        ck.violation({"kind": "correspondence-broken", "what": ck.gen_error}, nofail=True)
        return
    if not ck.proofs_ok:
        ck.notes.append("Props.C11 does not build; searching for a failing input")
    try:
        X.harness = ck.build_harness("scan_h.c", common.REPO_UNITS)
        X.harness_plain = ck.build_harness("scan_h.c", common.REPO_UNITS, sanitize=False, name="scan_h_plain")
    except CompileError as e:
        ck.harness_broken("scan_h.c", e)
        return
    X.cproc = ck.build_cproc_qbe()
    from shutil import which
    X.oracles = [cc for cc in ("gcc", "clang") if which(cc)]
    if not X.oracles:
        ck.notes.append("neither gcc nor clang found: the presumed locations of K-B are not validated")
    if ck.replay:
        run_replay(X, json.load(open(ck.replay)))
        return
    steps = [run_corpus, random_texts, run_kb, exhaustive]
    for st in steps:
        if ck.violations:
            break
        t0 = time.time()
        st(X)
        X.ninputs["seconds:" + st.__name__] = round(time.time() - t0, 1)
    ck.cov["inputs_per_set"] = X.ninputs
    ck.cov["ka_features"] = X.feat
    ck.cov["ka_tokens_compared"] = X.ntok
    ck.cov["ka_line_directives_in_effect"] = X.ndirs
    ck.cov["ka_outside_modelled_domain"] = X.nunmodelled
    ck.cov["ka_diagnostics"] = X.errs
    ck.cov["ka_newline_token_cases"] = X.nlhits
    ck.cov["splice_positions"] = {str(k): v for k, v in sorted(X.splicepos.items())}
    ck.cov["kb_templates"] = X.kb_tmpl
    ck.cov["kb_features"] = X.kb_feat
    ck.cov["kb_line_directives"] = X.kb_dirs
    if X.notes_fixed:
        ck.notes.append("templates of a recorded finding that were located correctly this run: %s" % sorted(X.notes_fixed))
    if not ck.proofs_ok and not ck.violations:
        ck.violation({"kind": "proof-broken", "theorem": "CprocVerif.Props.C11 (lake build failed)",
                      "log": ck.build_log[-3000:]}, nofail=True)
    ck.assumptions = [
        "getc/ungetc on a FILE deliver the bytes of the file; two pushed-back characters come back in LIFO order (glibc)",
        "strtoull(s, NULL, 10) returns the value of the leading decimal digits, ULLONG_MAX on overflow",
        "size_t is 64 bits: line numbers are compared modulo 2^64 (the model counts in unbounded naturals)",
        "texts with #define/#undef (macro expansion: property C12) and `#pragma #` are outside the modelled domain of "
        "K-A; K-B programs do use macros, there only the location of the violating token is checked",
        "the parser passes the location of a token of the violating construct to error() (true for the %d templates "
        "used; per-site coverage is property C10's catalogue)" % len(TEMPLATES),
    ]


META = {
    "category": "proof",
    "text": ("Lean 4 theorems about a transliteration of scan.c's reader/scanner (line and column counting incl. "
             "backslash-newline pairs, the `..` push-back) and of pp.c's directive() for `# n \"file\" flags`, "
             "`#line n [\"file\"]`, #pragma, the null directive and the diagnosed directives (incl. when scansetloc takes "
             "effect), for every source text without macro definitions, no length bound: every delivered token other "
             "than a new-line token, and every token a preprocessor diagnostic points at, carries the presumed file and "
             "line of its first byte (last line directive ending at or before it + physical new-lines since; splices "
             "and comment new-lines count) and its 1-based physical column; a directive takes effect behind its own "
             "line; token offsets increase; directive records are logged in text order; line numbers are monotone "
             "between directives; the model's loops never run out of fuel. The full statements are false for new-line "
             "tokens (recorded finding newline-token-next-line): proved as counterexamples, with what such tokens get "
             "instead. Tied to /repo on every run by the real preprocessor's token dump (all of /repo linked, one child "
             "per input, ASan+UBSan on samples) on every text of <= 4 (thorough 5) symbols over a 13-symbol alphabet of "
             "directive/comment/splice material, random directive-heavy texts, a splice at every position, and "
             "end-to-end by compiling generated programs with one violating construct at a known presumed location."),
    "design_ref": "DESIGN.md section 4, C11",
    "note": ("Trusted: Lean kernel + propext/Classical.choice/Quot.sound; the hand-written models (tied by the "
             "differential run); the reading of 6.10.4 / gcc line markers in Spec/Presumed.lean (cross-checked against "
             "gcc and clang diagnostics on the K-B programs, and against an independent Python implementation on every "
             "K-A input); libc stdio/strtoull. Which token the parser blames for a violation is not modelled (the "
             "violating construct is kept on one physical line; which diagnostics exist is C10). Scanner diagnostics "
             "(unterminated literal/comment, bad escape) are compared model-vs-code exactly and against the spec for "
             "file and line; the theorems cover tokens and preprocessor diagnostics. Recorded deviations: a new-line "
             "token (and 'newline in string literal') is located on the following line; a tentative definition of "
             "incomplete type is diagnosed at the end of the file; file names in line directives are not "
             "escape-processed (XXX in pp.c)."),
    "technique": "Lean 4 proof (state invariant relating the scanner state to the byte offset, preserved by nextchar and "
                 "every loop of scan.c; case analysis of scankind; induction over the preprocessor run) + "
                 "exhaustive/random differential correspondence + end-to-end location check validated against gcc/clang",
}

"""Shared by C01 / C03 (and used by C19, C20): generate programs, compile them with the freshly
built cproc-qbe, validate the IL with the proved-sound validator and run it under the formal IL
semantics (lean/CprocVerif/Spec/Qbe.lean through drv_c03), compare with the native oracle."""
import concurrent.futures
import os
import re
import subprocess
import sys

from . import common, oracle

sys.path.insert(0, common.VERIF)
from gen import cprog  # noqa: E402

TARGETS = [("x86_64-sysv", True), ("aarch64", False), ("riscv64", False)]


def drv03():
    return os.path.join(common.LEAN, ".lake", "build", "bin", "drv_c03")


def ensure_drv03(ck):
    if not os.path.exists(drv03()) or ck.pid != "C03":
        ok, log = ck.lake(["drv_c03"])
        if not ok:
            raise common.Broken("drv_c03 does not build: " + log[-1500:])


def compile_c(cc, target, src_path, out_path, timeout=60):
    r = subprocess.run([cc, "-t", target, "-o", out_path, src_path], stdout=subprocess.PIPE,
                       stderr=subprocess.PIPE, text=True, timeout=timeout)
    return r.returncode, r.stderr


def wf(paths):
    """drv_c03 wf on many files: list of (path, 'ok ...' | 'bad ...')"""
    out = []
    for i in range(0, len(paths), 200):
        chunk = paths[i:i + 200]
        r = subprocess.run([drv03(), "wf"] + chunk, stdout=subprocess.PIPE, stderr=subprocess.PIPE, text=True)
        lines = r.stdout.splitlines()
        if len(lines) != len(chunk):
            raise common.Broken("drv_c03 wf: %d lines for %d files: %s" % (len(lines), len(chunk), r.stderr[-500:]))
        out.extend(zip(chunk, lines))
    return out


def with_sizes(prog_text, gen):
    """append size/alignment probes for every global of the generated program"""
    extra = []
    for g in gen.globals:
        extra.append("unsigned long %s__sz = sizeof %s;" % (g.name, g.name))
        extra.append("unsigned long %s__al = _Alignof(typeof(%s));" % (g.name, g.name))
    return prog_text + "\n".join(extra) + "\n"


def gen_program(seed, charsigned, size=1.0, sizes=False, **kw):
    import random
    g = cprog.ProgGen(random.Random(seed), charsigned=charsigned, size=size, **kw)
    text = g.program()
    if sizes:
        text = with_sizes(text, g)
    return text, g


def classify_wf(msg, src):
    """known-finding class of a wf rejection, by message and source pattern"""
    if "not a predecessor" in msg and re.search(r"_Noreturn|noreturn", src):
        return "phi-nonpredecessor-after-noreturn"
    if "not dominated" in msg and re.search(r"typedef[^;]*\[[^\]0-9][^\]]*\]", src):
        return "vla-typedef-size-not-dominating"
    return None


def run_many(fn, items, workers=None):
    with concurrent.futures.ThreadPoolExecutor(workers or common.NPROC) as ex:
        return list(ex.map(fn, items))

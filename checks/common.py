"""Shared machinery for every property check (see DESIGN.md section 1.2).

A check module `checks/cNN.py` defines `run(ck)`; `bin/check CNN --tier quick|thorough`
creates a `Check`, calls `run`, then `ck.finish()` writes evidence/CNN.json and exits with
0 (held / only known findings), 1 (VIOLATION printed) or 2 (the machinery itself is broken).
"""
import atexit
import concurrent.futures
import fcntl
import hashlib
import json
import os
import random
import re
import shutil
import subprocess
import sys
import tempfile
import time

VERIF = os.path.dirname(os.path.dirname(os.path.abspath(__file__)))
REPO = os.environ.get("CPROC_REPO", "/repo")
LEAN = os.path.join(VERIF, "lean")
CACHE = os.path.join(VERIF, ".cache")
NPROC = os.cpu_count() or 4

ALLOWED_AXIOMS = {"propext", "Classical.choice", "Quot.sound"}
FORBIDDEN = re.compile(
    r"\bsorry\b|\badmit\b|^\s*axiom\s|\bnative_decide\b|\bimplemented_by\b|\bunsafe\s|maxHeartbeats\s+0\b")
TRUSTED_BASE = [
    "Lean 4.33.0 kernel (lake build; leanchecker in the thorough tier)",
    "axioms propext, Classical.choice, Quot.sound only (audited with collectAxioms on every run)",
    "hand-written Lean model tied to /repo by the differential correspondence run of this check",
    "generators/harnesses of this check (Python/C) and gcc/clang used to build /repo's sources",
]

REPO_UNITS = ["attr", "decl", "eval", "expr", "init", "map", "pp", "scan", "scope", "stmt",
              "targ", "token", "tree", "type", "utf", "util", "qbe"]  # + main for cproc-qbe


class Broken(Exception):
    """The check machinery cannot run (not a property violation)."""


def sh(cmd, **kw):
    kw.setdefault("stdout", subprocess.PIPE)
    kw.setdefault("stderr", subprocess.STDOUT)
    kw.setdefault("text", True)
    return subprocess.run(cmd, **kw)


def sha(*parts):
    h = hashlib.sha256()
    for p in parts:
        if isinstance(p, str):
            p = p.encode()
        h.update(p)
        h.update(b"\0")
    return h.hexdigest()[:24]


class Check:
    def __init__(self, pid, tier="quick", replay=None):
        self.pid = pid
        self.tier = os.environ.get("VERIF_TIER", tier) if tier is None else tier
        self.seed = int(os.environ.get("VERIF_SEED", "0") or 0)
        self.rng = random.Random(self.seed * 1000003 + int(pid[1:]))
        self.replay = replay
        self.t0 = time.time()
        self._scratch = None
        self._src = None
        self.violations = []      # replay paths
        self.known_hit = {}       # finding id -> what
        self.notes = []
        self.cov = {"evaluations": 0, "distinct_nontrivial": 0, "rule": "", "samples": []}
        self.level = "proof"
        self.assumptions = []
        self.obligations = []     # theorem names
        self.discharged = []
        self.axioms = {}
        self._findings = None
        self._distinct = set()
        os.makedirs(os.path.join(VERIF, "evidence"), exist_ok=True)
        os.makedirs(os.path.join(VERIF, "replays"), exist_ok=True)
        import glob
        for old in glob.glob(os.path.join(VERIF, "replays", "%s-%s-s%d-*.json" % (self.pid, self.tier, self.seed))):
            os.unlink(old)      # replays of an earlier run with the same parameters

    # ------------------------------------------------------------------ scratch + builds
    @property
    def quick(self):
        return self.tier != "thorough"

    def scratch(self):
        if self._scratch is None:
            base = "/var/tmp" if os.path.isdir("/var/tmp") else None
            self._scratch = tempfile.mkdtemp(prefix="cvf-%s-" % self.pid, dir=base)
            atexit.register(shutil.rmtree, self._scratch, True)
        return self._scratch

    def repo_src(self):
        """Copy of /repo's current working-tree sources (*.c *.h) in the scratch dir."""
        if self._src is None:
            d = os.path.join(self.scratch(), "src")
            os.makedirs(d)
            for f in sorted(os.listdir(REPO)):
                if f.endswith((".c", ".h")):
                    shutil.copy(os.path.join(REPO, f), d)
            self._src = d
        return self._src

    def _headers_hash(self, extra_dirs=()):
        h = hashlib.sha256()
        for d in (self.repo_src(),) + tuple(extra_dirs):
            for f in sorted(os.listdir(d)):
                if f.endswith(".h"):
                    h.update(f.encode())
                    h.update(open(os.path.join(d, f), "rb").read())
        return h.hexdigest()

    def compile_objs(self, files, flags, cc="gcc", extra_inc=()):
        """Compile C files (absolute paths) in parallel with a content-addressed object cache.
        Returns list of object paths.  Raises CompileError(output) on failure."""
        os.makedirs(os.path.join(CACHE, "obj"), exist_ok=True)
        hh = self._headers_hash(extra_inc)
        jobs = []
        for f in files:
            key = sha(cc, " ".join(flags), hh, open(f, "rb").read(), os.path.basename(f))
            obj = os.path.join(CACHE, "obj", key + ".o")
            jobs.append((f, obj))

        def one(job):
            f, obj = job
            if os.path.exists(obj):
                return None
            tmp = obj + ".%d.tmp" % os.getpid()
            inc = ["-I" + self.repo_src()] + ["-I" + d for d in extra_inc]
            r = sh([cc] + flags + inc + ["-c", "-o", tmp, f])
            if r.returncode != 0:
                return "%s: %s" % (f, r.stdout[-4000:])
            os.replace(tmp, obj)
            return None

        with concurrent.futures.ThreadPoolExecutor(NPROC) as ex:
            errs = [e for e in ex.map(one, jobs) if e]
        if errs:
            raise CompileError("\n".join(errs))
        return [o for _, o in jobs]

    def link(self, objs, name, flags=(), cc="gcc"):
        out = os.path.join(self.scratch(), name)
        r = sh([cc] + list(flags) + ["-o", out] + objs)
        if r.returncode != 0:
            raise CompileError(r.stdout[-4000:])
        return out

    SAN = ["-O1", "-g", "-fsanitize=address,undefined", "-fno-sanitize-recover=undefined",
           "-fno-omit-frame-pointer"]
    PLAIN = ["-O1", "-g"]

    def build_cproc_qbe(self, sanitize=False, name=None):
        """Build cproc-qbe from the scratch copy of /repo.  A failure here is a broken tree."""
        flags = (self.SAN if sanitize else self.PLAIN) + ["-std=c11", "-w"]
        src = self.repo_src()
        files = [os.path.join(src, u + ".c") for u in REPO_UNITS + ["main"]]
        try:
            objs = self.compile_objs(files, flags)
            return self.link(objs, name or ("cproc-qbe-san" if sanitize else "cproc-qbe"),
                             flags=["-fsanitize=address,undefined"] if sanitize else [])
        except CompileError as e:
            raise Broken("/repo does not build: %s" % e)

    def build_harness(self, harness, units, sanitize=True, name=None, extra_flags=()):
        """Compile harness/<harness> together with /repo's own translation units `units`
        (names without .c).  If it no longer compiles against /repo the correspondence is
        broken: reported as a VIOLATION ... no-failing-input-found by the caller via
        `harness_broken`."""
        flags = (self.SAN if sanitize else self.PLAIN) + ["-std=gnu11", "-w"] + list(extra_flags)
        src = self.repo_src()
        hpath = os.path.join(VERIF, "harness", harness)
        files = [os.path.join(src, u + ".c") for u in units] + [hpath]
        objs = self.compile_objs(files, flags, extra_inc=(os.path.join(VERIF, "harness"),))
        return self.link(objs, name or harness.replace(".c", ""),
                         flags=["-fsanitize=address,undefined"] if sanitize else [])

    def harness_broken(self, harness, err):
        self.violation({"kind": "correspondence-broken",
                        "what": "harness %s no longer builds against /repo's public interfaces" % harness,
                        "compiler_output": str(err)[-3000:]}, nofail=True)

    # ------------------------------------------------------------------ Lean side
    def gen_tables(self):
        tool = os.path.join(VERIF, "tools", "gen_tables.py")
        if os.path.exists(tool):
            r = sh([sys.executable, tool, REPO, os.path.join(LEAN, "CprocVerif", "Gen")])
            # plugins are named gen_<pid>.py; only a failure of this property's own plugin matters here
            self.gen_error = None
            for ln in r.stdout.splitlines():
                if ln.startswith("gen_%s: ERROR" % self.pid.lower()):
                    self.gen_error = ln
            if self.gen_error:
                self.notes.append("translator: " + self.gen_error)
            return r.stdout
        return ""

    def lake(self, targets, timeout=3000):
        """lake build under an exclusive lock.  Returns (ok, log)."""
        lock = open(os.path.join(LEAN, ".build.lock"), "w")
        fcntl.flock(lock, fcntl.LOCK_EX)
        try:
            r = sh(["lake", "build"] + list(targets), cwd=LEAN, timeout=timeout)
        finally:
            fcntl.flock(lock, fcntl.LOCK_UN)
            lock.close()
        return r.returncode == 0, r.stdout

    def lean_build(self, extra_targets=()):
        """Regenerate Gen/, build Props.<pid> + the driver, audit.  Returns True when the
        proofs of this property all check.  A failing build is NOT fatal here: the caller
        goes on to search for a failing input (DESIGN 1.2 step 6)."""
        self.gen_tables()
        prop = "CprocVerif.Props.%s" % self.pid
        drv = "drv_%s" % self.pid.lower()
        ok, log = self.lake([prop, drv] + list(extra_targets))
        self.build_log = log
        if not ok:
            # distinguish: does the driver alone build?
            ok2, log2 = self.lake([drv])
            self.drv_ok = ok2
            self.proofs_ok = False
            self.notes.append("lake build of %s failed" % prop)
            return False
        self.drv_ok = True
        self.proofs_ok = True
        self.audit()
        return True

    def audit(self):
        """grep for forbidden constructs + collectAxioms on every theorem of Props.<pid>."""
        bad = []
        for root, _, files in os.walk(LEAN):
            if ".lake" in root:
                continue
            for f in files:
                if not f.endswith(".lean"):
                    continue
                txt = open(os.path.join(root, f)).read()
                txt = re.sub(r"/-.*?-/", "", txt, flags=re.S)
                for ln in txt.splitlines():
                    ln = ln.split("--")[0]
                    if FORBIDDEN.search(ln):
                        bad.append("%s: %s" % (f, ln.strip()))
        if bad:
            raise Broken("forbidden construct in Lean sources: %s" % bad[:5])
        mod = "CprocVerif.Props.%s" % self.pid
        src = AUDIT_TEMPLATE.replace("MODULE", mod)
        path = os.path.join(self.scratch(), "Audit%s.lean" % self.pid)
        open(path, "w").write(src)
        r = sh(["lake", "env", "lean", path], cwd=LEAN)
        thms = {}
        for ln in r.stdout.splitlines():
            m = re.search(r"AXIOMS (\S+) \[(.*)\]", ln)
            if m:
                thms[m.group(1)] = [a.strip() for a in m.group(2).split(",") if a.strip()]
        if r.returncode != 0 or not thms:
            raise Broken("axiom audit failed: " + r.stdout[-2000:])
        self.obligations = sorted(thms)
        self.axioms = thms
        self.discharged = sorted(t for t, ax in thms.items() if set(ax) <= ALLOWED_AXIOMS)
        if len(self.discharged) != len(self.obligations):
            raise Broken("theorems with non-allowed axioms: %s" %
                         {t: a for t, a in thms.items() if not set(a) <= ALLOWED_AXIOMS})
        if not self.quick:
            r = sh(["lake", "env", "leanchecker", mod], cwd=LEAN)
            self.notes.append("leanchecker %s: rc=%d" % (mod, r.returncode))
            if r.returncode != 0:
                raise Broken("leanchecker rejected %s: %s" % (mod, r.stdout[-1500:]))

    def drv_path(self):
        return os.path.join(LEAN, ".lake", "build", "bin", "drv_%s" % self.pid.lower())

    def run_drv(self, text, args=(), timeout=1200):
        """Feed operation lines to the model driver; returns list of output lines."""
        r = subprocess.run([self.drv_path()] + list(args), input=text, stdout=subprocess.PIPE,
                           stderr=subprocess.PIPE, text=True, timeout=timeout)
        if r.returncode != 0:
            raise Broken("model driver failed rc=%d: %s" % (r.returncode, r.stderr[-1000:]))
        return r.stdout.splitlines()

    # ------------------------------------------------------------------ results
    def findings(self):
        if self._findings is None:
            p = os.path.join(VERIF, "known_findings.json")
            self._findings = json.load(open(p)) if os.path.exists(p) else []
        return [f for f in self._findings if f.get("property") == self.pid]

    def known(self, fid):
        """Return the known-finding entry with this id (status 'known') or None."""
        for f in self.findings():
            if f.get("id") == fid and f.get("status") == "known":
                return f
        return None

    def report(self, replay, fid=None, nofail=False):
        """A failing input was found.  If it matches a recorded known finding `fid`, print
        KNOWN-FINDING once; otherwise VIOLATION."""
        if fid and self.known(fid):
            if fid not in self.known_hit:
                self.known_hit[fid] = self.known(fid)["what"]
                print("KNOWN-FINDING: property=%s %s [%s]" % (self.pid, self.known(fid)["what"], fid))
            return
        self.violation(replay, nofail)

    def violation(self, replay, nofail=False):
        n = len(self.violations)
        if n >= 5:      # keep the output readable; count still recorded
            self.violations.append(None)
            return
        path = os.path.join(VERIF, "replays", "%s-%s-s%d-%d.json" % (self.pid, self.tier, self.seed, n))
        replay = dict(replay)
        replay.setdefault("property", self.pid)
        replay["seed"] = self.seed
        replay["tier"] = self.tier
        if nofail:
            replay["no_failing_input_found"] = True
        json.dump(replay, open(path, "w"), indent=1, default=str)
        self.violations.append(path)
        print("VIOLATION property=%s replay=%s%s" % (self.pid, path, " no-failing-input-found" if nofail else ""))
        sys.stdout.flush()

    def phase(self, name):
        """context manager: wall time of a phase of the check, recorded in the evidence (coverage.phase_s)"""
        ck = self

        class _P:
            def __enter__(self_inner):
                self_inner.t = time.time()

            def __exit__(self_inner, *a):
                d = ck.cov.setdefault("phase_s", {})
                d[name] = round(d.get(name, 0) + time.time() - self_inner.t, 2)
                return False
        return _P()

    def count(self, key=None, nontrivial=True):
        self.cov["evaluations"] += 1
        if nontrivial and key is not None:
            self._distinct.add(key if isinstance(key, (str, int, tuple)) else repr(key))

    def sample(self, s, limit=6):
        if len(self.cov["samples"]) < limit:
            self.cov["samples"].append(s)

    def finish(self):
        self.cov["distinct_nontrivial"] = max(self.cov["distinct_nontrivial"], len(self._distinct))
        cov = dict(self.cov)
        if self.level == "proof":
            cov["obligations"] = len(self.obligations)
            cov["discharged"] = len(self.discharged)
            cov["theorems"] = self.obligations
            cov["checker_cmd"] = ("cd lean && lake build CprocVerif.Props.%s && lake env lean <audit: "
                                  "collectAxioms on every theorem of the module>" % self.pid) + \
                                 ("" if self.quick else " && lake env leanchecker CprocVerif.Props.%s" % self.pid)
            cov["trusted_base"] = TRUSTED_BASE
            cov["axioms_used"] = sorted({a for ax in self.axioms.values() for a in ax})
        cov["known_findings_reproduced"] = sorted(self.known_hit)
        cov["notes"] = self.notes
        ev = {"property_id": self.pid, "tier": "thorough" if not self.quick else "quick",
              "seed": self.seed, "level": self.level, "coverage": cov,
              "assumptions": self.assumptions, "wall_s": round(time.time() - self.t0, 2),
              "violations": len(self.violations)}
        json.dump(ev, open(os.path.join(VERIF, "evidence", "%s.json" % self.pid), "w"), indent=1, default=str)
        return 1 if self.violations else 0


class CompileError(Exception):
    pass


AUDIT_TEMPLATE = """
import Lean
import MODULE
open Lean Elab Command in
run_cmd do
  let env ← getEnv
  let some idx := env.getModuleIdx? `MODULE | throwError "module not found"
  let mut n : Nat := 0
  for (c, ci) in env.constants.map₁.toList do
    if env.getModuleIdxFor? c == some idx then
      if let .thmInfo _ := ci then
        if !c.isInternalDetail then
          let axs ← Lean.collectAxioms c
          logInfo m!"AXIOMS {c} {axs.toList}"
          n := n + 1
  logInfo m!"AUDITED {n}"
"""


def diff_lines(a, b):
    """Index of first differing line, or None."""
    for i, (x, y) in enumerate(zip(a, b)):
        if x != y:
            return i
    if len(a) != len(b):
        return min(len(a), len(b))
    return None


def main(pid, run):
    import argparse
    ap = argparse.ArgumentParser()
    ap.add_argument("--tier", default=os.environ.get("VERIF_TIER", "quick"))
    ap.add_argument("--replay", default=None)
    a = ap.parse_args(sys.argv[2:] if len(sys.argv) > 1 and sys.argv[1] == pid else sys.argv[1:])
    ck = Check(pid, a.tier, a.replay)
    try:
        run(ck)
        rc = ck.finish()
    except Broken as e:
        print("BROKEN-CHECK property=%s: %s" % (pid, e), file=sys.stderr)
        ck.notes.append("broken: %s" % e)
        try:
            ck.finish()
        except Exception:
            pass
        sys.exit(2)
    sys.exit(rc)

"""C18 - a failing stage makes the whole driver invocation fail cleanly.

Proof:  lean/CprocVerif/Props/C18.lean over Model/DriverFail.lean (transition system of buildobj /
        buildexe / atexit cleanup; every spawn result and every order and status of wait() results
        is an input): fail_safe, terminates, signalled_after_failure, success_clean,
        link_fail_clean, eof_reaches_downstream (fd model of spawnphase).
Tie:    K-C  the real driver.c (unmodified, ASan+UBSan) with scripted stub tools found through a
        per-run PATH directory: pipeline shapes (1..3 inputs x last stage in E/emit-qbe/S/c/link)
        x failing stage x failure mode {spawn failure, exit 1 before reading / after half / after
        finishing, SIGSEGV, SIGKILL} x termination orders forced by delays; observed: exit status,
        whether ld ran, surviving files in cwd, temporaries left, descendants after exit, which
        stages finished by themselves, descriptors seen by every tool, wall clock.  Compared with
        drv_c18 (the model's outcome for that spawn/reap script) and with the property's `ok`
        predicate stated directly on the observation.
"""
import concurrent.futures
import itertools
import json
import os

from . import common, drvkc
from .common import CompileError

STAGE_ROLES = ["cpp", "cproc-qbe", "qbe", "as"]
MODES = {"E": (["-E"], 1, None), "emit-qbe": (["-emit-qbe"], 2, "qbe"), "S": (["-S"], 3, "s"),
         "c": (["-c"], 4, "o"), "link": ([], 4, None)}
FMODES = ["spawn", "exit-before-reading", "exit-after-half", "exit-after-finishing", "SIGSEGV", "SIGKILL"]
NAMES = ["a.c", "b.c", "c.c"]
STEP = 90          # ms between forced termination times
BASE = 150


def fail_acts(fmode, d):
    return {"exit-before-reading": "s%d,x1" % d, "exit-after-half": "s%d,w8,x1" % d,
            "exit-after-finishing": "s%d,w16,x1" % d, "SIGSEGV": "s%d,kSEGV" % d, "SIGKILL": "s%d,kKILL" % d}[fmode]


def creates_output(fmode):
    return fmode in ("exit-after-half", "exit-after-finishing")


class Case:
    """ninputs, mode, fail = None | (k, s, fmode) | ("ld", fmode); order = tuple of stage indices
    of the failing pipeline sorted by forced termination time; scale multiplies the delays."""
    def __init__(self, ninputs, mode, fail, order=None, flow="forced", scale=1, inherit=False):
        self.ninputs, self.mode, self.fail, self.flow, self.scale = ninputs, mode, fail, flow, scale
        self.inherit = inherit      # the driver starts with a child it did not spawn, which exits while stages run
        self.n = MODES[mode][1]
        self.order = tuple(order) if order is not None else tuple(range(self.n))

    def key(self):
        return (self.ninputs, self.mode, self.fail, self.order, self.flow) + (("inherit",) if self.inherit else ())

    def argv(self):
        return MODES[self.mode][0] + NAMES[:self.ninputs]

    def failing_pipe(self):
        if self.fail is None or self.fail[0] == "ld":
            return None
        return self.fail[0]

    def delays(self):
        return {s: (BASE + rank * STEP) * self.scale for rank, s in enumerate(self.order)}

    def quiet(self, j, delay):
        """a stage that terminates by itself after `delay` ms independently of its neighbours: it reads
        nothing and only the last stage writes (its output file) - a write into a pipe whose reader is
        already gone would be a SIGPIPE, i.e. an additional failure at another time"""
        return "s%d,w16,x0" % delay if j == self.n - 1 else "s%d,x0" % delay

    def script_and_missing(self):
        """STUB_SCRIPT and roles missing from the PATH directory."""
        ent, missing = [], []
        f = self.fail
        if f is None:
            return None, ()
        if f[0] == "ld":
            if f[1] == "spawn":
                return None, ("ld",)
            return "ld#0=" + fail_acts(f[1], 0), ()
        k, s, fmode = f
        d = self.delays()
        if self.flow == "natural":
            # data really flows: everyone reads to EOF; the failing stage fails at once
            ent.append("%s#%d=%s" % (STAGE_ROLES[s], k, "x1" if fmode != "SIGSEGV" else "kSEGV"))
            return ";".join(ent), ()
        if self.flow == "early-reader":
            # former hang (fixed by 06e6c71): stage s+1 exits 0 without reading, stage s writes more than
            # a pipe holds; it must now get SIGPIPE and the invocation must fail cleanly
            return "%s#%d=w300000,x0;%s#%d=s100,x0" % (STAGE_ROLES[s], k, STAGE_ROLES[s + 1], k), ()
        if self.flow == "blocked" and fmode == "spawn":
            # stage s-1 writes more than a pipe holds and is stuck until it is killed; stage s cannot be started
            # (first pipeline only: the tool is missing from the start)
            ent.append("%s#%d=w400000,x0" % (STAGE_ROLES[s - 1], k))
            for j in range(self.n):
                if j not in (s, s - 1):
                    ent.append("%s#%d=%s" % (STAGE_ROLES[j], k, self.quiet(j, 6 * BASE * self.scale)))
            return ";".join(ent), (STAGE_ROLES[s],)
        if self.flow == "blocked":
            # stage s-1 writes more than a pipe holds and is stuck until it is killed; s fails
            ent.append("%s#%d=w400000,x0" % (STAGE_ROLES[s - 1], k))
            ent.append("%s#%d=s%d,x1" % (STAGE_ROLES[s], k, BASE * self.scale))
            for j in range(self.n):
                if j not in (s, s - 1):
                    ent.append("%s#%d=%s" % (STAGE_ROLES[j], k, self.quiet(j, 6 * BASE * self.scale)))
            return ";".join(ent), ()
        for j in range(self.n):
            role = STAGE_ROLES[j]
            if j == s and fmode != "spawn":
                ent.append("%s#%d=%s" % (role, k, fail_acts(fmode, d[j])))
            elif j == s:
                continue
            elif fmode == "spawn":
                ent.append("%s#%d=%s" % (role, k, self.quiet(j, 5 * BASE * self.scale)))   # killed long before
            else:
                ent.append("%s#%d=%s" % (role, k, self.quiet(j, d[j])))
        if fmode == "spawn":
            if k == 0:
                missing.append(STAGE_ROLES[s])
            else:   # the last stage of the previous pipeline removes the tool once everything there is spawned
                ent.append("%s#%d=D%s,rall,w16,x0" % (STAGE_ROLES[self.n - 1], k - 1, STAGE_ROLES[s]))
        return ";".join(ent), tuple(missing)

    def model_line(self):
        """the spawn/reap script handed to drv_c18 (prediction of what the OS will do)"""
        link = self.mode == "link"
        toks = ["L1" if link else "L0"]
        created_ok = "0" if self.mode == "E" else "1"
        fp = self.failing_pipe()
        npipes = self.ninputs if fp is None else fp + 1
        for p in range(npipes):
            if p != fp:
                reaps = "/".join("%d:o" % j for j in range(self.n))
                toks.append("P%d,%s,%s,%s" % (self.n, "1" * self.n, created_ok, reaps))
                continue
            k, s, fmode = self.fail
            if fmode == "spawn":
                bits = "1" * s + "0" + "1" * (self.n - s - 1)
                reaps = "/".join("%d:f" % j for j in range(s)) or "-"
                toks.append("P%d,%s,0,%s" % (self.n, bits, reaps))
                continue
            if self.flow == "early-reader":
                rs = ["%d:o" % (s + 1), "%d:f" % s] + ["%d:f" % j for j in range(self.n) if j not in (s, s + 1)]
                toks.append("P%d,%s,0,%s" % (self.n, "1" * self.n, "/".join(rs)))
                continue
            if self.flow == "blocked":
                rs = ["%d:f" % s] + ["%d:f" % j for j in range(self.n) if j != s]
                toks.append("P%d,%s,0,%s" % (self.n, "1" * self.n, "/".join(rs)))
                continue
            d = self.delays()
            before = [j for j in self.order if d[j] < d[s]]
            after = [j for j in self.order if d[j] > d[s]]
            rs = ["%d:o" % j for j in before] + ["%d:f" % s] + ["%d:f" % j for j in after]
            toks.append("P%d,%s,0,%s" % (self.n, "1" * self.n, "/".join(rs)))
        f = self.fail
        if f is not None and f[0] == "ld":
            toks.append("K%s%s%s" % ("0" if f[1] == "spawn" else "1", "f", "1" if creates_output(f[1]) else "0"))
        else:
            toks.append("K1o1")
        return " ".join(toks)

    def describe(self):
        return {"argv": self.argv(), "mode": self.mode, "inputs": self.ninputs, "fail": self.fail,
                "termination_order": list(self.order), "flow": self.flow, "scale": self.scale, "inherited_child": self.inherit,
                "stub_script": self.script_and_missing()[0], "missing_tools": list(self.script_and_missing()[1])}

    def out_name(self, p):
        ext = MODES[self.mode][2]
        return None if ext is None else NAMES[p].rsplit(".", 1)[0] + "." + ext

    def clean_time(self):
        if self.fail is None or self.fail[0] == "ld":
            return 0.3
        return (BASE + self.n * STEP) * self.scale / 1000.0 + 0.3


def observe(case, r):
    """what the property talks about, read off the run"""
    ends_ok = set()
    for e in r.ends:
        if e["status"] == 0 and e["role"] in STAGE_ROLES:
            ends_ok.add((e["idx"], STAGE_ROLES.index(e["role"])))
    starts = {(e["idx"], STAGE_ROLES.index(e["role"])) for e in r.starts if e["role"] in STAGE_ROLES}
    return {"rc": r.rc, "hang": r.hang, "ld": any(e["role"] == "ld" for e in r.starts),
            "files": [f for f in r.after if f not in NAMES], "temps_left": r.temps_left, "ntemps": len(r.temps),
            "survivors": r.survivors, "finished": sorted(ends_ok), "starts": sorted(starts),
            "extra_fds": sorted({fd for e in r.starts for fd in e.get("fds", []) if fd > 2}),
            "wall": round(r.wall, 2), "stderr": r.stderr[-400:]}


def ok_predicate(case, o):
    """the statement of C18 evaluated on the observation alone"""
    bad = []
    if o["hang"]:
        return ["the driver hangs"]
    if o["wall"] > max(5.0, 20 * case.clean_time()):
        bad.append("took %.1fs (clean time %.1fs)" % (o["wall"], case.clean_time()))
    if o["survivors"]:
        bad.append("stage processes alive or unreaped after the driver exited: %s" % o["survivors"])
    if o["temps_left"]:
        bad.append("temporary objects left: %s" % o["temps_left"])
    if o["extra_fds"]:
        bad.append("tools inherited descriptors %s besides 0,1,2 (pipe ends not closed on exec)" % o["extra_fds"])
    f = case.fail
    if f is None:
        if o["rc"] != 0:
            bad.append("every tool succeeded but exit status %s" % o["rc"])
        want = [case.out_name(p) for p in range(case.ninputs) if case.out_name(p)] + (["a.out"] if case.mode == "link" else [])
        if sorted(want) != sorted(o["files"]):
            bad.append("outputs: expected %s, found %s" % (sorted(want), sorted(o["files"])))
        return bad
    if o["rc"] == 0:
        bad.append("a tool failed but the driver exited 0")
    if f[0] == "ld":
        if "a.out" in o["files"]:
            pass    # the linker's own output after a failed link is the linker's business
        return bad
    if o["ld"]:
        bad.append("link step started although a compilation pipeline failed")
    k = f[0]
    if case.out_name(k) and case.out_name(k) in o["files"]:
        bad.append("output %s of the failed pipeline was not removed" % case.out_name(k))
    if case.flow == "forced":
        # "terminates ... the remaining stage processes": a stage of the failing pipeline whose own (forced)
        # termination time lies after the failure must not be seen running to completion
        d = case.delays()
        for (kk, j) in o["finished"]:
            if kk == k and j != f[1] and (f[2] == "spawn" or d[j] > d[f[1]]):
                bad.append("stage %s of the failing pipeline ran to completion after the failure: the driver waited "
                           "for it instead of terminating it" % STAGE_ROLES[j])
    return bad


def compare_model(case, m, o):
    d = []
    if m["exit"] != o["rc"]:
        d.append("exit: model %s, driver %s" % (m["exit"], o["rc"]))
    if m["link"] != o["ld"]:
        d.append("link step started: model %s, driver %s" % (m["link"], o["ld"]))
    want = []
    for p in m["outputs"]:
        if case.mode == "link":
            want.append("a.out")        # the only non-temporary output when linking
        elif case.out_name(p):
            want.append(case.out_name(p))
    if sorted(set(want)) != sorted(o["files"]):
        d.append("files: model %s, driver %s" % (sorted(set(want)), sorted(o["files"])))
    if bool(m["temps"]) != bool(o["temps_left"]):
        d.append("temporaries left: model %s, driver %s" % (m["temps"], o["temps_left"]))
    if bool(m["live"]) != bool(o["survivors"]):
        d.append("unreaped children: model %s, driver %s" % (m["live"], o["survivors"]))
    if case.flow == "forced":
        fin = sorted(tuple(x) for x in m["finished"])
        if fin != [tuple(x) for x in o["finished"]]:
            d.append("stages that ran to completion: model %s, driver %s" % (fin, o["finished"]))
    started = {tuple(x) for x in m["started"]}
    if not set(map(tuple, o["starts"])) <= started:
        d.append("tools started that the model never spawns: %s" % sorted(set(map(tuple, o["starts"])) - started))
    return d


def gen_cases(ck):
    rng = ck.rng
    cases = []
    # former findings (DESIGN section 7 #13, fixed by faeab8d) first
    cases.append(Case(2, "link", (1, 2, "exit-before-reading")))
    cases.append(Case(3, "link", (2, 0, "SIGKILL"), order=(0, 1, 2, 3)))
    cases.append(Case(2, "link", ("ld", "spawn")))
    # former hang: `cproc -c a.c` with STUB_SCRIPT="cpp#0=w300000,x0;cproc-qbe#0=s100,x0" (fixed by 06e6c71)
    cases.append(Case(1, "c", (0, 0, "SIGPIPE"), flow="early-reader"))
    cases.append(Case(2, "link", (1, 1, "SIGPIPE"), flow="early-reader"))
    cases.append(Case(1, "S", (0, 1, "SIGPIPE"), flow="early-reader"))
    for nin in (1, 2, 3):
        for mode in MODES:
            n = MODES[mode][1]
            cases.append(Case(nin, mode, None))
            if mode == "link":
                for fm in FMODES:
                    cases.append(Case(nin, mode, ("ld", fm)))
            for k in range(nin):
                for s in range(n):
                    for fm in FMODES:
                        # one order per case: a random one (all orders for one input in the thorough tier)
                        order = list(range(n))
                        rng.shuffle(order)
                        cases.append(Case(nin, mode, (k, s, fm), order=order))
                    if s > 0:
                        cases.append(Case(nin, mode, (k, s, "exit-before-reading"), flow="blocked"))
                        if k == 0:
                            cases.append(Case(nin, mode, (k, s, "spawn"), flow="blocked"))
                    cases.append(Case(nin, mode, (k, s, rng.choice(["exit-before-reading", "SIGSEGV"])), flow="natural"))
    # an inherited child (unknown pid in the reaping loop) that exits before the failing stage does: the failure of a
    # stage that is the last of its pipeline to terminate must still be seen
    for nin, mode in ((1, "c"), (2, "link"), (1, "S"), (1, "emit-qbe")):
        n = MODES[mode][1]
        for s in range(n):
            order = [j for j in range(n) if j != s] + [s]
            for fm in ("exit-after-half", "SIGKILL", "exit-after-finishing"):
                cases.append(Case(nin, mode, (0, s, fm), order=order, inherit=True))
        cases.append(Case(nin, mode, None, inherit=True))
    extra = 120 if ck.quick else 600
    for _ in range(extra):
        nin = rng.choice([1, 2, 3])
        mode = rng.choice(["S", "c", "link", "link", "emit-qbe"])
        n = MODES[mode][1]
        order = list(range(n))
        rng.shuffle(order)
        cases.append(Case(nin, mode, (rng.randrange(nin), rng.randrange(n), rng.choice(FMODES[1:])), order=order))
    if not ck.quick:
        for mode in MODES:
            n = MODES[mode][1]
            for s in range(n):
                for fm in FMODES[1:]:
                    for order in itertools.permutations(range(n)):
                        cases.append(Case(1, mode, (0, s, fm), order=order))
    seen, out = set(), []
    for c in cases:
        if c.key() not in seen:
            seen.add(c.key())
            out.append(c)
    return out


def run_case(drv, case, scale=None):
    if scale:
        case = Case(case.ninputs, case.mode, case.fail, case.order, case.flow, scale, case.inherit)
    script, missing = case.script_and_missing()
    r = drv.run(case.argv(), script=script, files=NAMES[:case.ninputs], scan=True, missing=missing,
                timeout=max(6.0, 25 * case.clean_time()),
                inherit_ms=(BASE // 2) * case.scale if case.inherit else None)
    return case, observe(case, r)


def run(ck):
    ck.cov["rule"] = ("K-C: pipeline shapes 1..3 inputs x last stage in {-E, -emit-qbe, -S, -c, link} x failing stage "
                      "(every stage of every input, and ld) x {spawn failure, exit 1 before reading / after half / "
                      "after finishing, SIGSEGV, SIGKILL} x a termination order forced by delays (thorough: all orders "
                      "for one input), plus stuck-writer and real-data-flow variants; the run is compared with drv_c18 "
                      "and with the statement of C18 evaluated on the observation. distinct_nontrivial counts distinct "
                      "(inputs, mode, failing stage, failure mode, order, flow) scenarios.")
    ck.lean_build()
    if not ck.proofs_ok:
        ck.notes.append("Props.C18 does not build; searching for a failing input")
    if not ck.drv_ok:
        raise common.Broken("drv_c18 does not build: %s" % ck.build_log[-1500:])
    try:
        drv = drvkc.build(ck, "x86_64-linux-gnu", path_tools=True)
    except CompileError as e:
        ck.violation({"kind": "correspondence-broken", "what": "driver.c no longer builds next to a generated config.h",
                      "compiler_output": str(e)[-3000:]}, nofail=True)
        return
    cases = gen_cases(ck)
    preds = [json.loads(x) if x != "bad-op" else None for x in ck.run_drv("\n".join(c.model_line() for c in cases) + "\n")]
    if None in preds:
        raise common.Broken("drv_c18 rejected a scenario line: %s" % cases[preds.index(None)].model_line())
    with concurrent.futures.ThreadPoolExecutor(min(6, max(2, common.NPROC))) as ex:
        results = list(ex.map(lambda c: run_case(drv, c), cases))
    hist = {"modes": {}, "failure_modes": {}, "failing_stage": {}, "flows": {}, "inputs": {}, "outcomes": {}}
    reported = 0
    for (case, o), m in zip(results, preds):
        ck.count(case.key())
        fm = "none" if case.fail is None else case.fail[-1]
        st = "none" if case.fail is None else ("ld" if case.fail[0] == "ld" else STAGE_ROLES[case.fail[1]])
        for h, v in (("modes", case.mode), ("failure_modes", fm), ("failing_stage", st), ("flows", case.flow),
                     ("inputs", case.ninputs), ("outcomes", "exit %s%s" % (o["rc"], " hang" if o["hang"] else ""))):
            hist[h][v] = hist[h].get(v, 0) + 1
        bad = ok_predicate(case, o)
        dm = compare_model(case, m, o)
        if (bad or dm) and not o["hang"]:
            # timing-sensitive: repeat alone with delays three times as long before believing it
            case2, o2 = run_case(drv, case, scale=3)
            m2 = m
            bad, dm, o = ok_predicate(case2, o2), compare_model(case2, m2, o2), o2
        if not bad and not dm:
            continue
        if reported >= 4:
            ck.violations.append(None)
            continue
        reported += 1
        rep = dict(case.describe(), observed=o, model=m, model_script=case.model_line())
        if bad:
            ck.violation(dict(rep, what="the driver violates C18 on this fault schedule", violated=bad, model_agrees_with_code=not dm))
        else:
            ck.violation(dict(rep, what="driver.c and Model/DriverFail.lean disagree although the run satisfies C18",
                              differences=dm, theorem="CprocVerif.C18.fail_safe (model no longer describes driver.c)"),
                         nofail=True)
    ck.cov["distribution"] = hist
    ck.sample({"scenario": cases[0].describe(), "model_script": cases[0].model_line(), "model": preds[0]})
    ck.sample({"scenario": cases[40].describe(), "model_script": cases[40].model_line(), "model": preds[40]})
    if not ck.proofs_ok and not ck.violations:
        ck.violation({"kind": "proof-broken", "theorem": "CprocVerif.Props.C18 (lake build failed)",
                      "log": ck.build_log[-3000:]}, nofail=True)
    ck.assumptions = ["a child that was sent SIGTERM terminates (tools that ignore SIGTERM are outside the property)",
                      "wait() returns every terminated child exactly once; kill/unlink/posix_spawn behave as in POSIX",
                      "a writer whose reader exited (even with status 0) is killed by SIGPIPE or fails with EPIPE (the "
                      "driver closes the read end it handed over; former hang, fixed by 06e6c71, in the corpus)",
                      "a driver that is itself killed by a signal does not run its atexit handler (temporaries stay)"]


META = {
    "category": "proof",
    "text": ("Lean 4 theorems over a transition-system model of buildobj/buildexe/atexit cleanup in which every "
             "posix_spawn result and every order and status of wait() results is an input: whenever some stage of a "
             "pipeline cannot be started or is reaped with a non-zero status, in any order, the driver exits 1, never "
             "spawns the linker, removes that pipeline's output and all temporaries, has reaped every child, and has "
             "sent SIGTERM exactly once to every child still outstanding at the first failure - wherever on the command "
             "line the failing pipeline is and however many fail (any_failure_fails) - and under fair schedules the exit "
             "status is 0 iff no tool failed and the linker (if any) succeeded, 1 otherwise (exit_zero_iff); with a fair schedule it "
             "never waits for ever; if the link step fails or cannot be spawned it exits 1 with no temporary left; if "
             "everything succeeds it exits 0 with outputs in place and no temporary left; after the spawn loop each "
             "pipe's write end is held by its upstream stage only and tools see descriptors 0,1,2 only.  Tied to /repo "
             "by running the real driver against scripted stub tools over all pipeline shapes x failing stage x six "
             "failure modes x forced termination orders and comparing with the model and with the property itself."),
    "design_ref": "DESIGN.md section 4, C18",
    "note": ("Trusted: Lean kernel + standard axioms; the hand-written model (tied by K-C); OS behaviour (wait, kill, "
             "SIGTERM delivery, pipes) assumed as stated in the evidence; stub tools and checks/drvkc.py.  Termination "
             "orders are forced with delays of 90 ms; a disagreement is re-run alone with tripled delays before it is "
             "reported.  Not decided: tools ignoring SIGTERM."),
    "technique": "Lean 4 proof over all schedules of a transition system + fault-injection correspondence with the real driver",
}

"""Shared helpers for the lexer checks (C13, C11): running harness/scan_h.c and the Lean drivers
in shards, parsing token dumps, phase-2 splicing, generators of lexical material."""
import concurrent.futures
import os
import re
import subprocess

from . import common

MSG = {
    "invalid hexadecimal escape sequence": "hexEscape",
    "invalid escape sequence": "escape",
    "newline in character constant": "nlChar",
    "null byte in character constant": "nulChar",
    "EOF in character constant": "eofChar",
    "newline in string literal": "nlStr",
    "null byte in string literal": "nulStr",
    "EOF in string literal": "eofStr",
    "EOF in comment": "eofComment",
}


def hx(b):
    return b.hex()


def unsplice(b):
    """Translation phase 2: one left-to-right pass deleting backslash-newline pairs."""
    out = bytearray()
    i, n = 0, len(b)
    while i < n:
        if b[i] == 0x5c and i + 1 < n and b[i + 1] == 0x0a:
            i += 2
        else:
            out.append(b[i])
            i += 1
    return bytes(out)


class Tok:
    __slots__ = ("kind", "lit", "file", "line", "col", "space")

    def __init__(self, kind, lit, file, line, col, space):
        self.kind, self.lit, self.file, self.line, self.col, self.space = kind, lit, file, line, col, space

    def key(self):
        return (self.kind, self.lit, self.space)

    def lockey(self):
        return (self.kind, self.lit, self.file, self.line, self.col, self.space)

    def __repr__(self):
        return "%d:%s:%s:%d.%d:%d" % (self.kind, "-" if self.lit is None else self.lit.hex(), self.file,
                                      self.line, self.col, int(self.space))


class Run:
    """One output line: tokens, and how the run ended: None (TEOF), ('err', file, line, col, kind-or-message)
    or ('crash', status)."""
    __slots__ = ("toks", "end", "raw")

    def __init__(self, toks, end, raw):
        self.toks, self.end, self.raw = toks, end, raw

    def errkind(self):
        return self.end[4] if self.end and self.end[0] == "err" else None


_ERR = re.compile(r"^(.*?):(\d+):(\d+): error: (.*)$", re.S)


def parse_line(line):
    toks = []
    end = None
    for w in line.split(" "):
        if not w:
            continue
        if w.startswith("!!"):
            end = ("crash", w[2:])
        elif w.startswith("!"):
            body = w[1:]
            m = re.match(r"^(\d+)\.(\d+):(\w+)$", body)
            if m:                                   # model driver
                end = ("err", "=", int(m.group(1)), int(m.group(2)), m.group(3))
            else:                                   # harness: hex of the stderr line
                try:
                    text = bytes.fromhex(body).decode("latin-1")
                except ValueError:
                    raise common.Broken("unparsable error field %r" % w[:80])
                mm = _ERR.match(text)
                if not mm:
                    end = ("err", "?", 0, 0, text)
                else:
                    f = "=" if mm.group(1) == "in.c" else mm.group(1)
                    end = ("err", f, int(mm.group(2)), int(mm.group(3)), MSG.get(mm.group(4), mm.group(4)))
        else:
            p = w.split(":")
            if len(p) != 5:
                raise common.Broken("unparsable token %r" % w[:80])
            lc = p[3].split(".")
            toks.append(Tok(int(p[0]), None if p[1] == "-" else bytes.fromhex(p[1]), p[2],
                            int(lc[0]), int(lc[1]), p[4] == "1"))
    return Run(toks, end, line)


def run_sharded(cmd, lines, env=None, shards=None, timeout=3000):
    """Feed `lines` (list of str without newline) to `cmd` in parallel shards; returns the output
    lines in order.  Raises Broken when a shard does not answer one line per input line."""
    if not lines:
        return []
    n = shards or min(common.NPROC, max(1, len(lines) // 200))
    size = (len(lines) + n - 1) // n
    chunks = [lines[i:i + size] for i in range(0, len(lines), size)]

    def one(chunk):
        r = subprocess.run(cmd, input=("\n".join(chunk) + "\n").encode(), stdout=subprocess.PIPE,
                           stderr=subprocess.PIPE, env=env, timeout=timeout)
        out = r.stdout.decode("latin-1").split("\n")
        if out and out[-1] == "":
            out.pop()
        if r.returncode != 0 or len(out) != len(chunk):
            raise common.Broken("%s: rc=%d, %d lines for %d inputs: %s" % (
                os.path.basename(cmd[0]), r.returncode, len(out), len(chunk), r.stderr[-600:].decode("latin-1")))
        return out

    with concurrent.futures.ThreadPoolExecutor(len(chunks)) as ex:
        res = list(ex.map(one, chunks))
    return [ln for part in res for ln in part]


# ----------------------------------------------------------------------------- lexical material
PUNCT_CHARS = b"[](){}.-+&*~!/%<>=^|?:;,#"
ALPHABET = bytes(sorted(set(PUNCT_CHARS + b"a1.e+ \n\\\"'Lu8")))

PUNCTUATORS = [b"[", b"]", b"(", b")", b"{", b"}", b".", b"->", b"++", b"--", b"&", b"*", b"+", b"-", b"~", b"!",
               b"/", b"%", b"<<", b">>", b"<", b">", b"<=", b">=", b"==", b"!=", b"^", b"|", b"&&", b"||", b"?",
               b":", b";", b"...", b"=", b"*=", b"/=", b"%=", b"+=", b"-=", b"<<=", b">>=", b"&=", b"^=", b"|=",
               b",", b"#", b"##", b"::"]


def numeric_forms(rng, quick):
    """pp-numbers / numeric literals of every form, each followed by a few continuations."""
    out = set()
    ints = [b"0", b"1", b"42", b"007", b"08", b"0x0", b"0x1F", b"0Xe", b"0xe", b"0b101", b"0B1", b"1_000", b"12e", b"0xep"]
    suff = [b"", b"u", b"U", b"l", b"L", b"ul", b"LL", b"ull", b"uLL", b"lu", b"llu", b"f", b"F", b"i", b"wb", b"xyz"]
    frac = [b"", b".", b".5", b".5.", b"..", b".e", b"._"]
    exps = [b"", b"e5", b"E5", b"e+5", b"e-5", b"E+5", b"p3", b"P-3", b"p+3", b"e", b"e+", b"e+-5", b"e++5", b"p-+1",
            b"e+e-1", b"E-.5", b"e5e+5"]
    follow = [b"", b"+1", b"-1", b" ", b";", b".", b"..", b"e", b"+", b"-", b"\\\n1", b"'", b"\""]
    lead = [b"", b".", b"..", b"-", b"a", b" "]
    for a in ints:
        for s in suff:
            out.add(a + s)
    for a in ints[:10]:
        for f in frac:
            for e in exps:
                out.add(a + f + e)
    for f in frac[2:4]:
        for e in exps:
            out.add(f + e)
    base = sorted(out)
    res = set(base)
    k = 2 if quick else 6
    for x in base:
        for _ in range(k):
            res.add(rng.choice(lead) + x + rng.choice(suff[:6]) + rng.choice(follow))
    return sorted(res)


IDENTS = [b"a", b"x1", b"_", b"_x", b"L", b"u", b"U", b"u8", b"u8x", b"Lx", b"e", b"E1", b"p", b"abc_9", b"int3",
          b"returnx", b"__x__", b"uU", b"L8"]
CHARS = [b"'a'", b"L'a'", b"u'a'", b"U'a'", b"u8'a'", b"'\\n'", b"'\\''", b"'\\\\'", b"'\\x41'", b"'\\101'", b"'ab'",
         b"'\\0'", b"'\\7777'", b"'\\xabcdefg'", b"'\"'", b"'/*'", b"'//'", b"''"]
STRS = [b'"abc"', b'L"a"', b'u"a"', b'U"a"', b'u8"a"', b'""', b'"\\""', b'"\\\\"', b'"a\\nb"', b'"\\x41g"', b'"\\18"',
        b'"/*x*/"', b'"//x"', b'"\'"', b'"a b"', b'"\\?\\a\\b\\f\\r\\t\\v"']
COMMENTS = [b"/**/", b"/* x */", b"/***/", b"/*/ */", b"/* * / */", b"/*\n*/", b"/*a\nb\nc*/", b"/*//*/", b"/*\"*/",
            b"//\n", b"// x\n", b"//x/*\n", b"// a \\\n b\n", b"//*/\n", b"/*'*/"]
SPACES = [b" ", b"  ", b"\t", b"\n", b" \n", b"\n ", b"\f", b"\v", b"\n\n"]
NUMS = [b"0", b"1", b"42", b"0x1F", b"1.5", b".5", b"5.", b"1e5", b"1e+5", b"1E-5", b"0x1p-3", b"0xe+1", b"1e+", b"1u",
        b"1.2.3", b"1_0", b"0b11", b"1e+5e-5", b".5e+.x"]
STRAY = [b"@", b"`", b"$", b"\\", b"\x80", b"\xff", b"\x01", b"\r", b"\x7f"]


def random_text(rng, ntok, keywords):
    parts = []
    for _ in range(ntok):
        r = rng.random()
        if r < 0.30:
            parts.append(rng.choice(PUNCTUATORS))
        elif r < 0.42:
            parts.append(rng.choice(IDENTS))
        elif r < 0.50:
            parts.append(rng.choice(keywords))
        elif r < 0.62:
            parts.append(rng.choice(NUMS))
        elif r < 0.68:
            parts.append(rng.choice(CHARS))
        elif r < 0.75:
            parts.append(rng.choice(STRS))
        elif r < 0.85:
            parts.append(rng.choice(COMMENTS))
        elif r < 0.87:
            parts.append(rng.choice(STRAY))
        else:
            parts.append(rng.choice(SPACES))
        if rng.random() < 0.35:
            parts.append(rng.choice(SPACES))
    return b"".join(parts)


def splice_variants(base, rng, every_limit=48, extra=6):
    """`base` with a backslash-newline inserted at EVERY position (short texts) or at random
    positions / several at once (long texts).  Returns list of (variant, positions)."""
    out = []
    n = len(base)
    if n <= every_limit:
        pos = range(n + 1)
    else:
        pos = sorted(rng.sample(range(n + 1), every_limit))
    for i in pos:
        out.append((base[:i] + b"\\\n" + base[i:], (i,)))
    for _ in range(extra):
        k = rng.randint(2, 5)
        ps = sorted(rng.sample(range(n + 1), min(k, n + 1)))
        v = bytearray()
        last = 0
        for p in ps:
            v += base[last:p] + b"\\\n"
            last = p
        v += base[last:]
        out.append((bytes(v), tuple(ps)))
    return out

"""C08 - calls interoperate with code built by the platform compiler (descriptor faithfulness).

Proof:   lean/CprocVerif/Props/C08.lean over Model/AbiDesc.lean (qbe.c: qbetype, emitclass, emittype,
         emitfunc, funcexpr(EXPRCALL), emitinst(ICALL); type.c: typeadjust; expr.c: call arguments,
         exprpromote; targ.c) and Spec/QbeLayout.lean (QBE's reading of a `type` definition, the
         flattened C type under the C06 layout spec, ABI classes, psABI va_list).
Tie:     K-B  generated struct/union types, function definitions, calls (named + variadic arguments),
              variadic definitions with va_start/va_arg, compiled by the freshly built cproc-qbe for all
              three targets; `type`/`function`/`call`/`vaarg` lines parsed to values and compared with the
              model (drv_c08); independently the `ok` predicate is evaluated on the real output: the real
              `type` definition is laid out under QBE's rules (Python re-implementation, validated against
              Spec/QbeLayout on every run) and compared with the C layout observed from gcc (x86-64) and
              clang --target (three targets): sizeof, _Alignof, offset/size/kind of every scalar leaf.
         Spec validation: Spec's flattened C type vs. the same observations; a disagreement marks the check
              broken, never a violation.
The dynamic half of the property (mixed executables) needs a QBE backend, which the sandbox lacks.
"""
import concurrent.futures
import json
import os
import re
import subprocess

from . import common
from . import c06
from .common import Broken

TARGETS = c06.TARGETS
CLANG_TRIPLE = c06.CLANG_TRIPLE
PRELUDE = c06.PRELUDE

# va_list as a member/parameter type (size/alignment are target dependent: never used from this table)
c06.SCALARS.setdefault("valist", ("__builtin_va_list", "", "", 8, 8, False))
SC = c06.SCALARS

# driver token of every scalar
DRV_SC = {"_Bool": "bool", "char": "char", "schar": "schar", "uchar": "uchar", "short": "short", "ushort": "ushort",
          "int": "int", "uint": "uint", "long": "long", "ulong": "ulong", "llong": "llong", "ullong": "ullong",
          "float": "float", "double": "double", "ldouble": "ldouble", "voidp": "ptr", "charpp": "ptr", "fnp": "ptr",
          "fp_t": "ptr", "Ea": "e:uint", "Eb": "e:int", "Ec": "e:ulong", "Ed": "e:long", "valist": "V"}
MAIN_SCALARS = [k for k in DRV_SC if k not in ("ldouble", "valist")]
INT_SCALARS = [k for k in MAIN_SCALARS if SC[k][5]]
SUBWORD = {"_Bool", "char", "schar", "uchar", "short", "ushort"}
FLOATS = {"float", "double", "ldouble"}

FID = {"packed": "packed-overaligned-descriptor", "overaligned": "packed-overaligned-descriptor",
       "unnamed-bitfield": "unnamed-bitfield-gap-descriptor", "flexible": "flexible-array-descriptor",
       "valist-member": "valist-member-descriptor", "bitfield-smaller-unit": "bitfield-smaller-unit-merge",
       "bitfield-unit-skips-member": "bitfield-unit-skips-member",
       "bitfield-unit-overlap": "bitfield-unit-overlap-descriptor"}
FLAG_PRIORITY = ["valist-member", "flexible", "packed", "overaligned", "unnamed-bitfield",
                 "bitfield-smaller-unit", "bitfield-unit-overlap", "bitfield-unit-skips-member"]
FID_SUBWORD = "subword-arg-not-extended"

bump = c06.bump


# ------------------------------------------------------------------ abstract types -> driver / C text
def drv_type(t):
    if t[0] == "sc":
        return DRV_SC[t[1]]
    if t[0] == "arr":
        return "A %s %s" % ("?" if t[2] is None else t[2], drv_type(t[1]))
    fs = []
    for (n, ft, al, w) in t[3]:
        if w is None:
            fs.append("m %s %d %s" % (n or "-", al, drv_type(ft)))
        else:
            fs.append("b %s %d %s" % (n or "-", w, drv_type(ft)))
    return "%s%s { %s }" % ("U" if t[1] else "S", "P" if t[2] else "", " ".join(fs))


def leaves(t, path="", desig=""):
    """scalar leaves of a struct/union in the order of Spec/QbeLayout.flattenC:
    (offsetof path, designator, scalar name, is_bitfield, width)"""
    out = []
    for (n, ft, al, w) in t[3]:
        if w is not None:
            if n is not None:
                out.append((path + n, desig + "." + n, ft[1], True, w))
            continue
        if n is None:
            out.extend(leaves(ft, path, desig))
            continue
        _leaves_of(ft, path + n, desig + "." + n, out)
    return out


def _leaves_of(ft, p, d, out):
    if ft[0] == "sc":
        out.append((p, d, ft[1], False, None))
    elif ft[0] == "arr":
        if ft[2] is None:
            return
        for i in range(ft[2]):
            _leaves_of(ft[1], "%s[%d]" % (p, i), "%s[%d]" % (d, i), out)
    else:
        out.extend(leaves(ft, p + ".", d))


def n_leaves(t):
    if t[0] == "sc":
        return 1
    if t[0] == "arr":
        return (t[2] or 0) * n_leaves(t[1])
    return sum(1 if w is not None else n_leaves(ft) for (_, ft, _, w) in t[3])


def kw(t):
    return "union" if t[1] else "struct"


def render_oracle(tid, t):
    """C text for gcc/clang: the numbers of the C layout of type tid"""
    tag = "T%d" % tid
    ls = leaves(t)
    T = "%s %s" % (kw(t), tag)
    vals = ["sizeof(%s)" % T, "_Alignof(%s)" % T]
    for (p, d, sc, bf, w) in ls:
        if not bf:
            vals.append("__builtin_offsetof(%s, %s)" % (T, p))
            vals.append("sizeof(((%s *)0)->%s)" % (T, p))
    lines = ["unsigned long v%d[] = {%s};" % (tid, ", ".join(vals))]
    k = 0
    for (p, d, sc, bf, w) in ls:
        if bf:
            lines.append("%s x%d_%d = {%s = -1};" % (T, tid, k, d))
            k += 1
    return "\n".join(lines) + "\n", ls


def type_def(tid, t):
    return c06.c_su(t, "T%d" % tid) + ";\n"


def render_use(tid, t):
    """C text that makes cproc emit the descriptor of type tid"""
    T = "%s T%d" % (kw(t), tid)
    return "void g%d(%s); void f%d(%s *p) { g%d(*p); }\n" % (tid, T, tid, T, tid)


# ------------------------------------------------------------------ QBE `type` definitions
TYPE_RE = re.compile(r"^type :(\S+) = (?:align (\d+) )?\{(.*)\}\s*$")
BASES = {"b": (1, "i"), "h": (2, "i"), "w": (4, "i"), "l": (8, "i"), "s": (4, "f"), "d": (8, "f")}


class BadType(Exception):
    pass


def parse_items(toks, i, defs):
    """item [n] (, item [n])* up to '}' -> ([(tree, n)], index of '}')"""
    items = []
    while i < len(toks) and toks[i] != "}":
        w = toks[i]
        if w in BASES:
            tr = ("B", w)
        elif w.startswith(":"):
            if w[1:] not in defs:
                raise BadType("member type %s is used before it is defined" % w)
            tr = defs[w[1:]]
        else:
            raise BadType("unexpected token %r" % w)
        i += 1
        n = 1
        if i < len(toks) and toks[i].isdigit():
            n = int(toks[i])
            i += 1
        items.append((tr, n))
    if i >= len(toks):
        raise BadType("missing }")
    return items, i


def parse_typedef(line, defs):
    """one `type` line -> (name, tree); trees: ('B', c) | ('S', items) | ('U', [items]) | ('O', align, size)"""
    m = TYPE_RE.match(line)
    if not m:
        raise BadType("unparsable type definition: " + line[:200])
    name, al, body = m.group(1), m.group(2), m.group(3)
    toks = re.findall(r"[{}]|[^\s,{}]+", body + "}")
    if al is not None:
        if len(toks) == 2 and toks[0].isdigit():
            return name, ("O", int(al), int(toks[0]))
        raise BadType("explicit alignment on a regular type: " + line[:200])
    if toks and toks[0] == "{":
        alts = []
        i = 0
        while toks[i] == "{":
            items, i = parse_items(toks, i + 1, defs)
            alts.append(items)
            i += 1
        if toks[i] != "}" or i != len(toks) - 1:
            raise BadType("bad union body: " + line[:200])
        return name, ("U", alts)
    items, i = parse_items(toks, 0, defs)
    if i != len(toks) - 1:
        raise BadType("bad struct body: " + line[:200])
    return name, ("S", items)


def parse_types(text):
    """all type definitions of a module in order: name -> tree (names resolved against earlier definitions)"""
    defs = {}
    errs = {}
    for ln in text.splitlines():
        if ln.startswith("type "):
            try:
                name, tr = parse_typedef(ln, defs)
                defs[name] = tr
            except BadType as e:
                m = re.match(r"type :(\S+)", ln)
                errs[m.group(1) if m else ln] = str(e)
    return defs, errs


def canon(tr):
    if tr[0] == "B":
        return tr[1]
    if tr[0] == "O":
        return "O%d:%d" % (tr[1], tr[2])
    if tr[0] == "S":
        return "S( " + "".join("%s %d " % (canon(x), n) for x, n in tr[1]) + ")"
    return "U( " + "".join("A( " + "".join("%s %d " % (canon(x), n) for x, n in a) + ") " for a in tr[1]) + ")"


def round_up(x, a):
    return (x + a - 1) // a * a


def q_info(tr):
    """QBE's layout of a type (IL reference, Aggregate Types): (size, align, [(off, size, kind)])"""
    if tr[0] == "B":
        s, k = BASES[tr[1]]
        return s, s, [(0, s, k)]
    if tr[0] == "O":
        return tr[2], tr[1], [(0, tr[2], "o")]
    if tr[0] == "S":
        cur, al, fl = q_place(tr[1])
        return round_up(cur, al), al, fl
    cur, al, fl = 0, 1, []
    for a in tr[1]:
        c1, a1, f1 = q_place(a)
        cur, al = max(cur, c1), max(al, a1)
        fl += f1
    return round_up(cur, al), al, fl


def q_place(items):
    cur, al, fl = 0, 1, []
    for tr, n in items:
        s, a, f = q_info(tr)
        al = max(al, a)
        p = round_up(cur, a) if a else cur
        for k in range(n):
            fl += [(p + k * s + o, z, kd) for (o, z, kd) in f]
        cur = p + n * s
    return cur, al, fl


def parse_flds(s):
    out = []
    for x in s.split():
        o, z, k = x.split(":")
        out.append((int(o), int(z), k))
    return out


def fields_equiv(a, b, bound):
    """Spec/QbeLayout.FieldsEquiv: same floating/opaque fields one by one, same bytes covered by integers"""
    if [f for f in a if f[2] != "i"] != [f for f in b if f[2] != "i"]:
        return False
    ca, cb = bytearray(bound), bytearray(bound)
    for fl, c in ((a, ca), (b, cb)):
        for (o, z, k) in fl:
            if k == "i":
                for x in range(o, min(o + z, bound)):
                    c[x] = 1
    return ca == cb


def ok_type(qi, cl):
    """the property's predicate on one descriptor: qi = QBE's reading of the real definition,
    cl = (size, align, fields) of the C type.  Returns None or what differs."""
    if qi[0] != cl[0]:
        return "size %d (C: %d)" % (qi[0], cl[0])
    if qi[1] != cl[1]:
        return "alignment %d (C: %d)" % (qi[1], cl[1])
    if not fields_equiv(qi[2], cl[2], max(qi[0], cl[0]) + 1):
        return "fields %s (C: %s)" % (qi[2][:24], cl[2][:24])
    return None


# ------------------------------------------------------------------ observations
def run_tool(cmd, src):
    r = subprocess.run(cmd + [src], stdout=subprocess.PIPE, stderr=subprocess.PIPE, text=True)
    return r.returncode, r.stdout, r.stderr


def leaf_kind(sc, tg):
    if sc in FLOATS:
        return "f"
    if sc == "valist":
        return "i" if tg == "riscv64" else "o"
    return "i"


def observe_oracle(defs, tid, ls, tg):
    """C layout of type tid from gcc/clang assembly: (size, align, [(off, size, kind)]) or None"""
    v = defs.get("v%d" % tid)
    if v is None:
        return None
    vals = c06.bytes_u64s(v)
    nplain = sum(1 for l in ls if not l[3])
    if len(vals) != 2 + 2 * nplain:
        return None
    fl = []
    i, k = 2, 0
    for (p, d, sc, bf, w) in ls:
        if not bf:
            fl.append((vals[i], vals[i + 1], leaf_kind(sc, tg)))
            i += 2
        else:
            x = defs.get("x%d_%d" % (tid, k))
            k += 1
            if x is None:
                return None
            lo, n, contig = c06.setbits(x)
            ts = SC[sc][3]
            if lo is None or n != w or not contig or len(x) != vals[0]:
                return None
            fl.append(("bf", lo, w, ts))
    return vals[0], vals[1], fl


def merge_units(ob, spec):
    """The oracle shows the bits of a bit-field, Spec/QbeLayout its storage unit (a sizeof T-aligned unit
    relative to the enclosing aggregate, which the image of the whole object does not reveal inside packed or
    nested aggregates): accept the spec's unit when it has the declared type's size and contains the observed
    bits.  Everything else must be equal.  Returns the oracle layout with units, or None on a disagreement."""
    if ob[0] != spec[0] or ob[1] != spec[1] or len(ob[2]) != len(spec[2]):
        return None
    fl = []
    for o, s in zip(ob[2], spec[2]):
        if o[0] == "bf":
            _, lo, w, ts = o
            if s[1] != ts or s[2] != "i" or not (8 * s[0] <= lo and lo + w <= 8 * (s[0] + ts)):
                return None
            fl.append(tuple(s))
        else:
            if tuple(o) != tuple(s):
                return None
            fl.append(tuple(o))
    return ob[0], ob[1], fl


def parse_model_type(ln):
    """drv_c08 `type` answer -> dict"""
    if not ln.startswith("ok "):
        return {"status": ln.split()[0] if ln else "bad", "line": ln}
    p = [x.strip() for x in ln[3:].split("|")]
    if len(p) != 8:
        return {"status": "bad", "line": ln}
    qs, qa = map(int, p[1].split())
    cs, ca = map(int, p[3].split())
    return {"status": "ok", "q": p[0], "qinfo": (qs, qa, parse_flds(p[2])), "c": (cs, ca, parse_flds(p[4])),
            "cmerged": parse_flds(p[5]), "equiv": p[6] == "1", "flags": p[7].split()}


def find_real(defs, errs, tid):
    for name in defs:
        if name.startswith("T%d." % tid):
            return defs[name], None
    for name in errs:
        if name.startswith("T%d." % tid):
            return None, errs[name]
    return None, "no type definition emitted"


def known_fid(flags):
    for f in FLAG_PRIORITY:
        if f in flags:
            return FID[f]
    return None


def evaluate_type(real, rerr, model, clayout):
    """-> (kind, detail) with kind in ok | known | notok | diff | garbage;  model: parse_model_type"""
    if real is None:
        return "garbage", rerr
    rc = canon(real)
    qi = q_info(real)
    bad = ok_type(qi, clayout)
    if model["status"] != "ok" or rc != model["q"]:
        return "diff", {"real": rc, "model": model.get("q", model.get("line")), "not_ok": bad}
    if bad is None:
        return "ok", None
    fid = known_fid(model["flags"])
    if fid:
        return "known", {"fid": fid, "not_ok": bad, "real": rc, "flags": model["flags"]}
    return "notok", {"real": rc, "not_ok": bad, "flags": model["flags"]}


def type_batch(job):
    """job: dict(id, dir, cproc, drv, types=[(tid, t)], targets, oracles).  Runs in a worker process."""
    d = job["dir"]
    os.makedirs(d, exist_ok=True)
    types = job["types"]
    defs_src = PRELUDE + "".join(type_def(tid, t) for tid, t in types)
    pc = os.path.join(d, "t%d.c" % job["id"])
    open(pc, "w").write(defs_src + "".join(render_use(tid, t) for tid, t in types))
    lv = {}
    osrc = defs_src
    for tid, t in types:
        txt, ls = render_oracle(tid, t)
        lv[tid] = ls
        osrc += txt
    po = os.path.join(d, "o%d.c" % job["id"])
    open(po, "w").write(osrc)
    events, counts = [], {"types": len(types)}
    # model + spec
    lines = ["type %s %s" % (tg, drv_type(t)) for tid, t in types for tg in TARGETS]
    r = subprocess.run([job["drv"]], input="\n".join(lines) + "\n", stdout=subprocess.PIPE, stderr=subprocess.PIPE, text=True)
    dl = r.stdout.splitlines()
    if r.returncode != 0 or len(dl) != len(lines):
        return {"broken": "drv_c08 failed (%d lines for %d): %s" % (len(dl), len(lines), r.stderr[-300:])}
    model = {}
    k = 0
    for tid, t in types:
        for tg in TARGETS:
            model[(tid, tg)] = parse_model_type(dl[k])
            if model[(tid, tg)]["status"] == "bad":
                return {"broken": "drv_c08 cannot answer `%s`: %s" % (lines[k][:200], dl[k][:200])}
            k += 1
    # oracles
    oracle = {}
    if job["oracles"]:
        orc = [("gcc", "x86_64-sysv", ["gcc", "-w", "-S", "-o", "-"])]
        orc += [("clang", tg, ["clang", "-w", "--target=" + CLANG_TRIPLE[tg], "-S", "-o", "-"]) for tg in TARGETS]
        for cname, tg, cmd in orc:
            rc, out, err = run_tool(cmd, po)
            if rc != 0:
                events.append({"kind": "oracle-rejects", "compiler": cname, "target": tg, "stderr": err[-400:]})
                continue
            adefs = c06.parse_asm(out)
            for tid, t in types:
                ob = observe_oracle(adefs, tid, lv[tid], tg)
                if ob is None:
                    events.append({"kind": "oracle-unparsed", "compiler": cname, "target": tg, "tid": tid})
                    continue
                counts["oracle"] = counts.get("oracle", 0) + 1
                m = model[(tid, tg)]
                if m["status"] != "ok":
                    continue
                ob2 = merge_units(ob, m["c"])
                if ob2 is None:
                    events.append({"kind": "spec-vs-oracle", "compiler": cname, "target": tg, "tid": tid,
                                   "oracle": ob, "spec": m["c"]})
                    continue
                ob = ob2
                oracle.setdefault((tid, tg), ob)
                if cname == "clang":
                    oracle[(tid, tg)] = ob
    # cproc
    reals = {}
    for tg in job["targets"]:
        rc, out, err = run_tool([job["cproc"], "-t", tg], pc)
        if rc == 0:
            defs, errs = parse_types(out)
            for tid, t in types:
                reals[(tid, tg)] = find_real(defs, errs, tid)
        else:
            for tid, t in types:
                p1 = os.path.join(d, "t%d_%d.c" % (job["id"], tid))
                open(p1, "w").write(PRELUDE + type_def(tid, t) + render_use(tid, t))
                rc1, out1, err1 = run_tool([job["cproc"], "-t", tg], p1)
                if rc1 == 0:
                    defs, errs = parse_types(out1)
                    reals[(tid, tg)] = find_real(defs, errs, tid)
                else:
                    reals[(tid, tg)] = ("rejected", err1.strip()[-200:])
    # validate the Python layout of every real definition against Spec/QbeLayout
    qs = sorted({canon(v[0]) for v in reals.values() if v[0] not in (None, "rejected")})
    if qs:
        r = subprocess.run([job["drv"]], input="".join("qinfo %s\n" % q for q in qs), stdout=subprocess.PIPE,
                           stderr=subprocess.PIPE, text=True)
        ql = r.stdout.splitlines()
        if r.returncode != 0 or len(ql) != len(qs):
            return {"broken": "drv_c08 qinfo failed: " + r.stderr[-300:]}
        drvq = dict(zip(qs, ql))
    for tid, t in types:
        for tg in job["targets"]:
            real, rerr = reals[(tid, tg)]
            m = model[(tid, tg)]
            counts["evaluations"] = counts.get("evaluations", 0) + 1
            if real == "rejected":
                if m["status"] == "ok":
                    events.append({"kind": "rejected", "tid": tid, "target": tg, "stderr": rerr})
                else:
                    counts["both-reject"] = counts.get("both-reject", 0) + 1
                continue
            if m["status"] != "ok":
                events.append({"kind": "diff", "tid": tid, "target": tg,
                               "detail": {"real": canon(real) if real else rerr, "model": m["line"], "not_ok": None}})
                continue
            if real is not None:
                a = drvq[canon(real)].split("|")
                sz, al = map(int, a[0].split())
                if (sz, al, parse_flds(a[1])) != q_info(real):
                    return {"broken": "Python QBE layout %s differs from Spec/QbeLayout `%s` on %s"
                            % (q_info(real), drvq[canon(real)], canon(real))}
            cl = oracle.get((tid, tg), m["c"])
            kind, det = evaluate_type(real, rerr, m, cl)
            counts[kind] = counts.get(kind, 0) + 1
            if kind != "ok":
                events.append({"kind": kind, "tid": tid, "target": tg, "detail": det, "c": cl})
            for f in m["flags"]:
                counts["flag:" + f] = counts.get("flag:" + f, 0) + 1
    flags = {tid: sorted(set(sum((model[(tid, tg)].get("flags", []) for tg in TARGETS), []))) for tid, t in types}
    sizes = {tid: model[(tid, TARGETS[0])]["c"][0] for tid, t in types if model[(tid, TARGETS[0])]["status"] == "ok"}
    return {"events": events, "counts": counts, "flags": flags, "sizes": sizes}


# ------------------------------------------------------------------ type generator
def I(n):
    return ("sc", n)


class TGen:
    """struct/union types.  mode 'main' avoids the recorded defective classes syntactically (no packed, no
    _Alignas, no unnamed bit-field, no flexible array, no va_list member; bit-fields in runs of one storage-unit
    size after a member that ends on a unit boundary); the other modes aim at one class each."""

    def __init__(self, rng, mode="main"):
        self.rng = rng
        self.mode = mode
        self.n = 0

    def name(self):
        self.n += 1
        return "m%d" % self.n

    def scalar(self):
        r = self.rng
        x = r.random()
        if x < 0.3:
            return I(r.choice(["float", "double"]))
        if x < 0.42:
            return I(r.choice(["voidp", "charpp", "fnp", "fp_t"]))
        return I(r.choice(INT_SCALARS))

    def bfrun(self, fields, free):
        r = self.rng
        if free:
            for _ in range(r.randint(1, 3)):
                base = r.choice(INT_SCALARS)
                bits = SC[base][3] * 8
                w = 1 if base == "_Bool" else r.choice([1, 3, 7, 8, 9, bits - 1, bits, r.randint(1, bits)])
                fields.append((self.name(), I(base), 0, min(w, bits)))
            return
        size = r.choice([1, 2, 4, 4, 8])
        bases = [k for k in INT_SCALARS if SC[k][3] == size and k != "_Bool"]
        left = size * 8
        for _ in range(r.randint(1, 4)):
            w = r.randint(1, max(1, min(left, size * 8)))
            fields.append((self.name(), I(r.choice(bases)), 0, w))
            left = left - w if w <= left else size * 8 - w
            if left <= 0:
                left = size * 8

    def su(self, depth, top=False):
        r = self.rng
        mode = self.mode
        is_union = r.random() < 0.25
        pack = mode == "packed" and not is_union and (top or r.random() < 0.3)
        nf = r.randint(1, 6 if top else 4)
        fields = []
        for i in range(nf):
            x = r.random()
            if not pack and ((mode == "bitmix" and x < 0.5) or (mode != "bitmix" and x < 0.22)):
                if is_union:
                    base = r.choice([k for k in INT_SCALARS if k != "_Bool"])
                    fields.append((self.name(), I(base), 0, r.randint(1, SC[base][3] * 8)))
                else:
                    self.bfrun(fields, free=(mode == "bitmix"))
                continue
            if mode == "unnamed" and not pack and x < 0.45:
                base = r.choice(["int", "uint", "long", "char", "ushort", "ullong", "short"])
                fields.append((None, I(base), 0, r.choice([0, 0, 1, 5, SC[base][3] * 8])))
                continue
            if mode == "valist" and x < 0.4:
                fields.append((self.name(), I("valist"), 0, None))
                continue
            ft = self.mtype(depth)
            anon = ft[0] == "su" and r.random() < 0.3
            al = 0
            if mode == "alignas" and r.random() < 0.4:
                lo = c06.t_align_hi(ft)
                al = r.choice([a for a in (2, 4, 8, 16, 32) if a >= lo] or [0])
            fields.append((None if anon else self.name(), ft, al, None))
        if mode == "flex" and not is_union and (top or r.random() < 0.3):
            fields.append((self.name(), ("arr", self.scalar(), None), 0, None))
        if all(f[3] is not None and f[0] is None for f in fields):
            fields.append((self.name(), self.scalar(), 0, None))
        return ("su", is_union, pack, fields)

    def mtype(self, depth):
        r = self.rng
        x = r.random()
        if depth < 3 and x < 0.25:
            t = self.su(depth + 1)
            return c06.strip_flex(t) if c06.has_flex(t) else t
        if depth < 3 and 0.25 <= x < 0.29:
            # array of two or three dimensions whose element is a struct/union described nowhere else
            e = self.su(depth + 1)
            if c06.has_flex(e):
                e = c06.strip_flex(e)
            for _ in range(r.choice([2, 2, 3])):
                e = ("arr", e, r.choice([1, 2, 2, 3]))
            return e
        if x < 0.45:
            if depth < 3 and r.random() < 0.4:
                e = self.mtype(depth + 1)
                if c06.has_flex(e):
                    e = c06.strip_flex(e)
            else:
                e = self.scalar()
            return ("arr", e, r.choice([1, 2, 2, 3, 3, 4, 5, 7, 16]))
        return self.scalar()

    def toplevel(self):
        while True:
            self.n = 0
            t = self.su(1, top=True)
            if n_leaves(t) <= 80:
                return t


def t_float_mix(t, acc=None):
    acc = acc if acc is not None else set()
    if t[0] == "sc":
        acc.add("float" if t[1] in FLOATS else ("ptr" if not SC[t[1]][5] else "int"))
    elif t[0] == "arr":
        t_float_mix(t[1], acc)
    else:
        for (n, ft, al, w) in t[3]:
            if w is not None:
                acc.add("bitfield")
            else:
                t_float_mix(ft, acc)
    return acc


CORPUS_TYPES = [
    # the recorded witnesses of the known findings (each reproduced on every run)
    ("packed-overaligned-descriptor", ("su", False, True, [("a", I("char"), 0, None), ("b", I("long"), 0, None), ("c", I("short"), 0, None)])),
    ("packed-overaligned-descriptor", ("su", False, False, [("a", I("char"), 0, None), ("b", I("int"), 16, None)])),
    ("bitfield-unit-overlap-descriptor", ("su", False, False, [("a", I("llong"), 0, None), ("b", ("arr", I("float"), 3), 0, None), ("c", I("uchar"), 0, None),
                                                               ("d", I("ulong"), 0, 5), ("e", I("ushort"), 0, None)])),
    ("bitfield-unit-skips-member", ("su", False, False, [("a", I("int"), 0, 3), ("c", ("arr", I("char"), 7), 0, None)])),
    ("bitfield-smaller-unit-merge", ("su", False, False, [("a", I("int"), 0, 3), ("b", I("char"), 0, 3)])),
    ("unnamed-bitfield-gap-descriptor", ("su", False, False, [("a", I("char"), 0, None), (None, I("int"), 0, 0), ("b", I("char"), 0, None)])),
    ("flexible-array-descriptor", ("su", False, False, [("n", I("int"), 0, None), ("a", ("arr", I("int"), None), 0, None)])),
    ("valist-member-descriptor", ("su", False, False, [("ap", I("valist"), 0, None), ("x", I("int"), 0, None)])),
    # shapes of tests/struct-passing*.c, union-passing.c and a few boundary cases
    (None, ("su", False, False, [("x", I("int"), 0, None), ("y", I("float"), 0, None)])),
    (None, ("su", False, False, [("a", ("arr", I("float"), 4), 0, None)])),
    (None, ("su", False, False, [("a", I("double"), 0, None), ("b", I("char"), 0, None)])),
    (None, ("su", True, False, [("i", I("int"), 0, None), ("f", I("float"), 0, None), ("q", ("su", False, False, [("s", I("short"), 0, None), ("d", I("double"), 0, None)]), 0, None)])),
    (None, ("su", False, False, [("a", I("int"), 0, 3), ("b", I("uint"), 0, 5), ("c", I("int"), 0, 24), ("d", I("float"), 0, None)])),
    (None, ("su", False, False, [("x", ("arr", ("su", False, False, [("a", I("short"), 0, 3), ("c", I("ushort"), 0, 13)]), 2), 0, None), ("p", I("voidp"), 0, None)])),
    (None, ("su", False, False, [("c", I("char"), 0, None), ("a", I("int"), 0, 3)])),      # benign: plain member inside the unit
    (None, ("su", False, False, [("a", I("char"), 0, 3), ("b", I("int"), 0, 5)])),         # benign: unit grows
    (None, ("su", False, False, [("a", I("int"), 0, 9), ("b", I("char"), 0, 3)])),
    (None, ("su", False, False, [("m", ("arr", ("arr", I("short"), 3), 2), 0, None), ("z", I("_Bool"), 0, None)])),
    (None, ("su", False, False, [("a", ("arr", I("char"), 64), 0, None)])),
    (None, ("su", False, False, [("a", ("arr", I("char"), 65), 0, None)])),
]


# ------------------------------------------------------------------ running type batches
def type_replay(tid, t, tg, ev):
    return {"kind": "descriptor", "target": tg, "program": PRELUDE + type_def(tid, t) + render_use(tid, t),
            "drv": drv_type(t), "c_layout(size,align,fields)": ev.get("c"), "detail": ev.get("detail")}


def probe_type(ck, cproc, t, tg):
    """single type, spec layout as C layout: first unexplained event or None"""
    job = {"id": 0, "dir": os.path.join(ck.scratch(), "shrink"), "cproc": cproc, "drv": ck.drv_path(),
           "types": [(0, t)], "targets": [tg], "oracles": False}
    try:
        res = type_batch(job)
    except Exception:
        return None
    for ev in res.get("events", []):
        if ev["kind"] in ("notok", "diff", "garbage", "rejected"):
            return ev
    return None


def severity(ev):
    """2: the real output fails the property's predicate; 1: it only differs from the model"""
    if ev is None:
        return 0
    det = ev.get("detail")
    if ev["kind"] in ("diff", "sig-diff") and not (isinstance(det, dict) and det.get("not_ok")):
        return 1
    return 2


def shrink_type(ck, cproc, t, tg, budget=150):
    best = probe_type(ck, cproc, t, tg)
    if best is None:
        return t, None
    progress = True
    while progress and budget > 0:
        progress = False
        for v in c06.variants(t):
            budget -= 1
            if budget <= 0:
                break
            if n_leaves(v) == 0:
                continue
            ev = probe_type(ck, cproc, v, tg)
            if ev is not None and severity(ev) >= severity(best):
                t, best, progress = v, ev, True
                break
    return t, best


def handle_type_event(ck, cproc, t, ev):
    tg, kind = ev["target"], ev["kind"]
    tid = ev["tid"]
    if kind == "known":
        det = ev["detail"]
        ck.report(dict(type_replay(tid, t, tg, ev), what="descriptor does not describe the C type (%s): %s"
                       % (" ".join(det["flags"]), det["not_ok"])), fid=det["fid"])
        return
    if len(ck.violations) >= 3:
        ck.violations.append(None)
        return
    t2, ev2 = shrink_type(ck, cproc, t, tg)
    if ev2 is None:
        t2, ev2 = t, ev
    ev2 = dict(ev2, tid=0 if ev2 is not ev else tid)
    rp = type_replay(ev2["tid"], t2, tg, ev2)
    if ev2 is not ev:
        rp["original_program"] = type_replay(tid, t, tg, ev)["program"]
    k2 = ev2["kind"]
    if k2 == "notok":
        rp["what"] = "the emitted type definition does not describe the C type: " + ev2["detail"]["not_ok"]
        ck.violation(rp)
    elif k2 == "diff":
        bad = ev2["detail"]["not_ok"]
        if bad is None and isinstance(ev2["detail"]["model"], str) and ev2["detail"]["model"].split()[0] in ("fatal", "error"):
            bad = "the model predicts the compiler stops (%s) but a definition was emitted" % ev2["detail"]["model"]
        if bad:
            rp["what"] = "emittype and Model/AbiDesc.lean disagree and the emitted definition does not describe the C type: " + bad
            ck.violation(rp)
        else:
            rp["what"] = "emittype and Model/AbiDesc.lean disagree although the emitted definition describes the C type"
            rp["theorem"] = "CprocVerif.C08.desc_size_align_partial / desc_fields_partial"
            ck.violation(rp, nofail=True)
    elif k2 == "garbage":
        rp["what"] = "the emitted type definitions are not a well-formed description: %s" % ev2["detail"]
        ck.violation(rp)
    else:
        rp["what"] = "a valid type passed by value is rejected: %s" % ev2.get("stderr")
        ck.violation(rp)


def run_type_batches(ck, cproc, all_types, label, oracles=True, batch=60):
    d = os.path.join(ck.scratch(), label)
    jobs = []
    idx = list(enumerate(all_types))
    for k in range(0, len(idx), batch):
        jobs.append({"id": len(jobs), "dir": d, "cproc": cproc, "drv": ck.drv_path(), "types": idx[k:k + batch],
                     "targets": TARGETS, "oracles": oracles})
    spec_bad = []
    flags, sizes = {}, {}
    with concurrent.futures.ProcessPoolExecutor(max_workers=min(common.NPROC, 16)) as ex:
        for job, res in zip(jobs, ex.map(type_batch, jobs)):
            if "broken" in res:
                raise Broken(res["broken"])
            for k, v in res["counts"].items():
                ck.kb[k] = ck.kb.get(k, 0) + v
            flags.update(res["flags"])
            sizes.update(res["sizes"])
            by = dict(job["types"])
            for ev in res["events"]:
                ck.kb["ev:" + ev["kind"]] = ck.kb.get("ev:" + ev["kind"], 0) + 1
                if ev["kind"] == "spec-vs-oracle":
                    spec_bad.append((ev, type_def(ev["tid"], by[ev["tid"]])))
                elif ev["kind"] in ("oracle-rejects", "oracle-unparsed"):
                    if len(ck.kb.setdefault("oracle_problems", [])) < 5:
                        ck.kb["oracle_problems"].append({k: (v if k != "tid" else type_def(v, by[v])[:300]) for k, v in ev.items()})
                else:
                    handle_type_event(ck, cproc, by[ev["tid"]], ev)
    if spec_bad:
        ev, prog = spec_bad[0]
        raise Broken("Spec/QbeLayout.flattenC disagrees with %s (%s) on %d type(s); first: oracle %s spec %s -- %s"
                     % (ev["compiler"], ev["target"], len(spec_bad), ev["oracle"], ev["spec"], prog[:400]))
    return flags, sizes


# ------------------------------------------------------------------ signatures and call sites
# sig = dict(kind='def'|'call'|'vadef', ret=type|None, params=[type], variadic=bool, args=[type], vaargs=[scalar])
# types here: ('sc', name) | ('arr', type, n) | ('ref', tid)  (by-value use of pool type tid)
VAARG_TYPES = ["int", "uint", "long", "ulong", "llong", "ullong", "double", "voidp", "charpp", "Ea", "Eb", "Ec", "Ed"]
# class with which a value of the type is fetched from a va_list (word, long word, double)
VAARG_CLASS = {"int": "w", "uint": "w", "long": "l", "ulong": "l", "llong": "l", "ullong": "l", "double": "d", "voidp": "l",
               "charpp": "l", "Ea": "w", "Eb": "w", "Ec": "l", "Ed": "l"}
ARITH = [k for k in MAIN_SCALARS if SC[k][5] or k in FLOATS]


def s_drv(t, pool):
    if t[0] == "ref":
        return drv_type(pool[t[1]])
    if t[0] == "arr":
        return "A %d %s" % (t[2], s_drv(t[1], pool))
    return DRV_SC[t[1]]


def s_decl(t, name, pool):
    dims = ""
    while t[0] == "arr":
        dims += "[%d]" % t[2]
        t = t[1]
    if t[0] == "ref":
        return "%s T%d %s%s" % (kw(pool[t[1]]), t[1], name, dims)
    sp, pre, suf = SC[t[1]][:3]
    return "%s %s%s%s%s" % (sp, pre, name, dims, suf)


def sig_c(k, sg, pool):
    ps = [s_decl(p, "a%d" % i, pool) for i, p in enumerate(sg["params"])]
    plist = ", ".join(ps + (["..."] if sg["variadic"] else [])) or "void"       # C23: `T f(...)` has no named parameter
    rt = sg["ret"]
    if sg["kind"] == "def":
        if rt is None:
            return "void f%d(%s) { }\n" % (k, plist)
        return "extern %s;\n%s(%s) { return r%d; }\n" % (s_decl(rt, "r%d" % k, pool), s_decl(rt, "f%d" % k, pool), plist, k)
    if sg["kind"] == "vadef":
        # C23: `int h(...)` and `va_start(ap)` without a second argument
        body = "__builtin_va_list ap; __builtin_va_start(ap%s); " % (", a%d" % (len(ps) - 1) if ps else "")
        for i, v in enumerate(sg["vaargs"]):
            body += "%s = __builtin_va_arg(ap, %s); " % (s_decl(I(v), "x%d" % i, pool), s_decl(I(v), "", pool).strip())
        body += "__builtin_va_end(ap); return 0;"
        return "int h%d(%s) { %s }\n" % (k, plist, body)
    if sg["kind"] == "pcall":
        # call through a pointer to function: the callee is a value, only the function type is known
        name = "(*p%d)(%s)" % (k, plist)
        out = "extern %s;\n" % (s_decl(rt, name, pool) if rt is not None else "void " + name)
        callee = "p%d" % k
    else:
        out = "%s(%s);\n" % (s_decl(rt, "g%d" % k, pool) if rt is not None else "void g%d" % k, plist)
        callee = "g%d" % k
    for i, a in enumerate(sg["args"]):
        out += "extern %s;\n" % s_decl(a, "b%d_%d" % (k, i), pool)
    out += "void c%d(void) { %s(%s); }\n" % (k, callee, ", ".join("b%d_%d" % (k, i) for i in range(len(sg["args"]))))
    return out


def sig_drv(tg, sg, pool):
    head = "%s %d %s" % (tg, 1 if sg["variadic"] else 0,
                         " ; ".join([s_drv(sg["ret"], pool) if sg["ret"] is not None else "void"] + [s_drv(p, pool) for p in sg["params"]]))
    if sg["kind"] in ("call", "pcall"):
        return ["call " + head + " | " + " ; ".join(s_drv(a, pool) for a in sg["args"])]
    if sg["kind"] == "vadef":
        return ["func " + head] + ["vaarg %s %s" % (tg, DRV_SC[v]) for v in sg["vaargs"]]
    return ["func " + head]


class SGen:
    def __init__(self, rng, pool_ids):
        self.rng = rng
        self.pool_ids = pool_ids

    def ptype(self, allow_valist=True):
        r = self.rng
        x = r.random()
        if self.pool_ids and x < 0.3:
            return ("ref", r.choice(self.pool_ids))
        if x < 0.38:
            return ("arr", I(r.choice(MAIN_SCALARS)), r.choice([1, 3, 8]))
        if allow_valist and x < 0.42:
            return I("valist")
        if x < 0.55:
            return I(r.choice(["float", "double"]))
        return I(r.choice(MAIN_SCALARS))

    def rtype(self):
        r = self.rng
        x = r.random()
        if x < 0.15:
            return None
        if self.pool_ids and x < 0.45:
            return ("ref", r.choice(self.pool_ids))
        return I(r.choice([k for k in MAIN_SCALARS if k != "fnp"]))     # `int (*f(void))(void)`: use the typedef fp_t

    def arg_for(self, p):
        r = self.rng
        if p[0] == "sc" and p[1] in ARITH and r.random() < 0.5:
            return I(r.choice(ARITH))
        return p

    def sig(self, kind):
        r = self.rng
        n = r.choice([0, 1, 2, 3, 4, 5, 6, 8, 10, 12])
        variadic = r.random() < (0.45 if kind in ("call", "pcall") else 0.25)
        if kind == "vadef":
            variadic = True
            n = r.randint(0, 3)
        if variadic and r.random() < 0.25:
            n = 0                      # C23 6.7.6.3: `T f(...)`, a variadic type without named parameters
        params = [self.ptype() for _ in range(n)]
        sg = {"kind": kind, "ret": self.rtype(), "params": params, "variadic": variadic, "args": None, "vaargs": None}
        if kind == "vadef":
            sg["ret"] = I("int")
            if params and (params[-1][0] != "sc" or params[-1][1] in ("valist",)):
                params[-1] = I(r.choice(["int", "long", "double", "voidp"]))
            sg["vaargs"] = [r.choice(VAARG_TYPES) for _ in range(r.randint(0, 4))]
        if kind in ("call", "pcall"):
            args = [self.arg_for(p) for p in params]
            if variadic:
                for _ in range(r.choice([0, 0, 1, 2, 3, 5])):
                    args.append(self.ptype(allow_valist=False))
            sg["args"] = args
        return sg


FUNC_RE = re.compile(r"^function (?:(\S+) )?\$(\w+)\((.*)\) \{$")
CALL_RE = re.compile(r"^\t(?:%\S+ =(\S+) )?call (\S+?)\((.*)\)$")
VAARG_RE = re.compile(r"^\t%\S+ =(\S+) vaarg ")


def real_cls(c, defs):
    if c is None:
        return "-"
    if c.startswith(":"):
        if c[1:] not in defs:
            return "?undefined" + c
        return ":" + canon(defs[c[1:]])
    return c


def parse_module_sigs(text):
    """-> (type defs, functions: name -> dict(ret, params, vaargs, vastart), calls: callee -> (ret, args))"""
    defs, errs = parse_types(text)
    funcs, calls = {}, {}
    cur = None
    for ln in text.splitlines():
        m = FUNC_RE.match(ln)
        if m:
            ps = [p.strip() for p in m.group(3).split(",")] if m.group(3).strip() else []
            cur = {"ret": m.group(1), "params": ["..." if p == "..." else p.split()[0] for p in ps], "vaargs": [], "vastart": 0,
                   "calls": []}
            funcs[m.group(2)] = cur
            continue
        if ln == "}":
            cur = None
            continue
        m = CALL_RE.match(ln)
        if m:
            args = [a.strip() for a in m.group(3).split(",")] if m.group(3).strip() else []
            one = (m.group(1), ["..." if a == "..." else a.split()[0] for a in args])
            calls[m.group(2).lstrip("$")] = one
            if cur is not None:
                cur["calls"].append(one)
            continue
        if cur is not None:
            m = VAARG_RE.match(ln)
            if m:
                cur["vaargs"].append(m.group(1))
            elif ln.startswith("\tvastart "):
                cur["vastart"] += 1
    return defs, errs, funcs, calls


def compare_sig(real, model_ln, sg, defs):
    """real: [ret, cls...] as canonical strings.  -> (kind, detail); kind: ok | subword | diff | notok"""
    if not model_ln.startswith("ok "):
        return "diff", {"real": real, "model": model_ln}
    ms, ss = model_ln[3:].split(" | ")
    model = ms.split(" ; ")
    spec = ss.split(" ; ")
    bad, sub = [], []
    if len(real) != len(spec):
        bad.append("%d classes instead of %d" % (len(real), len(spec)))
    else:
        for i, (r, s) in enumerate(zip(real, spec)):
            if r == s:
                continue
            if s in ("ub", "sb", "uh", "sh") and r == "w":
                sub.append(i)
            else:
                bad.append("position %d (0 = return): class %s, the C type demands %s" % (i, r[:80], s[:80]))
    if real != model:
        return "diff", {"real": real, "model": model, "spec": spec, "not_ok": bad or None}
    if bad:
        return "notok", {"real": real, "spec": spec, "not_ok": bad}
    if sub:
        return "subword", {"real": real, "spec": spec, "positions": sub}
    return "ok", None


def sig_batch(job):
    """job: dict(id, dir, cproc, drv, pool={tid: t}, sigs=[(k, sig)], targets)"""
    d = job["dir"]
    os.makedirs(d, exist_ok=True)
    pool = job["pool"]
    used = set()

    def refs(t):
        if t is None:
            return
        if t[0] == "ref":
            used.add(t[1])
        elif t[0] == "arr":
            refs(t[1])
    for k, sg in job["sigs"]:
        for t in [sg["ret"]] + sg["params"] + (sg["args"] or []):
            refs(t)
    src = PRELUDE + "".join(type_def(tid, pool[tid]) for tid in sorted(used))
    src += "".join(sig_c(k, sg, pool) for k, sg in job["sigs"])
    pc = os.path.join(d, "s%d.c" % job["id"])
    open(pc, "w").write(src)
    lines, index = [], {}
    for k, sg in job["sigs"]:
        for tg in job["targets"]:
            ls = sig_drv(tg, sg, pool)
            index[(k, tg)] = (len(lines), len(ls))
            lines += ls
    r = subprocess.run([job["drv"]], input="\n".join(lines) + "\n", stdout=subprocess.PIPE, stderr=subprocess.PIPE, text=True)
    dl = r.stdout.splitlines()
    if r.returncode != 0 or len(dl) != len(lines):
        return {"broken": "drv_c08 failed on signatures: " + r.stderr[-300:]}
    if any(x == "bad-op" for x in dl):
        return {"broken": "drv_c08 cannot answer `%s`" % lines[dl.index("bad-op")][:300]}
    events, counts = [], {}
    for tg in job["targets"]:
        rc, out, err = run_tool([job["cproc"], "-t", tg], pc)
        if rc != 0:
            events.append({"kind": "sig-rejected", "target": tg, "stderr": err.strip()[-300:], "ks": [k for k, _ in job["sigs"]]})
            continue
        defs, errs, funcs, calls = parse_module_sigs(out)
        for k, sg in job["sigs"]:
            a, n = index[(k, tg)]
            counts["sig-evaluations"] = counts.get("sig-evaluations", 0) + 1
            if sg["kind"] in ("call", "pcall"):
                # the one call instruction of c<k> (its callee is $g<k>, or a temporary loaded from $p<k>)
                cs_ = funcs.get("c%d" % k, {}).get("calls", [])
                got = cs_[0] if len(cs_) == 1 else None
                if sg["kind"] == "call" and calls.get("g%d" % k) != got:
                    got = None
                real = None if got is None else [real_cls(got[0], defs)] + [x if x == "..." else real_cls(x, defs) for x in got[1]]
            else:
                got = funcs.get(("f%d" if sg["kind"] == "def" else "h%d") % k)
                real = None if got is None else [real_cls(got["ret"], defs)] + [x if x == "..." else real_cls(x, defs) for x in got["params"]]
            if real is None:
                events.append({"kind": "sig-missing", "k": k, "target": tg})
                continue
            kind, det = compare_sig(real, dl[a], sg, defs)
            if kind in ("ok", "subword") and sg["kind"] == "vadef":
                want = [x[3:] if x.startswith("ok ") else x for x in dl[a + 1:a + n]]
                exp = [VAARG_CLASS[v] for v in sg["vaargs"]]
                bad = None
                if got["vaargs"] != exp:
                    bad = ["va_arg fetches with classes %s, the C types demand %s" % (got["vaargs"], exp)]
                elif got["vastart"] != 1:
                    bad = ["%d vastart instructions for one va_start" % got["vastart"]]
                if got["vaargs"] != want or bad:
                    kind, det = "diff", {"real": real, "vaarg_real": got["vaargs"], "vaarg_model": want,
                                         "vastart": got["vastart"], "not_ok": bad}
            counts["sig-" + kind] = counts.get("sig-" + kind, 0) + 1
            if kind != "ok":
                events.append({"kind": "sig-" + kind, "k": k, "target": tg, "detail": det})
    return {"events": events, "counts": counts}


def sig_variants(sg):
    n = len(sg["params"])
    for i in range(n):
        v = dict(sg, params=sg["params"][:i] + sg["params"][i + 1:])
        if sg["args"] is not None:
            v["args"] = sg["args"][:i] + sg["args"][i + 1:]
        yield v
    if sg["args"] is not None:
        for i in range(n, len(sg["args"])):
            yield dict(sg, args=sg["args"][:i] + sg["args"][i + 1:])
    if sg["vaargs"]:
        for i in range(len(sg["vaargs"])):
            yield dict(sg, vaargs=sg["vaargs"][:i] + sg["vaargs"][i + 1:])
    if sg["ret"] is not None and sg["kind"] != "vadef":
        yield dict(sg, ret=None)
        if sg["ret"] != I("int"):
            yield dict(sg, ret=I("int"))
    for i in range(n):
        if sg["params"][i] != I("int"):
            v = dict(sg, params=sg["params"][:i] + [I("int")] + sg["params"][i + 1:])
            if sg["args"] is not None:
                v["args"] = sg["args"][:i] + [I("int")] + sg["args"][i + 1:]
            yield v
    if sg["args"] is not None:
        for i in range(len(sg["args"])):
            if i < n and sg["args"][i] != sg["params"][i]:
                yield dict(sg, args=sg["args"][:i] + [sg["params"][i]] + sg["args"][i + 1:])
            elif i >= n and sg["args"][i] != I("int"):
                yield dict(sg, args=sg["args"][:i] + [I("int")] + sg["args"][i + 1:])


SIG_BAD = ("sig-diff", "sig-notok", "sig-missing", "sig-rejected")


def probe_sig(ck, cproc, sg, pool, tg):
    job = {"id": 0, "dir": os.path.join(ck.scratch(), "shrink"), "cproc": cproc, "drv": ck.drv_path(), "pool": pool,
           "sigs": [(0, sg)], "targets": [tg]}
    try:
        res = sig_batch(job)
    except Exception:
        return None
    for ev in res.get("events", []):
        if ev["kind"] in SIG_BAD:
            return ev
    return None


def sig_program(k, sg, pool):
    used = []

    def refs(t):
        if t is not None and t[0] == "ref" and t[1] not in used:
            used.append(t[1])
        elif t is not None and t[0] == "arr":
            refs(t[1])
    for t in [sg["ret"]] + sg["params"] + (sg["args"] or []):
        refs(t)
    return PRELUDE + "".join(type_def(tid, pool[tid]) for tid in used) + sig_c(k, sg, pool)


def handle_sig_event(ck, cproc, sg, pool, ev):
    tg = ev["target"]
    if ev["kind"] == "sig-subword":
        ck.report({"kind": "signature", "target": tg, "program": sig_program(ev["k"], sg, pool), "detail": ev["detail"],
                   "what": "sub-word integer parameter/argument/return value has class w (QBE's ABI classes sb/ub/sh/uh "
                           "exist for interoperation with C)"}, fid=FID_SUBWORD)
        return
    if len(ck.violations) >= 3:
        ck.violations.append(None)
        return
    best, k = ev, ev.get("k", 0)
    cur = probe_sig(ck, cproc, sg, pool, tg)
    if cur is not None:
        best, k = cur, 0
        budget, progress = 150, True
        while progress and budget > 0:
            progress = False
            for v in sig_variants(sg):
                budget -= 1
                if budget <= 0:
                    break
                e2 = probe_sig(ck, cproc, v, pool, tg)
                if e2 is not None and severity(e2) >= severity(best):
                    sg, best, progress = v, e2, True
                    break
    rp = {"kind": "signature", "target": tg, "program": sig_program(k, sg, pool), "drv": sig_drv(tg, sg, pool),
          "detail": best.get("detail"), "stderr": best.get("stderr")}
    kind = best["kind"]
    if kind == "sig-notok" or (kind == "sig-diff" and best["detail"].get("not_ok")):
        rp["what"] = ("the emitted %s does not carry the classes the C declaration demands: %s"
                      % ("call" if sg["kind"] in ("call", "pcall") else "function signature", "; ".join(best["detail"]["not_ok"])))
        ck.violation(rp)
    elif kind == "sig-diff":
        rp["what"] = "emitfunc/funcexpr(EXPRCALL)/emitinst and Model/AbiDesc.lean disagree although the classes are what the C declaration demands"
        rp["theorem"] = "CprocVerif.C08.param_class_correct_partial / vararg_marker_pos / promotion_of_variadic_args"
        ck.violation(rp, nofail=True)
    elif kind == "sig-missing":
        rp["what"] = "no function definition / call instruction found in the output for this declaration"
        ck.violation(rp)
    else:
        rp["what"] = "valid program rejected: %s" % best.get("stderr")
        ck.violation(rp)


def run_sig_batches(ck, cproc, pool, sigs, label, batch=40):
    d = os.path.join(ck.scratch(), label)
    idx = list(enumerate(sigs))
    jobs = []
    for k in range(0, len(idx), batch):
        jobs.append({"id": len(jobs), "dir": d, "cproc": cproc, "drv": ck.drv_path(), "pool": pool,
                     "sigs": idx[k:k + batch], "targets": TARGETS})
    with concurrent.futures.ProcessPoolExecutor(max_workers=min(common.NPROC, 16)) as ex:
        for job, res in zip(jobs, ex.map(sig_batch, jobs)):
            if "broken" in res:
                raise Broken(res["broken"])
            for k, v in res["counts"].items():
                ck.kb[k] = ck.kb.get(k, 0) + v
            by = dict(job["sigs"])
            for ev in res["events"]:
                ck.kb["ev:" + ev["kind"]] = ck.kb.get("ev:" + ev["kind"], 0) + 1
                if ev["kind"] == "sig-rejected":
                    # find the rejected declaration(s) of the batch
                    for k, sg in job["sigs"]:
                        e2 = probe_sig(ck, cproc, sg, pool, ev["target"])
                        if e2 is not None:
                            handle_sig_event(ck, cproc, sg, pool, dict(e2, k=0))
                            break
                    else:
                        ck.violation({"kind": "signature", "target": ev["target"], "stderr": ev["stderr"],
                                      "what": "a batch of valid declarations is rejected as a whole"})
                else:
                    handle_sig_event(ck, cproc, by[ev["k"]], pool, ev)


CORPUS_SIGS = [
    # fixed 68737d2: printf("x") must carry the marker
    {"kind": "call", "ret": I("int"), "params": [I("charpp")], "variadic": True, "args": [I("charpp")], "vaargs": None},
    {"kind": "call", "ret": I("int"), "params": [I("charpp")], "variadic": True, "vaargs": None,
     "args": [I("charpp"), I("char"), I("float"), I("short"), I("_Bool"), I("uchar"), I("ushort"), I("long"), I("double"), ("arr", I("int"), 3)]},
    {"kind": "call", "ret": None, "params": [], "variadic": False, "args": [], "vaargs": None},
    # known finding subword-arg-not-extended
    {"kind": "call", "ret": I("int"), "params": [I("uchar")], "variadic": False, "args": [I("int")], "vaargs": None},
    {"kind": "def", "ret": I("uchar"), "params": [I("int"), I("uchar"), I("short"), I("_Bool"), I("float"), ("arr", I("char"), 4), I("fnp")],
     "variadic": False, "args": None, "vaargs": None},
    {"kind": "def", "ret": None, "params": [I("valist"), I("int")], "variadic": False, "args": None, "vaargs": None},
    {"kind": "call", "ret": None, "params": [I("valist"), I("int")], "variadic": False, "args": [I("valist"), I("int")], "vaargs": None},
    {"kind": "vadef", "ret": I("int"), "params": [I("int")], "variadic": True, "args": None, "vaargs": ["int", "double", "voidp", "ulong"]},
    {"kind": "def", "ret": I("double"), "params": [I("int")] * 12, "variadic": True, "args": None, "vaargs": None},
    # C23 variadic types without a named parameter: definition, va_start(ap), direct call, call through a pointer
    {"kind": "vadef", "ret": I("int"), "params": [], "variadic": True, "args": None, "vaargs": ["double", "int"]},
    {"kind": "def", "ret": None, "params": [], "variadic": True, "args": None, "vaargs": None},
    {"kind": "call", "ret": I("int"), "params": [], "variadic": True, "args": [I("charpp"), I("double")], "vaargs": None},
    {"kind": "pcall", "ret": None, "params": [], "variadic": True, "args": [I("float"), I("short")], "vaargs": None},
    {"kind": "pcall", "ret": I("long"), "params": [I("int")], "variadic": True, "args": [I("int")], "vaargs": None},
    {"kind": "pcall", "ret": None, "params": [I("uchar"), I("double")], "variadic": False, "args": [I("int"), I("float")], "vaargs": None},
]


# ------------------------------------------------------------------ small fixed probes
def run_fixed_probes(ck, cproc):
    """long double (qbetype: fatal), va_arg of a non-scalar (diagnosed), va_list per target"""
    d = os.path.join(ck.scratch(), "fixed")
    os.makedirs(d, exist_ok=True)
    n = 0
    probes = [
        ("ldouble-member", "struct L { long double x; }; void g(struct L); void f(struct L *p) { g(*p); }\n",
         "type x86_64-sysv S { m x 0 ldouble }", "fatal", "long double is not yet supported"),
        ("ldouble-param", "void g(long double); void f(long double *p) { g(*p); }\n",
         "call x86_64-sysv 0 void ; ldouble | ldouble", "fatal", "long double is not yet supported"),
        ("vaarg-struct", "struct S { int a; }; int f(int n, ...) { __builtin_va_list ap; __builtin_va_start(ap, n); "
         "struct S s = __builtin_va_arg(ap, struct S); return s.a; }\n",
         "vaarg x86_64-sysv S { m a 0 int }", "error", "va_arg with non-scalar type is not yet supported"),
    ]
    for name, src, op, want, msg in probes:
        p = os.path.join(d, name + ".c")
        open(p, "w").write(src)
        m = ck.run_drv(op + "\n")[0]
        for tg in TARGETS:
            rc, out, err = run_tool([cproc, "-t", tg], p)
            ck.count(("fixed", name, tg))
            n += 1
            rp = {"kind": "unsupported-construct", "target": tg, "program": src, "model": m, "rc": rc, "stderr": err[-300:]}
            if rc == 0:
                rp["what"] = "a construct without QBE representation is compiled instead of being diagnosed (%s)" % msg
                ck.violation(rp)
                return n
            if m != want or msg not in err:
                rp["what"] = "qbe.c and Model/AbiDesc.lean disagree on how this construct is refused"
                rp["theorem"] = "CprocVerif.C08 (model of qbetype/IVAARG)"
                ck.violation(rp, nofail=True)
                return n
    for tg in TARGETS:
        ln = ck.run_drv("valist %s\n" % tg)[0]
        a, b = [x.strip() for x in ln.split("|")]
        ck.count(("valist", tg))
        n += 1
        if a != b:
            ck.violation({"kind": "valist", "target": tg, "targ.c": a, "psABI": b,
                          "what": "targ.c describes va_list with a kind/size/alignment other than the psABI's",
                          "theorem": "CprocVerif.C08.valist_per_target"}, nofail=True)
    return n


def run_replay(ck, cproc):
    """re-run the program of a replay file on its target and show what the real compiler and the model say"""
    rp = json.load(open(ck.replay))
    p = os.path.join(ck.scratch(), "replay.c")
    open(p, "w").write(rp.get("program", ""))
    rc, out, err = run_tool([cproc, "-t", rp.get("target", TARGETS[0])], p)
    print("cproc-qbe -t %s: rc=%d %s" % (rp.get("target"), rc, err.strip()[-300:]))
    for ln in out.splitlines():
        if ln.startswith(("type ", "function ")) or "call $" in ln or " vaarg " in ln:
            print("  " + ln.strip())
    ops = rp.get("drv")
    if isinstance(ops, str):
        ops = ["type %s %s" % (rp.get("target", TARGETS[0]), ops)]
    for op in ops or []:
        print("  model/spec: %s\n    -> %s" % (op[:200], ck.run_drv(op + "\n")[0][:600]))
    ck.count(("replay", ck.replay))


def totuple(x):
    return tuple(totuple(y) for y in x) if isinstance(x, list) else x


def load_sig(e):
    return {"kind": e["kind"], "ret": totuple(e["ret"]) if e["ret"] else None, "params": [totuple(p) for p in e["params"]],
            "variadic": e["variadic"], "args": [totuple(a) for a in e["args"]] if e["args"] is not None else None,
            "vaargs": e["vaargs"]}


def sig_hist(sg, h):
    bump(h, "kind:" + sg["kind"] + (":variadic" if sg["variadic"] else ""))
    bump(h, "nparams:%02d" % len(sg["params"]))
    for t in [sg["ret"]] + sg["params"]:
        bump(h, "type:" + ("void" if t is None else "aggregate" if t[0] == "ref" else "array-param" if t[0] == "arr" else t[1]))
    if sg["args"] is not None:
        bump(h, "extra-args:%d" % (len(sg["args"]) - len(sg["params"])))
        for a in sg["args"][len(sg["params"]):]:
            bump(h, "extra:" + ("aggregate" if a[0] == "ref" else "array" if a[0] == "arr" else a[1]))


def run(ck):
    ck.cov["rule"] = (
        "K-B on three targets (x86_64-sysv, aarch64, riscv64).  Types: generated struct/union definitions (all integer "
        "types incl. _Bool and enums, float, double, object and function pointers; arrays incl. multi-dimensional and of "
        "aggregates; nesting <= 3; anonymous members; bit-fields of every base type and width; sizes 1..64 bytes and "
        "larger) passed by value; the emitted `type` definitions are parsed, names resolved, compared with "
        "Model/AbiDesc.emittype (drv_c08) and, independently, laid out under QBE's documented rules and compared with the "
        "C layout observed from gcc (x86-64) and clang --target (three targets): sizeof, _Alignof, offset/size/kind of "
        "every scalar leaf, bit-fields by their storage unit (same floating fields, same bytes covered by integer "
        "fields).  Main stream avoids the recorded defective classes; one deliberate stream per recorded finding "
        "(packed, _Alignas, unnamed bit-fields, flexible arrays, va_list members, mixed bit-field units).  Signatures: "
        "function definitions and calls with <= 12 parameters (scalars, arrays, va_list, aggregates by value), any "
        "return type, variadic calls with promotable arguments (char/short/_Bool/float/enum/array/aggregate), variadic "
        "definitions with va_start/va_arg; `function`/`call`/`vaarg` lines parsed and compared with the model and with "
        "the classes Spec/QbeLayout.abiClass demands (marker position, promotions, sub-word classes).  "
        "distinct_nontrivial counts distinct type/signature descriptions.")
    ck.lean_build()
    if not ck.proofs_ok:
        ck.notes.append("Props.C08 does not build; searching for a failing input")
    if not ck.drv_ok:
        raise Broken("drv_c08 does not build: " + ck.build_log[-1500:])
    cproc = ck.build_cproc_qbe()
    ck.kb = {}
    rng = ck.rng
    if ck.replay:
        return run_replay(ck, cproc)
    quick = ck.quick
    # 1. corpus: fixed-defect witnesses, then the recorded witnesses and boundary shapes
    cfile = os.path.join(common.VERIF, "corpus", "C08", "witnesses.json")
    corp = json.load(open(cfile)) if os.path.exists(cfile) else {"sigs": [], "types": []}
    csigs = [load_sig(e) for e in corp.get("sigs", [])] + CORPUS_SIGS
    ctypes = [totuple(e["type"]) for e in corp.get("types", [])] + [t for _, t in CORPUS_TYPES]
    run_sig_batches(ck, cproc, {}, csigs, "corpus-sig", batch=4)
    run_type_batches(ck, cproc, ctypes, "corpus", batch=4)
    nfixed = run_fixed_probes(ck, cproc) if not ck.violations else 0
    # 2. types
    hist, depth_h, size_h, mix_h = {}, {}, {}, {}
    n_main = 1500 if quick else 90000
    n_side = 100 if quick else 4000
    pool = {}
    for mode in ("main", "bitmix", "packed", "alignas", "unnamed", "flex", "valist"):
        if ck.violations:
            break
        g = TGen(rng, mode)
        types = [g.toplevel() for _ in range(n_main if mode == "main" else n_side)]
        for t in types:
            c06.kinds_hist(t, hist)
            bump(depth_h, c06.t_depth(t))
            bump(mix_h, "+".join(sorted(t_float_mix(t))))
            ck.count(c06.key64(drv_type(t)))
        flags, sizes = run_type_batches(ck, cproc, types, "rand-" + mode)
        ck.kb["flagfree:" + mode] = sum(1 for f in flags.values() if not f)
        for i, s in sizes.items():
            bump(size_h, "%s:%s" % (mode if mode == "main" else "side", "1-8" if s <= 8 else "9-16" if s <= 16 else "17-32" if s <= 32 else "33-64" if s <= 64 else "65+"))
        if mode == "main":
            ck.sample({"type": type_def(0, types[3])[:500], "drv": drv_type(types[3])[:300]})
            for i, t in enumerate(types):
                if not flags.get(i) and sizes.get(i, 999) <= 96 and len(pool) < 400:
                    pool[len(pool)] = t
    # 3. signatures and call sites
    shist = {}
    if not ck.violations:
        sg = SGen(rng, sorted(pool))
        n_sig = 1000 if quick else 36000
        sigs = [sg.sig(rng.choice(["def", "def", "call", "call", "call", "pcall", "vadef"])) for _ in range(n_sig)]
        for s in sigs:
            sig_hist(s, shist)
            ck.count(c06.key64(repr(s)))
        ck.sample({"signature": sig_program(0, sigs[5], pool)[-600:], "drv": sig_drv("x86_64-sysv", sigs[5], pool)})
        run_sig_batches(ck, cproc, pool, sigs, "sigs")
    if not ck.kb.get("oracle"):
        raise Broken("no type was laid out by gcc/clang: %s" % ck.kb.get("oracle_problems"))
    ck.cov["kb_stats"] = dict(ck.kb)
    ck.cov["fixed_probes"] = nfixed
    ck.cov["input_histogram"] = dict(sorted(hist.items()))
    ck.cov["nesting_depth_histogram"] = dict(sorted(depth_h.items()))
    ck.cov["size_histogram"] = dict(sorted(size_h.items()))
    ck.cov["int_float_mix_histogram"] = dict(sorted(mix_h.items()))
    ck.cov["signature_histogram"] = dict(sorted(shist.items()))
    ck.cov["targets"] = TARGETS
    ck.cov["pool_types_used_by_value_in_signatures"] = len(pool)
    if not ck.proofs_ok and not ck.violations:
        ck.violation({"kind": "proof-broken", "theorem": "CprocVerif.Props.C08 (lake build failed)",
                      "log": ck.build_log[-3000:]}, nofail=True)
    ck.assumptions = [
        "QBE lays a `type` definition out as its IL reference documents (Spec/QbeLayout.lean) and maps a faithful "
        "description and class list to the registers/stack slots of the psABI: no QBE backend exists in the sandbox, so "
        "mixed executables are not run (the dynamic half of the property is not decided)",
        "gcc 12 (x86-64) and clang 14 --target={x86_64,aarch64,riscv64}-linux-gnu implement the platform ABIs (oracles for "
        "the C layout); a bit-field contributes its declared type's storage unit",
        "the parser delivers the declared parameter/argument types to qbe.c (exercised through K-B only)",
    ]


META = {
    "category": "proof",
    "text": ("Lean 4 theorems over a transliteration of qbe.c's emittype (member loop with the bit-field storage-unit scan, "
             "arrays, unions, opaque va_list), qbetype/emitclass, emitfunc, funcexpr(EXPRCALL)/emitinst(ICALL), typeadjust and "
             "the argument promotions: for every struct/union type of the member language (unbounded nesting and member "
             "count) outside the recorded defective classes, QBE's documented reading of the emitted definition has the size "
             "and alignment of the C type and the same scalar fields at the same offsets with the same int/float kind "
             "(bit-fields of one storage unit merged); the variadic marker sits after the named arguments; variadic "
             "arguments carry the class of their default-argument-promoted type; every parameter/return class is the class "
             "of the adjusted C type (sub-word integers excepted: recorded finding); va_list has the psABI's kind, size and "
             "alignment on each target.  Each full statement that is false today is refuted by a concrete witness.  Tied to "
             "/repo on every run by compiling generated types, definitions and calls for all three targets and comparing the "
             "parsed type/function/call lines with the model and, via an independent layout of the real definition, with the "
             "C layout observed from gcc and clang --target."),
    "design_ref": "DESIGN.md section 4, C08",
    "note": ("Decides the property's second formulation (descriptor faithfulness) only: there is no QBE backend in the "
             "sandbox, so no mixed executable is run on any target (the x86-64 dynamic check is skipped, not emulated); that "
             "QBE maps a faithful description to the psABI's registers is trusted.  Trusted further: Lean kernel + standard "
             "axioms; the hand-written model (tied by the differential run); gcc/clang as layout oracles; the Python "
             "generators/parsers.  Not modelled: the declaration parser, K&R definitions, function-typed parameters, "
             "bit-field arguments (C05 covers their promotion), GNU zero-length arrays."),
    "technique": "Lean 4 proof (induction over member lists and the type tree) + differential correspondence + oracle validation",
}

"""C08 - calls interoperate with code built by the platform compiler (descriptor faithfulness).

Proof:   lean/CprocVerif/Props/C08.lean over Model/AbiDesc.lean (qbe.c: qbetype, emitclass, emittype,
         emitfunc, funcexpr(EXPRCALL), emitinst(ICALL); type.c: typeadjust; expr.c: call arguments,
         exprpromote; targ.c) and Spec/QbeLayout.lean (QBE's reading of a `type` definition, the
         flattened C type under the C06 layout spec, ABI classes, psABI va_list).
Tie:     K-B  generated struct/union types, function definitions, calls (named + variadic arguments),
              variadic definitions with va_start/va_arg, compiled by the freshly built cproc-qbe for all
              three targets; `type`/`function`/`call`/`vaarg` lines parsed to values and compared with the
              model (drv_c08); independently the `ok` predicate is evaluated on the real output: the real
              `type` definition is laid out under QBE's rules (Python re-implementation, validated against
              Spec/QbeLayout on every run) and compared with the C layout observed from gcc (x86-64) and
              clang --target (three targets): sizeof, _Alignof, offset/size/kind of every scalar leaf.
         Spec validation: Spec's flattened C type vs. the same observations; a disagreement marks the check
              broken, never a violation.
The dynamic half of the property (mixed executables) needs a QBE backend, which the sandbox lacks.
"""
import concurrent.futures
import json
import os
import re
import subprocess

from . import common
from . import c06
from .common import Broken

TARGETS = c06.TARGETS
CLANG_TRIPLE = c06.CLANG_TRIPLE
PRELUDE = c06.PRELUDE

# va_list as a member/parameter type (size/alignment are target dependent: never used from this table)
c06.SCALARS.setdefault("valist", ("__builtin_va_list", "", "", 8, 8, False))
SC = c06.SCALARS

# driver token of every scalar
DRV_SC = {"_Bool": "bool", "char": "char", "schar": "schar", "uchar": "uchar", "short": "short", "ushort": "ushort",
          "int": "int", "uint": "uint", "long": "long", "ulong": "ulong", "llong": "llong", "ullong": "ullong",
          "float": "float", "double": "double", "ldouble": "ldouble", "voidp": "ptr", "charpp": "ptr", "fnp": "ptr",
          "fp_t": "ptr", "Ea": "e:uint", "Eb": "e:int", "Ec": "e:ulong", "Ed": "e:long", "valist": "V"}
MAIN_SCALARS = [k for k in DRV_SC if k not in ("ldouble", "valist")]
INT_SCALARS = [k for k in MAIN_SCALARS if SC[k][5]]
SUBWORD = {"_Bool", "char", "schar", "uchar", "short", "ushort"}
FLOATS = {"float", "double", "ldouble"}

FID = {"packed": "packed-overaligned-descriptor", "overaligned": "packed-overaligned-descriptor",
       "unnamed-bitfield": "unnamed-bitfield-gap-descriptor", "flexible": "flexible-array-descriptor",
       "valist-member": "valist-member-descriptor", "bitfield-smaller-unit": "bitfield-smaller-unit-merge",
       "bitfield-unit-skips-member": "bitfield-unit-skips-member",
       "bitfield-unit-overlap": "bitfield-unit-overlap-descriptor"}
FLAG_PRIORITY = ["valist-member", "flexible", "packed", "overaligned", "unnamed-bitfield",
                 "bitfield-unit-skips-member", "bitfield-smaller-unit", "bitfield-unit-overlap"]
FID_SUBWORD = "subword-arg-not-extended"

bump = c06.bump


# ------------------------------------------------------------------ abstract types -> driver / C text
def drv_type(t):
    if t[0] == "sc":
        return DRV_SC[t[1]]
    if t[0] == "arr":
        return "A %s %s" % ("?" if t[2] is None else t[2], drv_type(t[1]))
    fs = []
    for (n, ft, al, w) in t[3]:
        if w is None:
            fs.append("m %s %d %s" % (n or "-", al, drv_type(ft)))
        else:
            fs.append("b %s %d %s" % (n or "-", w, drv_type(ft)))
    return "%s%s { %s }" % ("U" if t[1] else "S", "P" if t[2] else "", " ".join(fs))


def leaves(t, path="", desig=""):
    """scalar leaves of a struct/union in the order of Spec/QbeLayout.flattenC:
    (offsetof path, designator, scalar name, is_bitfield, width)"""
    out = []
    for (n, ft, al, w) in t[3]:
        if w is not None:
            if n is not None:
                out.append((path + n, desig + "." + n, ft[1], True, w))
            continue
        if n is None:
            out.extend(leaves(ft, path, desig))
            continue
        _leaves_of(ft, path + n, desig + "." + n, out)
    return out


def _leaves_of(ft, p, d, out):
    if ft[0] == "sc":
        out.append((p, d, ft[1], False, None))
    elif ft[0] == "arr":
        if ft[2] is None:
            return
        for i in range(ft[2]):
            _leaves_of(ft[1], "%s[%d]" % (p, i), "%s[%d]" % (d, i), out)
    else:
        out.extend(leaves(ft, p + ".", d))


def n_leaves(t):
    if t[0] == "sc":
        return 1
    if t[0] == "arr":
        return (t[2] or 0) * n_leaves(t[1])
    return sum(1 if w is not None else n_leaves(ft) for (_, ft, _, w) in t[3])


def kw(t):
    return "union" if t[1] else "struct"


def render_oracle(tid, t):
    """C text for gcc/clang: the numbers of the C layout of type tid"""
    tag = "T%d" % tid
    ls = leaves(t)
    T = "%s %s" % (kw(t), tag)
    vals = ["sizeof(%s)" % T, "_Alignof(%s)" % T]
    for (p, d, sc, bf, w) in ls:
        if not bf:
            vals.append("__builtin_offsetof(%s, %s)" % (T, p))
            vals.append("sizeof(((%s *)0)->%s)" % (T, p))
    lines = ["unsigned long v%d[] = {%s};" % (tid, ", ".join(vals))]
    k = 0
    for (p, d, sc, bf, w) in ls:
        if bf:
            lines.append("%s x%d_%d = {%s = -1};" % (T, tid, k, d))
            k += 1
    return "\n".join(lines) + "\n", ls


def type_def(tid, t):
    return c06.c_su(t, "T%d" % tid) + ";\n"


def render_use(tid, t):
    """C text that makes cproc emit the descriptor of type tid"""
    T = "%s T%d" % (kw(t), tid)
    return "void g%d(%s); void f%d(%s *p) { g%d(*p); }\n" % (tid, T, tid, T, tid)


# ------------------------------------------------------------------ QBE `type` definitions
TYPE_RE = re.compile(r"^type :(\S+) = (?:align (\d+) )?\{(.*)\}\s*$")
BASES = {"b": (1, "i"), "h": (2, "i"), "w": (4, "i"), "l": (8, "i"), "s": (4, "f"), "d": (8, "f")}


class BadType(Exception):
    pass


def parse_items(toks, i, defs):
    """item [n] (, item [n])* up to '}' -> ([(tree, n)], index of '}')"""
    items = []
    while i < len(toks) and toks[i] != "}":
        w = toks[i]
        if w in BASES:
            tr = ("B", w)
        elif w.startswith(":"):
            if w[1:] not in defs:
                raise BadType("member type %s is used before it is defined" % w)
            tr = defs[w[1:]]
        else:
            raise BadType("unexpected token %r" % w)
        i += 1
        n = 1
        if i < len(toks) and toks[i].isdigit():
            n = int(toks[i])
            i += 1
        items.append((tr, n))
    if i >= len(toks):
        raise BadType("missing }")
    return items, i


def parse_typedef(line, defs):
    """one `type` line -> (name, tree); trees: ('B', c) | ('S', items) | ('U', [items]) | ('O', align, size)"""
    m = TYPE_RE.match(line)
    if not m:
        raise BadType("unparsable type definition: " + line[:200])
    name, al, body = m.group(1), m.group(2), m.group(3)
    toks = re.findall(r"[{}]|[^\s,{}]+", body + "}")
    if al is not None:
        if len(toks) == 2 and toks[0].isdigit():
            return name, ("O", int(al), int(toks[0]))
        raise BadType("explicit alignment on a regular type: " + line[:200])
    if toks and toks[0] == "{":
        alts = []
        i = 0
        while toks[i] == "{":
            items, i = parse_items(toks, i + 1, defs)
            alts.append(items)
            i += 1
        if toks[i] != "}" or i != len(toks) - 1:
            raise BadType("bad union body: " + line[:200])
        return name, ("U", alts)
    items, i = parse_items(toks, 0, defs)
    if i != len(toks) - 1:
        raise BadType("bad struct body: " + line[:200])
    return name, ("S", items)


def parse_types(text):
    """all type definitions of a module in order: name -> tree (names resolved against earlier definitions)"""
    defs = {}
    errs = {}
    for ln in text.splitlines():
        if ln.startswith("type "):
            try:
                name, tr = parse_typedef(ln, defs)
                defs[name] = tr
            except BadType as e:
                m = re.match(r"type :(\S+)", ln)
                errs[m.group(1) if m else ln] = str(e)
    return defs, errs


def canon(tr):
    if tr[0] == "B":
        return tr[1]
    if tr[0] == "O":
        return "O%d:%d" % (tr[1], tr[2])
    if tr[0] == "S":
        return "S( " + "".join("%s %d " % (canon(x), n) for x, n in tr[1]) + ")"
    return "U( " + "".join("A( " + "".join("%s %d " % (canon(x), n) for x, n in a) + ") " for a in tr[1]) + ")"


def round_up(x, a):
    return (x + a - 1) // a * a


def q_info(tr):
    """QBE's layout of a type (IL reference, Aggregate Types): (size, align, [(off, size, kind)])"""
    if tr[0] == "B":
        s, k = BASES[tr[1]]
        return s, s, [(0, s, k)]
    if tr[0] == "O":
        return tr[2], tr[1], [(0, tr[2], "o")]
    if tr[0] == "S":
        cur, al, fl = q_place(tr[1])
        return round_up(cur, al), al, fl
    cur, al, fl = 0, 1, []
    for a in tr[1]:
        c1, a1, f1 = q_place(a)
        cur, al = max(cur, c1), max(al, a1)
        fl += f1
    return round_up(cur, al), al, fl


def q_place(items):
    cur, al, fl = 0, 1, []
    for tr, n in items:
        s, a, f = q_info(tr)
        al = max(al, a)
        p = round_up(cur, a) if a else cur
        for k in range(n):
            fl += [(p + k * s + o, z, kd) for (o, z, kd) in f]
        cur = p + n * s
    return cur, al, fl


def parse_flds(s):
    out = []
    for x in s.split():
        o, z, k = x.split(":")
        out.append((int(o), int(z), k))
    return out


def fields_equiv(a, b, bound):
    """Spec/QbeLayout.FieldsEquiv: same floating/opaque fields one by one, same bytes covered by integers"""
    if [f for f in a if f[2] != "i"] != [f for f in b if f[2] != "i"]:
        return False
    ca, cb = bytearray(bound), bytearray(bound)
    for fl, c in ((a, ca), (b, cb)):
        for (o, z, k) in fl:
            if k == "i":
                for x in range(o, min(o + z, bound)):
                    c[x] = 1
    return ca == cb


def ok_type(qi, cl):
    """the property's predicate on one descriptor: qi = QBE's reading of the real definition,
    cl = (size, align, fields) of the C type.  Returns None or what differs."""
    if qi[0] != cl[0]:
        return "size %d (C: %d)" % (qi[0], cl[0])
    if qi[1] != cl[1]:
        return "alignment %d (C: %d)" % (qi[1], cl[1])
    if not fields_equiv(qi[2], cl[2], max(qi[0], cl[0]) + 1):
        return "fields %s (C: %s)" % (qi[2][:24], cl[2][:24])
    return None


# ------------------------------------------------------------------ observations
def run_tool(cmd, src):
    r = subprocess.run(cmd + [src], stdout=subprocess.PIPE, stderr=subprocess.PIPE, text=True)
    return r.returncode, r.stdout, r.stderr


def leaf_kind(sc, tg):
    if sc in FLOATS:
        return "f"
    if sc == "valist":
        return "i" if tg == "riscv64" else "o"
    return "i"


def observe_oracle(defs, tid, ls, tg):
    """C layout of type tid from gcc/clang assembly: (size, align, [(off, size, kind)]) or None"""
    v = defs.get("v%d" % tid)
    if v is None:
        return None
    vals = c06.bytes_u64s(v)
    nplain = sum(1 for l in ls if not l[3])
    if len(vals) != 2 + 2 * nplain:
        return None
    fl = []
    i, k = 2, 0
    for (p, d, sc, bf, w) in ls:
        if not bf:
            fl.append((vals[i], vals[i + 1], leaf_kind(sc, tg)))
            i += 2
        else:
            x = defs.get("x%d_%d" % (tid, k))
            k += 1
            if x is None:
                return None
            lo, n, contig = c06.setbits(x)
            ts = SC[sc][3]
            if lo is None or n != w or not contig or len(x) != vals[0]:
                return None
            fl.append((lo // (8 * ts) * ts, ts, "i"))
    return vals[0], vals[1], fl


def parse_model_type(ln):
    """drv_c08 `type` answer -> dict"""
    if not ln.startswith("ok "):
        return {"status": ln.split()[0] if ln else "bad", "line": ln}
    p = [x.strip() for x in ln[3:].split("|")]
    if len(p) != 8:
        return {"status": "bad", "line": ln}
    qs, qa = map(int, p[1].split())
    cs, ca = map(int, p[3].split())
    return {"status": "ok", "q": p[0], "qinfo": (qs, qa, parse_flds(p[2])), "c": (cs, ca, parse_flds(p[4])),
            "cmerged": parse_flds(p[5]), "equiv": p[6] == "1", "flags": p[7].split()}


def find_real(defs, errs, tid):
    for name in defs:
        if name.startswith("T%d." % tid):
            return defs[name], None
    for name in errs:
        if name.startswith("T%d." % tid):
            return None, errs[name]
    return None, "no type definition emitted"


def known_fid(flags):
    for f in FLAG_PRIORITY:
        if f in flags:
            return FID[f]
    return None


def evaluate_type(real, rerr, model, clayout):
    """-> (kind, detail) with kind in ok | known | notok | diff | garbage;  model: parse_model_type"""
    if real is None:
        return "garbage", rerr
    rc = canon(real)
    qi = q_info(real)
    bad = ok_type(qi, clayout)
    if model["status"] != "ok" or rc != model["q"]:
        return "diff", {"real": rc, "model": model.get("q", model.get("line")), "not_ok": bad}
    if bad is None:
        return "ok", None
    fid = known_fid(model["flags"])
    if fid:
        return "known", {"fid": fid, "not_ok": bad, "real": rc, "flags": model["flags"]}
    return "notok", {"real": rc, "not_ok": bad, "flags": model["flags"]}


def type_batch(job):
    """job: dict(id, dir, cproc, drv, types=[(tid, t)], targets, oracles).  Runs in a worker process."""
    d = job["dir"]
    os.makedirs(d, exist_ok=True)
    types = job["types"]
    defs_src = PRELUDE + "".join(type_def(tid, t) for tid, t in types)
    pc = os.path.join(d, "t%d.c" % job["id"])
    open(pc, "w").write(defs_src + "".join(render_use(tid, t) for tid, t in types))
    lv = {}
    osrc = defs_src
    for tid, t in types:
        txt, ls = render_oracle(tid, t)
        lv[tid] = ls
        osrc += txt
    po = os.path.join(d, "o%d.c" % job["id"])
    open(po, "w").write(osrc)
    events, counts = [], {"types": len(types)}
    # model + spec
    lines = ["type %s %s" % (tg, drv_type(t)) for tid, t in types for tg in TARGETS]
    r = subprocess.run([job["drv"]], input="\n".join(lines) + "\n", stdout=subprocess.PIPE, stderr=subprocess.PIPE, text=True)
    dl = r.stdout.splitlines()
    if r.returncode != 0 or len(dl) != len(lines):
        return {"broken": "drv_c08 failed (%d lines for %d): %s" % (len(dl), len(lines), r.stderr[-300:])}
    model = {}
    k = 0
    for tid, t in types:
        for tg in TARGETS:
            model[(tid, tg)] = parse_model_type(dl[k])
            if model[(tid, tg)]["status"] == "bad":
                return {"broken": "drv_c08 cannot answer `%s`: %s" % (lines[k][:200], dl[k][:200])}
            k += 1
    # oracles
    oracle = {}
    if job["oracles"]:
        orc = [("gcc", "x86_64-sysv", ["gcc", "-w", "-S", "-o", "-"])]
        orc += [("clang", tg, ["clang", "-w", "--target=" + CLANG_TRIPLE[tg], "-S", "-o", "-"]) for tg in TARGETS]
        for cname, tg, cmd in orc:
            rc, out, err = run_tool(cmd, po)
            if rc != 0:
                events.append({"kind": "oracle-rejects", "compiler": cname, "target": tg, "stderr": err[-400:]})
                continue
            adefs = c06.parse_asm(out)
            for tid, t in types:
                ob = observe_oracle(adefs, tid, lv[tid], tg)
                if ob is None:
                    events.append({"kind": "oracle-unparsed", "compiler": cname, "target": tg, "tid": tid})
                    continue
                counts["oracle"] = counts.get("oracle", 0) + 1
                m = model[(tid, tg)]
                if m["status"] == "ok" and (ob[0], ob[1], ob[2]) != (m["c"][0], m["c"][1], m["c"][2]):
                    events.append({"kind": "spec-vs-oracle", "compiler": cname, "target": tg, "tid": tid,
                                   "oracle": ob, "spec": m["c"]})
                oracle.setdefault((tid, tg), ob)
                if cname == "clang":
                    oracle[(tid, tg)] = ob
    # cproc
    reals = {}
    for tg in job["targets"]:
        rc, out, err = run_tool([job["cproc"], "-t", tg], pc)
        if rc == 0:
            defs, errs = parse_types(out)
            for tid, t in types:
                reals[(tid, tg)] = find_real(defs, errs, tid)
        else:
            for tid, t in types:
                p1 = os.path.join(d, "t%d_%d.c" % (job["id"], tid))
                open(p1, "w").write(PRELUDE + type_def(tid, t) + render_use(tid, t))
                rc1, out1, err1 = run_tool([job["cproc"], "-t", tg], p1)
                if rc1 == 0:
                    defs, errs = parse_types(out1)
                    reals[(tid, tg)] = find_real(defs, errs, tid)
                else:
                    reals[(tid, tg)] = ("rejected", err1.strip()[-200:])
    # validate the Python layout of every real definition against Spec/QbeLayout
    qs = sorted({canon(v[0]) for v in reals.values() if v[0] not in (None, "rejected")})
    if qs:
        r = subprocess.run([job["drv"]], input="".join("qinfo %s\n" % q for q in qs), stdout=subprocess.PIPE,
                           stderr=subprocess.PIPE, text=True)
        ql = r.stdout.splitlines()
        if r.returncode != 0 or len(ql) != len(qs):
            return {"broken": "drv_c08 qinfo failed: " + r.stderr[-300:]}
        drvq = dict(zip(qs, ql))
    for tid, t in types:
        for tg in job["targets"]:
            real, rerr = reals[(tid, tg)]
            m = model[(tid, tg)]
            counts["evaluations"] = counts.get("evaluations", 0) + 1
            if real == "rejected":
                if m["status"] == "ok":
                    events.append({"kind": "rejected", "tid": tid, "target": tg, "stderr": rerr})
                else:
                    counts["both-reject"] = counts.get("both-reject", 0) + 1
                continue
            if m["status"] != "ok":
                events.append({"kind": "diff", "tid": tid, "target": tg,
                               "detail": {"real": canon(real) if real else rerr, "model": m["line"], "not_ok": None}})
                continue
            if real is not None:
                a = drvq[canon(real)].split("|")
                sz, al = map(int, a[0].split())
                if (sz, al, parse_flds(a[1])) != q_info(real):
                    return {"broken": "Python QBE layout %s differs from Spec/QbeLayout `%s` on %s"
                            % (q_info(real), drvq[canon(real)], canon(real))}
            cl = oracle.get((tid, tg), m["c"])
            kind, det = evaluate_type(real, rerr, m, cl)
            counts[kind] = counts.get(kind, 0) + 1
            if kind != "ok":
                events.append({"kind": kind, "tid": tid, "target": tg, "detail": det, "c": cl})
            for f in m["flags"]:
                counts["flag:" + f] = counts.get("flag:" + f, 0) + 1
    flags = {tid: sorted(set(sum((model[(tid, tg)].get("flags", []) for tg in TARGETS), []))) for tid, t in types}
    sizes = {tid: model[(tid, TARGETS[0])]["c"][0] for tid, t in types if model[(tid, TARGETS[0])]["status"] == "ok"}
    return {"events": events, "counts": counts, "flags": flags, "sizes": sizes}

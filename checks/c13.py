"""C13 - source text is split into tokens by C11 6.4 maximal munch.

Proof:   lean/CprocVerif/Props/C13.lean over Model/Scan.lean (scan.c + pp.c:keyword) and Spec/Lex.lean
         (6.4 written from the standard): longest punctuator, longest identifier, longest pp-number,
         prefix binds to the quote, literals are 6.4.4.4/6.4.5 literals, comments/blanks only set the
         space flag, tokenisation is a function of the phase-2 text (splices neither join nor split),
         progress/termination, keyword table sorted => bisection = dictionary = C11+C23+GNU keyword
         set, tokstr[] round trip.
Tie:     K-A  harness/scan_h.c (all of /repo except main.c, one forked child per input, ASan+UBSan)
              vs the model driver drv_c13 on: every string of length <= 3 (thorough: <= 4) over the
              punctuator alphabet + {a 1 . e + space newline backslash " ' L u 8}, a seeded sample of
              length 4, every keyword spelling and its one-character perturbations through next(),
              numeric literals of every form, random long token sequences with comments of both
              kinds and a backslash-newline inserted at every position.
         ok   on the code's own output: (1) the lexemes, with blanks/comments skipped exactly where
              the space flag says, reproduce the phase-2 text; (2) the token stream equals the
              reference lexer of Spec/Lex.lean (longest match per class); (3) texts with equal
              phase-2 form give equal kinds/lexemes/space flags; (4) pp mode: a word is a keyword
              iff the reference dictionary says so.
Spec validation: Spec/Lex.lean against `clang -cc1 -dump-raw-tokens` on a sample (can only mark
         the check broken).
"""
import importlib.util
import itertools
import os
import re
import subprocess

from . import common, lexgen
from .common import CompileError
from .lexgen import hx, unsplice, parse_line

ASAN_ENV = dict(os.environ, ASAN_OPTIONS="detect_leaks=0", UBSAN_OPTIONS="print_stacktrace=1")


def load_tables():
    p = os.path.join(common.VERIF, "tools", "gen_c13.py")
    spec = importlib.util.spec_from_file_location("gen_c13", p)
    mod = importlib.util.module_from_spec(spec)
    spec.loader.exec_module(mod)
    kinds = mod.table_tokenkinds(common.REPO)
    tokstr = mod.table_tokstr(common.REPO, kinds)
    kws = mod.table_keywords(common.REPO, kinds)
    return kinds, tokstr, kws


class Ctx:
    pass


# ----------------------------------------------------------------------------- ok predicates
def reconstruct_ok(X, text, run):
    """(1) Walk the phase-2 text along the code's own tokens: before each token skip blanks and
    comments; the text must continue with the token's spelling; the space flag must say whether
    anything was skipped.  Returns None or a reason."""
    u = unsplice(text)
    i, n = 0, len(u)
    for t in run.toks:
        skipped = False
        while i < n:
            c = u[i]
            if c in b" \t\f\v":
                i += 1
                skipped = True
            elif u.startswith(b"/*", i):
                j = u.find(b"*/", i + 2)
                if j < 0:
                    return "token delivered from inside an unterminated comment at %d" % i
                i = j + 2
                skipped = True
            elif u.startswith(b"//", i):
                j = u.find(b"\n", i)
                i = n if j < 0 else j
                skipped = True
            else:
                break
        name = X.kname[t.kind]
        if name == "TEOF":
            if i != n:
                return "TEOF delivered at offset %d of %d" % (i, n)
            sp = b""
        elif name == "TNEWLINE":
            sp = b"\n"
        elif name in ("TIDENT", "TNUMBER", "TCHARCONST", "TSTRINGLIT", "TOTHER"):
            if t.lit is None:
                return "%s without lexeme" % name
            sp = t.lit
        else:
            sp = X.spell.get(name)
            if sp is None:
                return "token kind %s has no spelling" % name
            if t.lit is not None:
                return "punctuator/keyword %s carries a lexeme" % name
        if not u.startswith(sp, i):
            return "text at offset %d does not continue with the lexeme %r of %s" % (i, sp, name)
        i += len(sp)
        if t.space != skipped:
            return "space flag of %s %r is %d but %s was skipped before it" % (
                name, sp, t.space, "something" if skipped else "nothing")
    return None


SPEC_CLASS = {"TIDENT": "ident", "TNUMBER": "number", "TCHARCONST": "charconst", "TSTRINGLIT": "stringlit",
              "TOTHER": "other", "TNEWLINE": "newline"}


def parse_spec(line):
    toks, err = [], None
    for w in line.split(" "):
        if not w:
            continue
        if w.startswith("!"):
            err = w[1:]
        else:
            c, h, s = w.split(":")
            toks.append((c, bytes.fromhex(h), s == "1"))
    return toks, err


def spec_ok(X, run, specline):
    """(2) the code's tokens against the reference lexer (class, lexeme, space flag)."""
    stoks, serr = parse_spec(specline)
    mine = []
    for t in run.toks:
        name = X.kname[t.kind]
        if name == "TEOF":
            continue
        if name in SPEC_CLASS:
            mine.append((SPEC_CLASS[name], b"\n" if name == "TNEWLINE" else t.lit, t.space))
        else:
            mine.append(("punct", X.spell.get(name), t.space))
    if run.end is None:
        if serr is not None:
            return "the reference finds no tokenisation (%s) but the scanner accepted the text" % serr
        if mine != stoks:
            for k, (a, b) in enumerate(zip(mine, stoks)):
                if a != b:
                    return "token %d: scanner %r, reference (longest match) %r" % (k, a, b)
            return "token count: scanner %d, reference %d" % (len(mine), len(stoks))
        return None
    if run.end[0] == "err":
        if serr is None:
            return "scanner diagnoses (%s) a text the reference tokenises" % (run.end[4],)
        # tokens delivered before the diagnostic must be a prefix of what the reference delivered
        k = min(len(mine), len(stoks))
        if mine[:k] != stoks[:k]:
            return "tokens before the diagnostic differ from the reference"
        return None
    return "scanner crashed: %s" % (run.end,)


# ----------------------------------------------------------------------------- comparison
def same(a, b):
    """observational equality of a harness run and a model run"""
    if len(a.toks) != len(b.toks):
        return False
    for x, y in zip(a.toks, b.toks):
        if x.lockey() != y.lockey():
            return False
    if (a.end is None) != (b.end is None):
        return False
    if a.end is not None:
        if a.end[0] != b.end[0]:
            return False
        if a.end[0] == "err" and a.end[1:] != b.end[1:]:
            return False
    return True


def shrink(X, mode, text, bad):
    """delta debugging on bytes; `bad(text) -> bool` re-runs both sides."""
    cur = text
    chunk = max(1, len(cur) // 2)
    steps = 0
    while chunk >= 1 and steps < 120 and len(cur) > 1:
        i = 0
        progressed = False
        while i < len(cur) and steps < 120:
            cand = cur[:i] + cur[i + chunk:]
            steps += 1
            if cand and bad(cand):
                cur = cand
                progressed = True
            else:
                i += chunk
        if not progressed:
            chunk //= 2
    return cur


def run_both(X, lines):
    hout = lexgen.run_sharded([X.harness], lines, env=ASAN_ENV)
    mout = lexgen.run_sharded([X.ck.drv_path()], lines) if X.ck.drv_ok else None
    return hout, mout


def examine(X, mode, texts, label, use_plain=False):
    """Run `texts` (bytes) through harness and model in `mode`, compare, evaluate ok on the
    code's output.  Returns the parsed harness runs."""
    ck = X.ck
    lines = ["%s %s" % (mode, hx(t)) for t in texts]
    hbin = X.harness_plain if use_plain else X.harness
    hout = lexgen.run_sharded([hbin], lines, env=ASAN_ENV)
    mout = lexgen.run_sharded([ck.drv_path()], lines) if ck.drv_ok else None
    sout = lexgen.run_sharded([ck.drv_path()], ["spec %s" % hx(t) for t in texts]) if (ck.drv_ok and mode == "raw") else None
    runs = []
    for i, t in enumerate(texts):
        h = parse_line(hout[i])
        runs.append(h)
        ck.count()
        X.ninputs[label] = X.ninputs.get(label, 0) + 1
        for tk in h.toks:
            X.hist[tk.kind] = X.hist.get(tk.kind, 0) + 1
        if h.end is not None:
            key = h.end[4] if h.end[0] == "err" else "crash"
            X.errs[key] = X.errs.get(key, 0) + 1
        if h.end is not None and h.end[0] == "crash":
            ck.violation({"kind": "crash", "mode": mode, "input_hex": hx(t), "input": repr(t), "status": h.end[1],
                          "what": "the scanner harness died (sanitizer report or signal) on this input"})
            continue
        if len(X.ck.violations) >= 5:
            continue
        why = None
        if mode == "raw":
            why = reconstruct_ok(X, t, h)
            if why is None and sout is not None:
                why = spec_ok(X, h, sout[i])
        if why is not None:
            fid = X.classify(t, h, why)
            small = t
            if fid is None and len(t) > 6:
                def bad(c):
                    hh = parse_line(lexgen.run_sharded([X.harness], ["raw " + hx(c)], env=ASAN_ENV, shards=1)[0])
                    ss = lexgen.run_sharded([ck.drv_path()], ["spec " + hx(c)], shards=1)[0] if ck.drv_ok else None
                    return (reconstruct_ok(X, c, hh) or (ss is not None and spec_ok(X, hh, ss))) is not None
                small = shrink(X, mode, t, bad)
                if small != t:
                    hh = parse_line(lexgen.run_sharded([X.harness], ["raw " + hx(small)], env=ASAN_ENV, shards=1)[0])
                    ss = lexgen.run_sharded([ck.drv_path()], ["spec " + hx(small)], shards=1)[0] if ck.drv_ok else None
                    why = reconstruct_ok(X, small, hh) or (spec_ok(X, hh, ss) if ss is not None else why) or why
            ck.report({"kind": "ok-predicate", "mode": mode, "input_hex": hx(small), "input": repr(small),
                       "original_input_hex": hx(t), "why": why, "impl": hout[i][:600],
                       "reference": (sout[i][:600] if sout else None), "set": label,
                       "what": "the token stream of the real scanner is not the C11 6.4 tokenisation"}, fid=fid)
            continue
        if mout is not None:
            m = parse_line(mout[i])
            if not same(h, m):
                onlyloc = [x.key() for x in h.toks] == [y.key() for y in m.toks] and \
                    (h.errkind() == m.errkind())
                ck.violation({"kind": "correspondence", "mode": mode, "input_hex": hx(t), "input": repr(t),
                              "impl": hout[i][:600], "model": mout[i][:600], "set": label,
                              "only_locations_differ": onlyloc,
                              "what": "scan.c and Model/Scan.lean disagree although the implementation's token "
                                      "stream satisfies the 6.4 predicate" + (" (locations only: property C11)" if onlyloc else ""),
                              "theorem": "CprocVerif.C13.* are about Model/Scan.lean, which no longer describes scan.c"},
                             nofail=True)
    return runs


# ----------------------------------------------------------------------------- generators
def exhaustive(X):
    ck = X.ck
    al = lexgen.ALPHABET
    texts = [b""]
    maxlen = 3
    for n in range(1, maxlen + 1):
        texts.extend(bytes(t) for t in itertools.product(al, repeat=n))
    examine(X, "raw", texts, "exhaustive<=3")
    # length 4
    if ck.quick:
        N = 150000
        sample = [bytes(ck.rng.choice(al) for _ in range(4)) for _ in range(N)]
        examine(X, "raw", sample, "sample-len4", use_plain=True)
        examine(X, "raw", sample[:12000], "sample-len4-asan")
    else:
        allfour = [bytes(t) for t in itertools.product(al, repeat=4)]
        # complete enumeration on the plain build (0.3 ms per forked child), a large sample under ASan
        for k in range(0, len(allfour), 200000):
            examine(X, "raw", allfour[k:k + 200000], "exhaustive-len4", use_plain=True)
            if ck.violations:
                return
        examine(X, "raw", ck.rng.sample(allfour, 250000), "sample-len4-asan")


def keyword_words(X):
    rng = X.ck.rng
    words = set()
    for w, _ in X.kws:
        b = w.encode()
        words.add(b)
        for i in range(len(b)):
            words.add(b[:i] + b[i + 1:])                                   # delete
            for c in b"a_0AZ8":
                words.add(b[:i] + bytes([c]) + b[i:])                      # insert
            for c in (ord("x"), ord("_"), ord("0"), b[i] ^ 0x20):
                words.add(b[:i] + bytes([c]) + b[i + 1:])                  # substitute / case
        for c in b"a_0AZ8":
            words.add(b + bytes([c]))
        words.add(b.upper())
        words.add(b.lower())
        words.add(b.capitalize())
        words.add(b + b"_")
        words.add(b"_" + b)
        words.add(b"__" + b + b"__")
        words.add(b"__" + b)
    words.discard(b"")
    # every tokstr[] spelling must come back as its own kind
    for k, s in X.tokstr:
        if not s.startswith("#"):          # `#` first on a line is a directive: raw mode covers # and ##
            words.add(s.encode())
    return sorted(words)


def keywords_check(X):
    ck = X.ck
    words = keyword_words(X)
    texts = words
    lines = ["pp %s" % hx(t) for t in texts]
    hout = lexgen.run_sharded([X.harness], lines, env=ASAN_ENV)
    mout = lexgen.run_sharded([ck.drv_path()], lines) if ck.drv_ok else None
    kwout = lexgen.run_sharded([ck.drv_path()], ["kw %s" % hx(t) for t in texts]) if ck.drv_ok else None
    ident = re.compile(rb"^[A-Za-z_][A-Za-z0-9_]*$")
    for i, w in enumerate(texts):
        h = parse_line(hout[i])
        ck.count(("kw", w))
        X.ninputs["keywords"] = X.ninputs.get("keywords", 0) + 1
        if len(ck.violations) >= 5:
            break
        why = None
        if ident.match(w):
            # the reference dictionary (Spec.keywordOf through the driver; falls back to nothing)
            want = None
            if kwout is not None:
                want = None if kwout[i] == "-" else int(kwout[i])
            names = [X.kname[t.kind] for t in h.toks]
            if h.end is not None or len(h.toks) != 2 or names[1] != "TEOF":
                why = "an identifier-shaped word did not come out as one token: %s" % hout[i][:200]
            elif kwout is not None:
                t = h.toks[0]
                if want is None and not (names[0] == "TIDENT" and t.lit == w):
                    why = "%r is no keyword but came out as %s" % (w, names[0])
                elif want is not None and not (t.kind == want and t.lit is None):
                    why = "%r is the keyword %s but came out as %s" % (w, X.kname[want], names[0])
            X.kwstat["keyword" if (want is not None) else "identifier"] += 1
        if why is not None:
            ck.violation({"kind": "keyword", "input": w.decode("latin-1"), "input_hex": hx(w), "why": why,
                          "program": "int %s;" % w.decode("latin-1"),
                          "what": "a keyword spelling is not recognised as that keyword, or a non-keyword is"})
            continue
        if mout is not None:
            m = parse_line(mout[i])
            if not same(h, m):
                ck.violation({"kind": "correspondence", "mode": "pp", "input": w.decode("latin-1"),
                              "impl": hout[i][:300], "model": mout[i][:300],
                              "theorem": "CprocVerif.C13.keyword_correct / bsearch_correct (model of pp.c:keyword)"},
                             nofail=True)


def numeric_check(X):
    forms = lexgen.numeric_forms(X.ck.rng, X.ck.quick)
    examine(X, "raw", forms, "numeric")
    X.ck.sample({"numeric forms": [f.decode("latin-1") for f in forms[:: max(1, len(forms) // 12)]][:12]})


def random_check(X):
    ck = X.ck
    rng = ck.rng
    kwl = [w.encode() for w, _ in X.kws]
    nbase = 160 if ck.quick else 1200
    bases = []
    for i in range(nbase):
        ntok = rng.choice([1, 2, 3, 5, 8, 13, 30, 80])
        bases.append(lexgen.random_text(rng, ntok, kwl))
    for fixed in (b"a+++b", b"a---b", b"x<<=1", b"x>>=y", b"...", b"..", b"a...b", b"1e+5-1", b"0xe+1", b"u8'a'",
                  b"u8 'a'", b"u8x\"s\"", b"L'a'L\"s\"", b"a/**/b", b"a/*\n*/b", b"+/**/+", b"-/**/>", b"/ /x",
                  b"/\\\n/x\ny", b"/\\\n*x*\\\n/y", b"#\\\n#", b"<\\\n<\\\n=", b".\\\n.\\\n.", b".\\\n.\\\nx", b"..\nx",
                  b"'\\\n'", b"\"a\\\nb\"", b"1\\\n2e\\\n+3", b"ab\\\ncd", b"\\\\\n\n", b"\\\n", b"a\\\n", b"a\\", b"%:", b"<:",
                  b"??=", b"\r\n", b"a\x00b", b"'\x00'", b"\"\x00\"", b"/*\x00*/x", b"//\x00\nx"):
        bases.append(fixed)
    runs = examine(X, "raw", bases, "random-base")
    if ck.violations:
        return
    ck.sample({"random text": bases[7][:120].decode("latin-1")})
    # splices at every position; metamorphic check on the code's own outputs
    variants, owner = [], []
    for bi, b in enumerate(bases):
        for v, ps in lexgen.splice_variants(b, rng, every_limit=40 if ck.quick else 90, extra=3 if ck.quick else 8):
            variants.append(v)
            owner.append((bi, ps))
    vruns = examine(X, "raw", variants, "splice-variants")
    if ck.violations:
        return
    for (bi, ps), v, vr in zip(owner, variants, vruns):
        for p in ps:
            X.splicepos[min(p, 99)] = X.splicepos.get(min(p, 99), 0) + 1
        b = bases[bi]
        if unsplice(v) != unsplice(b):
            X.ninputs["splice-changes-phase2"] = X.ninputs.get("splice-changes-phase2", 0) + 1
            continue
        br = runs[bi]
        if [t.key() for t in vr.toks] != [t.key() for t in br.toks] or vr.errkind() != br.errkind():
            ck.violation({"kind": "splice", "base_hex": hx(b), "variant_hex": hx(v), "base": repr(b), "variant": repr(v),
                          "splice_positions": list(ps), "base_tokens": br.raw[:500], "variant_tokens": vr.raw[:500],
                          "what": "a backslash-newline pair joined or split tokens: two texts with the same phase-2 "
                                  "form are tokenised differently"})
            return


# ----------------------------------------------------------------------------- spec validation (clang)
CLANG_PUNCT = None
_CL = re.compile(r"(?s)(\w+) '(.*?)'\t(?: \[[^\n]*?\])*\t?Loc=<[^>\n]*?t\d+\.c:(\d+):(\d+)>\n")


def clang_tokens(path):
    r = subprocess.run(["clang", "-cc1", "-x", "c", "-std=c2x", "-dump-raw-tokens", path], stdout=subprocess.PIPE,
                       stderr=subprocess.PIPE)
    text = r.stderr.decode("latin-1")
    return [(m.group(1), m.group(2).encode("latin-1")) for m in _CL.finditer(text)]


def validate_spec(X, texts):
    """Spec/Lex.lean vs clang's raw lexer on texts both can be expected to read alike.
    Disagreement => Broken (the reference itself is suspect), never a violation."""
    ck = X.ck
    if not ck.drv_ok:
        return
    from shutil import which
    if not which("clang"):
        ck.notes.append("clang not found: Spec validation skipped")
        return
    d = os.path.join(ck.scratch(), "clang")
    os.makedirs(d, exist_ok=True)
    good = []
    for t in texts:
        if re.search(rb"<:|:>|<%|%>|%:|\?\?|\$|\\|[\x00-\x08\x0d-\x1f\x7f-\xff]|[0-9A-Za-z_.]'|''", t):
            continue      # digraphs, trigraphs, $, UCN/backslash, raw control bytes, C23 digit separators,
            #               the empty character constant (Spec leaves emptiness to the parser: C14)
        good.append(t)
    good = good[:1500 if ck.quick else 6000]
    sout = lexgen.run_sharded([ck.drv_path()], ["spec %s" % hx(t) for t in good])
    n = 0
    import concurrent.futures
    paths = []
    for k, t in enumerate(good):
        p = os.path.join(d, "t%d.c" % k)
        open(p, "wb").write(t)
        paths.append(p)
    with concurrent.futures.ThreadPoolExecutor(common.NPROC) as ex:
        cts = list(ex.map(clang_tokens, paths))
    for t, sl, ct in zip(good, sout, cts):
        stoks, serr = parse_spec(sl)
        if serr is not None:
            continue
        ref = []
        pending = False
        bad = False
        for kind, sp in ct:
            if kind == "unknown" and sp.strip(b" \t\f\v\n") == b"":
                for ch in sp:
                    if ch == 0x0a:
                        ref.append(("newline", b"\n", pending))
                        pending = False
                    else:
                        pending = True
                continue
            if kind == "comment":
                pending = True
                continue
            if kind == "raw_identifier":
                c = "ident"
            elif kind == "numeric_constant":
                c = "number"
            elif kind.endswith("char_constant"):
                c = "charconst"
            elif kind.endswith("string_literal"):
                c = "stringlit"
            elif kind == "unknown":
                c = "other"
                if sp in (b"'", b'"'):
                    bad = True
            elif kind == "eof":
                continue
            else:
                c = "punct"
            ref.append((c, sp, pending))
            pending = False
        if bad:
            continue
        n += 1
        if ref != stoks:
            raise common.Broken("Spec/Lex.lean disagrees with clang -dump-raw-tokens on %r: spec %r clang %r"
                                % (t, stoks[:12], ref[:12]))
    X.ck.cov["spec_validated_against_clang"] = n


# ----------------------------------------------------------------------------- main
def classify(text, run, why):
    """Map a failing input to a recorded known finding id (None = not a known class)."""
    return None


def run(ck):
    ck.cov["rule"] = ("K-A raw scan() stream of the real scanner (one forked child per input, ASan+UBSan) vs "
                      "Model/Scan.lean vs Spec/Lex.lean: every string of length <= 3 over a 36-character alphabet "
                      "(all punctuator characters + a 1 . e + space newline backslash \" ' L u 8), %s, every "
                      "keyword/tokstr spelling and its one-character perturbations through next(), numeric "
                      "literals of every form, random token sequences with comments of both kinds and a "
                      "backslash-newline at every position (metamorphic on the code's own outputs). "
                      "distinct_nontrivial = distinct input texts." %
                      ("a 150 k sample of length 4" if ck.quick else "every string of length 4 (1.68 M)"))
    X = Ctx()
    X.ck = ck
    X.hist, X.errs, X.ninputs, X.splicepos = {}, {}, {}, {}
    X.kwstat = {"keyword": 0, "identifier": 0}
    X.classify = classify
    try:
        X.kinds, X.tokstr, X.kws = load_tables()
    except Exception as e:  # noqa
        ck.violation({"kind": "correspondence-broken", "what": "the token tables can no longer be extracted from "
                      "cc.h/token.c/pp.c: %s" % e}, nofail=True)
        return
    X.kname = {v: k for k, v in X.kinds}
    X.spell = {k: s.encode() for k, s in X.tokstr}
    ck.lean_build()
    if getattr(ck, "gen_error", None):
        ck.violation({"kind": "correspondence-broken", "what": ck.gen_error}, nofail=True)
        return
    if not ck.proofs_ok:
        ck.notes.append("Props.C13 does not build; searching for a failing input")
    try:
        X.harness = ck.build_harness("scan_h.c", common.REPO_UNITS)
        X.harness_plain = ck.build_harness("scan_h.c", common.REPO_UNITS, sanitize=False, name="scan_h_plain")
    except CompileError as e:
        ck.harness_broken("scan_h.c", e)
        return
    # corpus first
    cdir = os.path.join(common.VERIF, "corpus", "C13")
    corpus = []
    if os.path.isdir(cdir):
        for f in sorted(os.listdir(cdir)):
            corpus.append(open(os.path.join(cdir, f), "rb").read())
    if corpus:
        examine(X, "raw", corpus, "corpus")
    steps = [keywords_check, numeric_check, random_check, exhaustive]
    import time
    for st in steps:
        if ck.violations:
            break
        t0 = time.time()
        st(X)
        X.ninputs["seconds:" + st.__name__] = round(time.time() - t0, 1)
    if not ck.violations:
        kwl = [w.encode() for w, _ in X.kws]
        vt = [lexgen.random_text(ck.rng, ck.rng.choice([1, 2, 4, 9, 25]), kwl) for _ in range(2500 if ck.quick else 9000)]
        vt += lexgen.numeric_forms(ck.rng, True)[:800]
        vt += [bytes(t) for t in itertools.product(lexgen.ALPHABET, repeat=2)]
        t0 = time.time()
        validate_spec(X, vt)
        X.ninputs["seconds:validate_spec"] = round(time.time() - t0, 1)
    ck.cov["token_kind_histogram"] = {X.kname.get(k, str(k)): v for k, v in sorted(X.hist.items(), key=lambda kv: -kv[1])}
    ck.cov["error_kinds"] = X.errs
    ck.cov["inputs_per_set"] = X.ninputs
    ck.cov["splice_positions"] = {str(k): v for k, v in sorted(X.splicepos.items())}
    ck.cov["keyword_words"] = X.kwstat
    ck.cov["distinct_nontrivial"] = ck.cov["evaluations"]
    if not ck.proofs_ok and not ck.violations:
        ck.violation({"kind": "proof-broken", "theorem": "CprocVerif.Props.C13 (lake build failed)",
                      "log": ck.build_log[-3000:]}, nofail=True)
    ck.assumptions = ["<ctype.h> isalnum/isalpha/isdigit/isxdigit in the C locale classify bytes as the model's "
                      "character classes do (exercised for all 256 bytes by the length-1 inputs only where a "
                      "byte is in the test alphabet; bytes >= 0x80 by the random texts)",
                      "getc/ungetc on a FILE deliver the bytes of the file; two pushed-back characters are "
                      "returned in LIFO order (glibc)",
                      "next() adds nothing but keyword() to identifiers of a text without directives and macros"]


META = {
    "category": "proof",
    "text": ("Lean 4 theorems about a transliteration of scan.c and pp.c:keyword, for every input text (no length "
             "bound): the punctuator decision trees return the longest 6.4.6 punctuator, identifiers and "
             "preprocessing numbers are the longest prefix in their 6.4.2/6.4.8 grammar, an encoding prefix "
             "binds to an adjacent quote and accepted literals are 6.4.4.4/6.4.5 literals, blanks and both comment "
             "forms only set the space flag, kinds/lexemes/space flags are a function of the text after the "
             "single-pass removal of backslash-newline (so splices neither join nor split tokens), every scan "
             "consumes input (termination), the keyword table is sorted so the bisection is a dictionary lookup, "
             "that dictionary is exactly C11+C23+GNU keywords, and tokstr[] round-trips. Tied to /repo on every "
             "run by dumping the real scanner's token stream (all of /repo linked, one child per input, "
             "ASan+UBSan) on every string of length <= 3 (thorough: <= 4) over the punctuator alphabet, all "
             "keyword spellings and perturbations, numeric forms, and random texts with splices at every "
             "position, compared with the model and with the 6.4 reference lexer."),
    "design_ref": "DESIGN.md section 4, C13",
    "note": ("Trusted: Lean kernel + propext/Classical.choice/Quot.sound; the hand-written model (tied by the "
             "differential run: exhaustive on short strings over a 36-character alphabet, sampling beyond); the "
             "reading of 6.4 in Spec/Lex.lean (cross-checked against clang's raw lexer on a sample); libc ctype "
             "and stdio. Non-goals stated in Spec/Lex.lean: digraphs, UCNs/extended characters in identifiers, "
             "header names, C23 digit separators. Completeness of literal scanning (every grammatical literal is "
             "accepted) is tested, not proved; soundness is proved."),
    "technique": "Lean 4 proof (case analysis of the decision trees, loop invariants, a non-interference argument for "
                 "splices, decide on the generated tables) + exhaustive/random differential correspondence",
}

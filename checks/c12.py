"""C12 - macro definition and expansion follow C11 6.10.3 on the implemented subset.

Proof:   lean/CprocVerif/Props/C12.lean over Model/PP.lean (transliteration of pp.c: define, undef,
         macroequal, the context stack, expand, expandfunc, stringize, peekparen, next, directive)
         and Spec/MacroRef.lean (6.10.3 written from the standard as Prosser's hide-set algorithm).
Tie:     K-A  harness/pp_h.c (= scan_h.c + CPU/memory limits in the child; `pp`/`ppnl`: the real next() stream, one forked child per input,
              ASan+UBSan) vs the model driver drv_c12 vs the reference, on generated macro sets
              inside free token sequences and inside valid C programs;
         ok   on the code's own output: it equals the reference (token kinds and spellings, or the
              class of the diagnostic);
         K-B  IL(P) = IL(gcc -E -P P) byte for byte for generated valid programs, compiled by the
              freshly built cproc-qbe.
Spec validation: the reference against `gcc -E -P -std=c11 -pedantic-errors` and `clang -E -P`,
         output re-lexed by the scanner model (can only mark the check broken).
"""
import concurrent.futures
import os
import re
import subprocess

from . import common, lexgen
from .common import CompileError
from .lexgen import hx

ASAN_ENV = dict(os.environ, ASAN_OPTIONS="detect_leaks=0", UBSAN_OPTIONS="print_stacktrace=1")

# ----------------------------------------------------------------------------- results of one run
MSGCLASS = [
    (r"after #define", "defineName"), (r"after '\.\.\.'", "paramAfterEllipsis"),
    (r"or '\)' after macro parameter", "paramComma"), (r"of macro parameter name or", "paramName"),
    (r"duplicate macro parameter", "dupParam"),
    (r"'##' operator is not yet implemented", "hashhash"), (r"__VA_ARGS__ can only be used", "vaArgs"),
    (r"after '#' operator", "hashIdent"), (r"is not a macro parameter name", "hashNotParam"),
    (r"redefinition of macro", "redefinition"), (r"after #undef", "undefName"),
    (r"newline, or number after '#'", "dirName"), (r"#(\w+) directive is not implemented", "dirUnimpl"),
    (r"invalid preprocessor directive", "dirInvalid"), (r"after #line", "lineNumber"),
    (r"after preprocessing directive", "dirTrailing"), (r"EOF when reading macro parameters", "eofInArgs"),
    (r"not enough arguments for macro", "notEnoughArgs"), (r"too many arguments for macro", "tooManyArgs"),
]
COARSE = {
    "defineName": "define", "paramAfterEllipsis": "define", "paramComma": "define", "paramName": "define",
    "hashhash": "define", "vaArgs": "define", "hashIdent": "define", "hashNotParam": "define",
    "badDefine": "define", "dupParam": "define", "hashParam": "define",
    "redefinition": "redefinition", "redefinitionSpace": "redefinition",
    "undefName": "undef", "badUndef": "undef",
    "dirName": "directive", "dirUnimpl": "directive", "dirInvalid": "directive", "lineNumber": "directive",
    "badDirective": "directive", "unsupported": "directive", "badLine": "directive",
    "dirTrailing": "trailing", "trailing": "trailing",
    # an invocation that is both unterminated and has too many arguments: which one is named is not prescribed
    "eofInArgs": "invocation", "unterminated": "invocation",
    "notEnoughArgs": "invocation", "tooManyArgs": "invocation", "argCount": "invocation",
    "scan": "lex", "lex": "lex", "fuel": "fuel", "assertFail": "assert",
}


class Res:
    """tokens [(kind, lit bytes|None, space)], err (class name | None), crash (status | None), notes (events/flags)"""
    __slots__ = ("toks", "err", "crash", "notes", "raw", "cls")

    def keys(self, X):
        return [(k, l) for k, l, _ in self.toks if k not in (X.TEOF, X.TNEWLINE)]

    def full(self):
        return self.toks

    def coarse(self):
        if self.crash is not None:
            return "crash"
        return None if self.err is None else COARSE.get(self.err.split(".")[0], self.err)


def parse_real(line):
    if " !!" in line or line.startswith("!!"):
        # the child died: what it had printed may end in the middle of a token (stdio flushes by blocks)
        ws = line.split(" ")
        line = " ".join(w for w in ws if w.startswith("!") or (w.count(":") == 4 and re.match(r"^\d+:[0-9a-f-]*:[^:]*:\d+\.\d+:[01]$", w)))
    r = lexgen.parse_line(line)
    o = Res()
    o.raw = line
    o.toks = [(t.kind, t.lit, t.space) for t in r.toks]
    o.err, o.crash, o.notes = None, None, set()
    if r.end is not None:
        if r.end[0] == "crash":
            o.crash = r.end[1]
        else:
            msg = r.end[4]
            o.err = "scan" if msg in lexgen.MSG.values() else None
            if o.err is None:
                for pat, cls in MSGCLASS:
                    m = re.search(pat, msg)
                    if m:
                        o.err = cls + ("." + m.group(1).encode().hex() if cls == "dirUnimpl" else "")
                        break
                else:
                    o.err = "other:" + msg
    return o


def parse_drv(line):
    o = Res()
    o.raw = line
    o.toks, o.err, o.crash, o.notes, o.cls = [], None, None, set(), None
    for w in line.split(" "):
        if not w:
            continue
        if w[0] == "!":
            o.err = w[1:]
        elif w[0] == "%":
            o.cls = w[1:]
        elif w[0] == "@":
            o.notes = set(w[1:].split(","))
        else:
            p = w.split(":")
            if len(p) != 3:
                raise common.Broken("unparsable driver token %r" % w[:60])
            o.toks.append((int(p[0]), None if p[1] == "-" else bytes.fromhex(p[1]), p[2] == "1"))
    return o


def show(X, toks, limit=60):
    out = []
    for k, l, s in toks[:limit]:
        sp = "_" if s else ""
        out.append(sp + (l.decode("latin-1") if l is not None else X.spell.get(X.kname.get(k, "?"), X.kname.get(k, str(k)))))
    return " ".join(out) + (" ..." if len(toks) > limit else "")


# ----------------------------------------------------------------------------- generator
OBJ = ["A", "B", "C", "D", "E", "X", "Y", "Z"]
FUN = ["f", "g", "h", "p", "q", "r"]
PARAMS = ["a", "b", "c", "d"]
PLAIN = ["x", "y", "n1", "int", "return", "v"]
NUMS = ["0", "1", "42", "0x1F", "1.5e+3", "7u"]
PUNCT = ["+", "-", "*", "/", "<", "==", "&&", "!", "~", "?", ":", ";", "[", "]", "{", "}", "=", "+=", "->", ".",
         "<<", "%", "|", "^"]
STRS = ['"s"', '"a b"', '"q\\"r"', '"b\\\\s"', "'c'", "'\\''", "'\\\\'", '"\\n"', 'L"w"', '""']


class Cfg:
    """what the generator may produce; the main stream stays away from the recorded known-finding classes"""

    def __init__(self, **kw):
        self.unbalanced = False      # unbalanced parentheses in replacement lists (depth-count-confusion)
        self.str_and_tok = False     # a parameter used both plainly and with '#' (stringize-nested-call)
        self.errors = 0.0            # probability of a wrong argument count per invocation
        self.heavy = 1.0             # scale of nesting
        self.obj_only = False        # object-like macros only (the class of CprocVerif.C12.object_like_correct_total)
        self.__dict__.update(kw)


class Names(list):
    sig = None


def sp(rng):
    return rng.choice(["", " ", " ", "  ", "\t", " /*c*/ "])


def needs_space(left, t):
    a, b = left[-1], t[0]
    if (a.isalnum() or a in "_.") and (b.isalnum() or b in "_.'\""):
        return True
    if a in "+-*/<>=!&|^%.:#" and b in "+-*/<>=!&|^%.:#":
        return True
    if a in "LuU8" and b in "'\"":
        return True
    return False


def join(rng, toks, nl=False):
    out = ""
    for t in toks:
        s = sp(rng)
        if nl and rng.random() < 0.08:
            s = rng.choice(["\n", " \n ", "\n\n"])
        if out and s == "" and needs_space(out, t):
            s = " "
        out += s + t
    return out


def nargs_for(rng, cfg, sig, nm):
    if nm not in sig or rng.random() < cfg.errors:
        return rng.randint(0, 3)
    k, variadic = sig[nm]
    if variadic:
        return k + rng.choice([1, 1, 2, 3])
    return k


def invocation_args(rng, cfg, names, params, depth, nm, H):
    nargs = nargs_for(rng, cfg, names.sig, nm)
    H["invocations"] += 1
    H["nest%d" % min(depth, 4)] += 1
    out = ["("]
    if nargs == 1 and rng.random() < 0.15:
        H["empty-args"] += 1
        return ["(", ")"]
    for k in range(nargs):
        if k:
            out.append(",")
        a = arg_tokens(rng, cfg, names, params, depth, H)
        if not a:
            H["empty-args"] += 1
        out += a
    out.append(")")
    return out


def arg_tokens(rng, cfg, names, params, depth, H):
    n = rng.choice([0, 1, 1, 1, 2, 3, 5])
    out = []
    for _ in range(n):
        r = rng.random()
        if r < 0.28 and names:
            nm = rng.choice(names)
            out.append(nm)
            if nm in FUN:
                if rng.random() < 0.7 and depth < 3:
                    out += invocation_args(rng, cfg, names, params, depth + 1, nm, H)
                else:
                    H["funclike-name-without-paren"] += 1
        elif r < 0.40 and params:
            out.append(rng.choice(params))
        elif r < 0.55:
            out.append(rng.choice(PLAIN))
        elif r < 0.70:
            out.append(rng.choice(NUMS))
        elif r < 0.78:
            out.append(rng.choice(STRS))
        elif r < 0.88 and depth < 3:
            inner = arg_tokens(rng, cfg, names, params, depth + 1, H)
            if rng.random() < 0.5:
                inner = inner + [","] + arg_tokens(rng, cfg, names, params, depth + 1, H)
                H["comma-in-parens"] += 1
            out += ["("] + inner + [")"]
            H["parens-in-arg"] += 1
        else:
            out.append(rng.choice(PUNCT))
    return out


def body_tokens(rng, cfg, names, plain_params, str_params, func, H, depth=0):
    n = rng.choice([0, 1, 1, 2, 3, 4, 6, 9])
    out = []
    for _ in range(n):
        r = rng.random()
        if (plain_params or str_params) and r < 0.35:
            if str_params and (not plain_params or rng.random() < 0.35):
                out += ["#", rng.choice(str_params)]
                H["stringized-param-uses"] += 1
            else:
                out.append(rng.choice(plain_params))
        elif r < 0.35 + 0.17 * cfg.heavy and names:
            nm = rng.choice(names)
            out.append(nm)
            if nm in FUN:
                if rng.random() < 0.75:
                    out += invocation_args(rng, cfg, names, plain_params, depth + 1, nm, H)
                else:
                    H["funclike-name-without-paren"] += 1
        elif r < 0.65:
            out.append(rng.choice(PLAIN))
        elif r < 0.78:
            out.append(rng.choice(NUMS))
        elif r < 0.84:
            out.append(rng.choice(STRS))
        elif r < 0.90 and depth < 2:
            out += ["("] + body_tokens(rng, cfg, names, plain_params, str_params, func, H, depth + 2) + [")"]
        elif r < 0.93:
            out.append(",")
        elif cfg.unbalanced and r < 0.97:
            out.append(rng.choice(["(", ")"]))
        else:
            out.append(rng.choice(PUNCT))
    if not func and rng.random() < 0.03:
        out.insert(rng.randint(0, len(out)), "#")          # an ordinary token in an object-like macro
    return out


class MacroDef:
    def __init__(self, name, func, params, variadic, body):
        self.name, self.func, self.params, self.variadic, self.body = name, func, params, variadic, body

    def text(self, rng):
        s = "#" + rng.choice(["", " ", "  "]) + "define " + self.name
        if self.func:
            ps = list(self.params) + (["..."] if self.variadic else [])
            s += "(" + join(rng, [x for k, p in enumerate(ps) for x in ([","] if k else []) + [p]]) + sp(rng) + ")"
        b = join(rng, self.body)
        if b and not b[0].isspace():
            b = " " + b
        return s + b

    def same_text_other_amount_of_space(self, rng):
        """6.10.3p2: the same definition, white space present at the same places (amount differs)"""
        s = "# define  " + self.name
        if self.func:
            ps = list(self.params) + (["..."] if self.variadic else [])
            s += "( " + " , ".join(ps) + " )"
        return s + "".join(("   /**/ " if sep else "") + t for sep, t in self.spaced)


def gen_macro(rng, cfg, name, names, H):
    func = name in FUN
    params, variadic = [], False
    if func:
        k, variadic = names.sig[name]
        params = PARAMS[:k]
    pp = params + (["__VA_ARGS__"] if variadic else [])
    if cfg.str_and_tok:
        plain, strp = pp, pp
    else:
        strp = [p for p in pp if rng.random() < 0.3]
        plain = [p for p in pp if p not in strp]
    body = body_tokens(rng, cfg, names, plain, strp if func else [], func, H)
    H["macros"] += 1
    H["function-like" if func else "object-like"] += 1
    if func:
        H["params=%d" % len(params)] += 1
        if variadic:
            H["variadic"] += 1
    if name in body:
        H["self-reference"] += 1
    return MacroDef(name, func, params, variadic, body)


def use_line(rng, cfg, names, H):
    out = []
    n = rng.choice([1, 2, 3, 5, 8])
    for _ in range(n):
        r = rng.random()
        if r < 0.55 and names:
            nm = rng.choice(names)
            out.append(nm)
            if nm in FUN:
                if rng.random() < 0.12:
                    H["funclike-name-without-paren"] += 1
                else:
                    out += invocation_args(rng, cfg, names, [], 0, nm, H)
        elif r < 0.70:
            out.append(rng.choice(PLAIN))
        elif r < 0.82:
            out.append(rng.choice(NUMS))
        elif r < 0.88:
            out.append(rng.choice(STRS))
        else:
            out.append(rng.choice(PUNCT + ([",", "(", ")"] if rng.random() < 0.1 else [])))
    return out


def text_of_use(rng, toks, H):
    s = join(rng, toks, nl=True)
    if "\n" in s:
        H["multi-line-uses"] += 1
    return s


def gen_case(rng, cfg, H):
    """a macro set with #undef/#define history, used in free token sequences: source text (str)"""
    while True:
        t = gen_case1(rng, cfg, H)
        if len(t) <= 2500:          # (the scanner model tokenises in quadratic time)
            return t
        H["regenerated(too long)"] += 1


def gen_case1(rng, cfg, H):
    nm = rng.choice([1, 2, 3, 4, 6, 8, 12])
    if cfg.obj_only:
        nm = min(nm, len(OBJ))
        pool = rng.sample(OBJ, nm)
    else:
        pool = rng.sample(OBJ, min(len(OBJ), (nm + 1) // 2 + 1)) + rng.sample(FUN, min(len(FUN), nm // 2 + 1))
    rng.shuffle(pool)
    names = Names(pool[:nm])
    names.sig = {n: (rng.choice([0, 1, 1, 2, 2, 3, 4]), rng.random() < 0.3) for n in names if n in FUN}
    H["nmacros=%d" % nm] += 1
    table = {}
    lines = []
    for nmx in names:
        m = gen_macro(rng, cfg, nmx, names, H)
        table[nmx] = m
        lines.append(m.text(rng))
        if rng.random() < 0.15:
            lines.append(text_of_use(rng, use_line(rng, cfg, names, H), H))
    for _ in range(rng.choice([1, 2, 3, 5])):
        r = rng.random()
        if r < 0.12 and table:
            n = rng.choice(sorted(table))
            lines.append("#undef " + n)
            del table[n]
            H["undef"] += 1
        elif r < 0.22:
            n = rng.choice(names)
            m = gen_macro(rng, cfg, n, names, H)
            if n in table:
                H["undef"] += 1
                H["redefine-after-undef"] += 1
                lines.append("#undef " + n)
            lines.append(m.text(rng))
            table[n] = m
        elif r < 0.28:
            lines.append(rng.choice(["#", "# ", "#pragma omp x y 1", "#pragma", "#line 7", '#line 9 "f.c"', '# 3 "g.c"']))
            H["other-directives"] += 1
        lines.append(text_of_use(rng, use_line(rng, cfg, names, H), H))
    return "\n".join(lines) + "\n"



# --- invocations that begin inside a replacement list and end after it (6.10.3.4p1: "the rest of the source
#     file's preprocessing tokens"), with commas and parentheses produced by macros inside the arguments ----------
def gen_open(rng, H):
    """`#define O f ( 1` ... `O S 2 , 3 )`: the depth bookkeeping of expandfunc across the end of a frame"""
    callee = rng.choice(FUN)
    npar = rng.choice([1, 2, 2, 3])
    variadic = rng.random() < 0.4
    params = ["a", "b", "c"][:npar]
    body = []
    for _ in range(rng.choice([1, 2, 3, 4])):
        r = rng.random()
        if r < 0.55:
            body.append(rng.choice(params + (["__VA_ARGS__"] if variadic else [])))
        elif r < 0.8:
            body.append(rng.choice(["+", "|", "[", "]", "x"]))
        else:
            body.append(rng.choice(NUMS))
    lines = ["#define %s(%s) %s" % (callee, ", ".join(params + (["..."] if variadic else [])), " ".join(body))]
    punct = {"S": ",", "L": "(", "R": ")", "P": "( 7 )", "Q": "8 , 9"}
    used = rng.sample(sorted(punct), rng.choice([1, 2, 3]))
    for k in used:
        lines.append("#define %s %s" % (k, punct[k]))
    # the opening macro, possibly reached through further object-like macros, possibly with arguments already done
    pre = [callee, "("]
    done = rng.choice([0, 0, 1]) if npar > 1 else 0
    for _ in range(done):
        pre += [rng.choice(NUMS), ","]
    if rng.random() < 0.7:
        pre.append(rng.choice(NUMS + PLAIN))
    lines.append("#define O " + " ".join(pre))
    opener = "O"
    for w in ["W", "V"][:rng.choice([0, 0, 1, 2])]:
        lines.append("#define %s %s%s" % (w, rng.choice(["", "y "]), opener))
        opener = w
    rest = []
    for _ in range(rng.choice([1, 2, 3, 5])):
        r = rng.random()
        if r < 0.45:
            rest.append(rng.choice(used))
        elif r < 0.6:
            rest.append(",")
        elif r < 0.7:
            rest += ["(", rng.choice(NUMS + used), ")"]
        else:
            rest.append(rng.choice(NUMS + PLAIN))
    use = [opener] + rest + [")"] + ([rng.choice(PLAIN + used)] if rng.random() < 0.5 else []) + [";"]
    if rng.random() < 0.3:
        use += [opener] + [rng.choice(NUMS), ")"]
    lines.append(" ".join(use))
    H["open-invocation-units"] += 1
    return "\n".join(lines) + "\n"


# --- the class of function_like_correct_init ----------------------------------------------------------
def gen_simple(rng, H):
    """object-like macros (referring to each other and to themselves) together with function-like macros of
    one to three parameters (no `#`, no `...`), no empty replacement list, no function-like name inside a
    replacement list; all definitions first; every function-like name in the text is invoked with the right
    number of non-empty arguments that hold no macro name and no new-line"""
    objs = rng.sample(OBJ, rng.randint(0, 4))
    funs = rng.sample(FUN, rng.randint(1, 3))
    sig = {f: rng.randint(1, 3) for f in funs}
    lines = []
    order = objs + funs
    rng.shuffle(order)

    with_hash = rng.random() < 0.4
    if with_hash:
        H["simple:units with # parameter"] += 1

    def body(params):
        # a parameter is used either with `#` or outside, not both (there lives stringize-nested-call)
        strp = [q for q in params if with_hash and rng.random() < 0.4]
        plainp = [q for q in params if q not in strp]
        out = []
        for _ in range(rng.choice([1, 1, 2, 3, 4, 6, 9])):
            r = rng.random()
            if strp and r < 0.15:
                out += ["#", rng.choice(strp)]
            elif plainp and r < 0.4:
                out.append(rng.choice(plainp))
            elif objs and r < 0.6:
                out.append(rng.choice(objs))
            elif r < 0.72:
                out.append(rng.choice(PLAIN))
            elif r < 0.82:
                out.append(rng.choice(NUMS))
            elif r < 0.87:
                out.append(rng.choice(STRS))
            elif r < 0.93:
                out.append(rng.choice(["(", ")", ","]))
            else:
                out.append(rng.choice(PUNCT))
        return out

    for n in order:
        if n in sig:
            ps = PARAMS[:sig[n]]
            m = MacroDef(n, True, ps, False, body(ps))
        else:
            m = MacroDef(n, False, [], False, body([]))
        lines.append(m.text(rng))
        H["simple:macros"] += 1

    names_in_args = bool(objs) and rng.random() < 0.5
    if names_in_args:
        H["simple:units with macro names in arguments"] += 1

    nested = rng.random() < 0.4
    if nested:
        H["simple:units with invocations nested in arguments"] += 1

    def arg(depth=0):
        out = []
        for _ in range(rng.choice([1, 1, 2, 3, 5])):
            r = rng.random()
            if nested and depth < 2 and r < 0.15:
                f = rng.choice(funs)
                out += [f, "("]
                for k in range(sig[f]):
                    if k:
                        out.append(",")
                    out += arg(depth + 1)
                out.append(")")
            elif names_in_args and r < 0.3:
                out.append(rng.choice(objs))
            elif r < 0.35:
                out.append(rng.choice(PLAIN + PARAMS))
            elif r < 0.6:
                out.append(rng.choice(NUMS))
            elif r < 0.7:
                out.append(rng.choice(STRS))
            elif r < 0.85 and depth < 2:
                inner = arg(depth + 1)
                if rng.random() < 0.5:
                    inner = inner + [","] + arg(depth + 1)
                out += ["("] + inner + [")"]
            else:
                out.append(rng.choice(PUNCT))
        return out

    for _ in range(rng.choice([1, 2, 3, 5])):
        toks = []
        for _ in range(rng.choice([1, 2, 3, 5, 8])):
            r = rng.random()
            if r < 0.35:
                f = rng.choice(funs)
                toks.append((f, True))
                toks.append(("(", False))
                for k in range(sig[f]):
                    if k:
                        toks.append((",", False))
                    toks += [(a, False) for a in arg()]
                toks.append((")", False))
                H["simple:invocations"] += 1
            elif objs and r < 0.6:
                toks.append((rng.choice(objs), True))
            elif r < 0.75:
                toks.append((rng.choice(PLAIN), True))
            elif r < 0.88:
                toks.append((rng.choice(NUMS), True))
            else:
                toks.append((rng.choice(PUNCT + ["(", ")", ","]), True))
        out = ""
        for t, brk in toks:
            g = sp(rng)
            if brk and out and rng.random() < 0.1:
                g = "\n"
            if out and g == "" and needs_space(out, t):
                g = " "
            out += g + t
        lines.append(out)
    return "\n".join(lines) + "\n"


# --- redefinitions (6.10.3p2) --------------------------------------------------------------------
def gen_redef(rng, H):
    """(text, expectation) : a definition followed by a second definition of the same name"""
    func = rng.random() < 0.6
    params = PARAMS[:rng.randint(0, 3)] if func else []
    variadic = func and rng.random() < 0.25
    base = [rng.choice(PLAIN + NUMS + params + ["+", "(", ")", ",", '"s"']) for _ in range(rng.randint(0, 6))]
    seps = [rng.random() < 0.5 for _ in base]

    def render(name, ps, va, toks, sep, wide):
        s = "#define " + name
        if ps is not None:
            s += "(" + (" , " if wide else ",").join(ps + (["..."] if va else [])) + ")"
        body = ""
        for k, (t, sp_) in enumerate(zip(toks, sep)):
            gap = ("  /*x*/ " if wide else " ") if (sp_ or (body and needs_space(body, t))) else ""
            if k == 0:
                gap = " "
            body += gap + t
        return s + body
    # make `seps` truthful (a separation forced by needs_space is a separation)
    body = ""
    for k, t in enumerate(base):
        if k and not seps[k] and needs_space(body, t):
            seps[k] = True
        body += (" " if seps[k] else "") + t
    first = render("M", params if func else None, variadic, base, seps, False)
    kind = rng.choice(["same", "same-wide", "space", "token", "param", "kind", "count"])
    toks, sep, ps, va, fn = list(base), list(seps), list(params), variadic, func
    expect = "accept"
    if kind in ("same", "same-wide"):
        pass
    elif kind == "space":
        cand = [k for k in range(1, len(toks)) if not needs_space(toks[k - 1], toks[k])]
        if not cand:
            kind = "same"
        else:
            k = rng.choice(cand)
            sep[k] = not sep[k]
            expect = "reject-space"
    elif kind == "token":
        if toks:
            k = rng.randrange(len(toks))
            toks[k] = "zz" if toks[k] != "zz" else "yy"
        else:
            toks = ["zz"]
            sep = [True]
        expect = "reject"
    elif kind == "param":
        if fn and ps:
            old = ps[0]
            ps[0] = "w"
            toks = [("w" if t == old else t) for t in toks]
            expect = "reject"
        else:
            kind = "same"
    elif kind == "kind":
        fn = not fn
        if fn:
            ps, va = [], False
        toks = [t for t in toks if t not in params] if not fn else toks
        sep = sep[:len(toks)] if len(sep) >= len(toks) else sep
        if len(sep) != len(toks):
            toks, sep = ["k"], [True]
        expect = "reject"
    elif kind == "count":
        toks = toks + ["1"]
        sep = sep + [True]
        expect = "reject"
    second = render("M", ps if fn else None, va, toks, sep, kind == "same-wide" or rng.random() < 0.3)
    H["redef:" + kind] += 1
    use = "M" + ("(" + ",".join(["1"] * (len(ps) + (1 if va else 0))) + ")" if fn else "")
    return first + "\n" + second + "\n" + (use + "\n" if expect != "reject" and "zz" not in toks else ""), expect



# --- redefinition after use (6.10.3p2 on a macro that has been expanded) ----------------------------------
def gen_reuse(rng, H):
    """a macro set; uses of each macro with and without white space in front of the macro name (after `[`, `(`,
    an operator, as the first token of an argument, at the start of a line); the same `#define` lines again
    (byte-identical, or with another amount of white space where there is some, or -- the recorded finding
    macroequal-ignores-space -- with white space at other places); uses again"""
    objs = rng.sample(OBJ, rng.randint(1, 3))
    funs = rng.sample(FUN, rng.randint(0, 2))
    sig = {f: rng.randint(1, 2) for f in funs}
    defs = {}

    def render(name, toks, seps, wide):
        s = "#define " + name
        if name in sig:
            s += "(" + (" , " if wide else ",").join(PARAMS[:sig[name]]) + ")"
        body = ""
        for k, (t, sp_) in enumerate(zip(toks, seps)):
            gap = (rng.choice(["  ", "\t", " /*x*/ "]) if wide else " ") if sp_ else ""
            body += gap + t
        return s + body

    for n in objs + funs:
        ps = PARAMS[:sig[n]] if n in sig else []
        toks = []
        for _ in range(rng.choice([1, 1, 2, 3, 5])):
            r = rng.random()
            if ps and r < 0.4:
                toks.append(rng.choice(ps))
            elif r < 0.5 and n != objs[0]:
                toks.append(objs[0])
            elif r < 0.7:
                toks.append(rng.choice(["x", "y", "v"]))
            elif r < 0.85:
                toks.append(rng.choice(["1", "42", "0x1F"]))
            else:
                toks.append(rng.choice(["+", "-", "*", "<", "=="]))
        seps = [True]
        body = toks[0]
        for t in toks[1:]:
            b = rng.random() < 0.6 or needs_space(body, t)
            seps.append(b)
            body += (" " if b else "") + t
        defs[n] = (toks, seps)

    def inv(n):
        if n in sig:
            return n + rng.choice(["", " "]) + "(" + ",".join(rng.choice(["1", "x", "(2,y)", "v+1"]) for _ in range(sig[n])) + ")"
        return n

    def uses():
        out = []
        for n in rng.sample(sorted(defs), len(defs)):
            for _ in range(rng.choice([1, 1, 2, 3])):
                c = rng.choice(["a[%s]", "(%s)", "-%s", "1+%s", "g(%s, 2)", "g(2,%s)", "%s x", " %s", "x %s", "x = %s;",
                                "!%s"] + (["%s(%%s)" % f for f in funs if sig[f] == 1 and f != n]))
                H["reuse:ctx " + c.replace("%s", "M")] += 1
                out.append(c % inv(n))
        return out

    lines = [render(n, defs[n][0], defs[n][1], False) for n in defs]
    first = dict(zip(defs, lines))
    lines += uses()
    for n in rng.sample(sorted(defs), rng.randint(1, len(defs))):
        r = rng.random()
        toks, seps = defs[n]
        if r < 0.6:
            lines.append(first[n])
            H["reuse:identical"] += 1
        elif r < 0.85:
            lines.append(render(n, toks, seps, True))
            H["reuse:other-amount-of-space"] += 1
        else:
            cand = [k for k in range(1, len(toks)) if not needs_space(toks[k - 1], toks[k])]
            if cand:
                k = rng.choice(cand)
                seps2 = list(seps)
                seps2[k] = not seps2[k]
                lines.append(render(n, toks, seps2, False))
                H["reuse:space-elsewhere(known finding)"] += 1
            else:
                lines.append(first[n])
                H["reuse:identical"] += 1
        if rng.random() < 0.5:
            lines += uses()[:2]
    lines += uses()
    return "\n".join(lines) + "\n"



# --- capacity: what makes pp.c's arrays grow (256 bytes at first: about 7 tokens, 10 frames, 16 parameters) ------
def gen_capacity(rng, H):
    """valid units that push pp.c's growing arrays past their first allocation: chains of nested replacements
    (the context stack), macros with many parameters and long replacement lists, long arguments, long
    stringified arguments, many new-lines between a macro name and its parenthesis, invocations nested deeply
    in arguments, parameters replaced while the context stack is deep"""
    k = rng.choice(["chain", "chain-fun", "wide", "longstr", "newlines", "nest", "deep-params"])
    H["capacity:" + k] += 1
    L = []
    if k == "chain":
        n = rng.randint(9, 60)
        for i in range(n):
            L.append("#define C%d %s C%d %s" % (i, rng.choice(["", "x", "(", "1 +"]), i + 1, rng.choice(["", "y", ")", "C0"])))
        L.append("#define C%d end C0 C%d" % (n, n // 2))
        L.append("C0 ; C%d , C%d" % (n // 3, n - 1))
    elif k == "chain-fun":
        n = rng.randint(9, 40)
        for i in range(n):
            L.append("#define f%d(a, b) %s f%d(b, a %s) a" % (i, rng.choice(["", "[", "a"]), i + 1, rng.choice(["", "+ 1", "b"])))
        L.append("#define f%d(a, b) <a|b>" % n)
        L.append("f0(x, y) f%d((p,q), f%d(1,2))" % (n // 2, n - 1))
    elif k == "wide":
        n = rng.randint(15, 60)
        ps = ["p%d" % i for i in range(n)]
        body = []
        for _ in range(rng.randint(20, 150)):
            body.append(rng.choice(ps + ["+", "x", "1", "(", ")", ","]))
        var = rng.random() < 0.3
        L.append("#define W(%s%s) %s%s" % (", ".join(ps), ", ..." if var else "", " ".join(body), " __VA_ARGS__" if var else ""))
        args = []
        for i in range(n + (rng.randint(1, 20) if var else 0)):
            args.append(" ".join(rng.choice(["a", "1", "(b,c)", "\"s\"", "+", "x y"]) for _ in range(rng.choice([1, 1, 2, 12, 30]))))
        L.append("W(%s) tail" % ", ".join(args))
    elif k == "longstr":
        L.append("#define S(a, ...) #a #__VA_ARGS__ a")
        n = rng.randint(30, 200)
        toks = [rng.choice(["abcdefgh", "\"q\\\"r\"", "'c'", "1.5e+3", "+", "x", "(y)"]) for _ in range(n)]
        L.append("S(%s, %s)" % (" ".join(toks), " , ".join(toks[:n // 2])))
    elif k == "newlines":
        L.append("#define F(a) [a]")
        L.append("#define O F")
        n = rng.randint(8, 40)
        L.append("F" + "\n" * n + "(1) O" + "\n" * rng.randint(8, 40) + "(2) F" + "\n" * n + "x")
    elif k == "nest":
        L.append("#define F(a) a a")
        L.append("#define G(a, b) b , a")
        n = rng.randint(5, 11)
        e = "z"
        for i in range(n):
            e = rng.choice(["F(%s)", "G(%s, q)", "G(r, %s)"]) % e
        L.append(e)
    else:
        n = rng.randint(6, 20)
        L.append("#define P(a, b, c) a D1 b c a")
        for i in range(1, n):
            L.append("#define D%d ( D%d )" % (i, i + 1))
        L.append("#define D%d P2(u, v)" % n)
        L.append("#define P2(a, b) a b a b a b a b a b")
        L.append("P(1 2 3 4 5 6 7 8 9, x, (y, z))")
    return "\n".join(L) + "\n"


# --- invalid input (diagnostics) -------------------------------------------------------------------
def gen_error(rng, H):
    k = rng.choice(["hashhash", "hash-nonparam", "hash-end", "va-nonvariadic", "va-object", "dup-param", "param-syntax",
                    "define-noname", "undef-noname", "undef-trailing", "unimpl", "unknown-directive", "argcount-few",
                    "argcount-many", "argcount-zero", "unterminated", "extra-empty-arg", "va-first", "line-bad",
                    "non-ident-directive", "variadic-no-arg"])
    H["error:" + k] += 1
    pre = "#define OK(a) a\nOK(1) x\n"
    T = {
        "hashhash": ["#define M a ## b\n", "#define M(a) a##1\n", "#define M ##\n"],
        "hash-nonparam": ["#define M(a) #b\n", "#define M(a) # 1\n", "#define M(a,...) #a #c\n"],
        "hash-end": ["#define M(a) a #\n", "#define M() #\n"],
        "va-nonvariadic": ["#define M(a) a __VA_ARGS__\n", "#define M(a,b) b, __VA_ARGS__\n"],
        "va-object": ["#define M x __VA_ARGS__\n"],
        "va-first": ["#define M __VA_ARGS__\nM\n", "#define M(a) __VA_ARGS__ a\nM(1)\n"],
        "dup-param": ["#define M(a,a) a\nM(1,2)\n", "#define M(a,b,a) b\nM(1,2,3)\n"],
        "param-syntax": ["#define M(a b) a\n", "#define M(a,) a\n", "#define M(...,a) a\n", "#define M(a\n", "#define M(1) a\n",
                         "#define M(a,...,b) a\n", "#define M(,a) a\n"],
        "define-noname": ["#define\n", "#define 1 2\n", "#define (a) a\n"],
        "undef-noname": ["#undef\n", "#undef 1\n"],
        "undef-trailing": ["#undef OK x\n", "#define M 1\n#undef M M\n"],
        "unimpl": ["#if 1\n", "#ifdef OK\n", "#ifndef OK\n", "#elif 1\n", "#endif\n", "#include <x.h>\n", "#error no\n"],
        "unknown-directive": ["#foo\n", "#else\n", "#defined M\n"],
        "non-ident-directive": ["# + 1\n", '# "x"\n'],
        "argcount-few": ["#define M(a,b) a b\nM(1)\n", "#define M(a,b,c) a\nM(1,2)\n", "#define M(a,b) a\nM()\n"],
        "argcount-many": ["#define M(a) a\nM(1,2)\n", "#define M(a,b) a\nM(1,2,3)\n", "#define M(a,b) a\nM((1),(2),3)\n"],
        "argcount-zero": ["#define M() a\nM(1)\n", "#define M() a\nM(,)\n"],
        "extra-empty-arg": ["#define M(a) a\nM(1,)\n", "#define M(a) [a]\nM(,)\n", "#define M(a,b) a b\nM(1,2,)\n"],
        "variadic-no-arg": ["#define M(a,...) a\nM(1)\n", "#define M(a,b,...) a\nM(1,2)\n"],
        "unterminated": ["#define M(a) a\nM(1\n", "#define M(a) a\nM((1)\n", "#define M(a,b) a\nx M(1,\n2\n"],
        "line-bad": ["#line\n", "#line x\n", "#line 5 x\n"],
    }
    return pre + rng.choice(T[k]), k


# --- the recorded known findings, on purpose ------------------------------------------------------
KNOWN_STREAM = {
    "stringize-nested-call": [
        "#define N(x) x\n#define M(p) p #p\nM(N(2))\n",
        "#define N(x,y) y x\n#define M(p) #p p\nM(a N(1,2) b)\n",
        "#define N() 7\n#define M(p,...) p #p __VA_ARGS__\nM(N(),N())\n",
    ],
    "macroequal-ignores-space": [
        "#define A (1)\n#define A ( 1 )\nA\n",
        "#define F(x) x+1\n#define F(x) x + 1\nF(2)\n",
        "#define F(x) #x\n#define F(x) # x\nF(2)\n",
    ],
    "empty-expansion-space": [
        "#define S(x) #x\n#define T(y) S(a y+b)\nT()\n",
        "#define E\n#define S(x) #x\n#define Q(x) S(a x+b)\nQ(E)\n",
        "#define E\n#define S(x) #x\n#define Q(x) S(x)\nQ(a E+b)\n",
    ],
    "pragma-funclike-lookahead": [
        "#define F(x) x\n#pragma F\na b\nc\n",
        "#define F(x) x\n#pragma omp F\nq r s\n",
    ],
    "directive-between-name-and-paren": [
        "#define F(x) [x]\nF\n#define G 2\n(1) G\n",
        "#define F(x) [x]\n#define G 1\nF\n#undef G\n(G)\n",
    ],
    "depth-count-confusion": [
        "#define F(x) x , 9\n#define X G ( F\n#define G(a, b) [a|b]\nX (1) , 2 )\n",
        "#define F(x) x\n#define X G ( F\n#define G(a) [a]\nX (1 , 2) )\n",
    ],
}


# --- valid C programs ---------------------------------------------------------------------------
def gen_program(rng, H):
    """a valid C translation unit using object-like, function-like, variadic and stringizing macros,
    mutual and self reference, nested and multi-line invocations, #undef/#define histories"""
    L = []
    gvars = ["ga", "gb", "gc"]
    L.append("int ga = 3, gb = 4, gc = 5;")
    # a name that survives replacement (self or mutual reference, 6.10.3.4p2) must denote something
    L.append("int K0 = 10, K1 = 11, K2 = 12, K3 = 13, K4 = 14;")
    L.append("int fa(int x) { return x + 1; }")
    L.append("int fb(int x, int y) { return x * y; }")
    objs, funs = [], {}

    avail = {}

    def expr(depth, params, ml=False):
        funs = avail["funs"]
        r = rng.random()
        if depth > 2 or r < 0.25:
            c = [str(rng.randint(0, 99))] + gvars + list(params)
            return rng.choice(c)
        if r < 0.45 and objs:
            return rng.choice(objs)
        if r < 0.70 and funs:
            f = rng.choice(sorted(funs))
            n, va = funs[f]
            k = n + (rng.randint(1, 2) if va else 0)
            args = [expr(depth + 1, params, ml) for _ in range(k)]
            sep = rng.choice([",", ", ", " ,\n "] if ml else [",", ", ", " , "])
            H["prog-invocations"] += 1
            if ml and "\n" in sep and k > 1:
                H["prog-multi-line-invocations"] += 1
            return f + rng.choice(["", " ", "\n"] if ml else ["", " "]) + "(" + sep.join(args) + ")"
        if r < 0.78:
            return "fa(" + expr(depth + 1, params, ml) + ")"
        if r < 0.84:
            return "fb(" + expr(depth + 1, params, ml) + ", " + expr(depth + 1, params, ml) + ")"
        op = rng.choice(["+", "-", "*", "|", "&", "^", "<", "==", "<<"])
        if op == "<<":
            return "(" + expr(depth + 1, params, ml) + " << " + str(rng.randint(0, 3)) + ")"
        return "(" + expr(depth + 1, params, ml) + " " + op + " " + expr(depth + 1, params, ml) + ")"

    nobj = rng.randint(1, 5)
    nfun = rng.randint(1, 6)
    # names first, so that bodies may refer forward (mutual reference) and to themselves
    onames = ["K%d" % i for i in range(nobj)]
    fnames = ["m%d" % i for i in range(nfun)]
    selfref = []
    if rng.random() < 0.5:
        onames.append("ga")              # #define ga (ga + K0): the variable of the same name
        selfref.append("ga")
    if rng.random() < 0.5:
        fnames.append("fa")              # #define fa(x) fa((x) + 1): the function of the same name
    sigs = {f: (rng.randint(0, 3), rng.random() < 0.3) for f in fnames}
    sigs["fa"] = (1, False)
    # definitions in an order that allows forward references: all names are usable in all bodies
    # object-like macros may refer to each other in cycles (a name that survives is the variable of that name);
    # a function-like macro refers to object-like ones and to function-like ones defined before it (and `fa`
    # to itself): no call of an undeclared function survives
    objs[:] = onames
    avail["funs"] = {}
    for o in onames:
        L.append("#define %s (%s)" % (o, expr(1, [])))
        H["prog-object-like"] += 1
    for f in fnames:
        avail["funs"] = {g: sigs[g] for g in fnames[:fnames.index(f)]}
        n, va = sigs[f]
        ps = PARAMS[:n]
        body_params = ["(" + p + ")" for p in ps]
        if f == "fa":
            avail["funs"] = {}                     # everything may call fa: fa itself calls no macro function
            body = "fa((a) + %s)" % expr(2, ["(a)"])
        elif va:
            body = "fb(%s, fva(%d, __VA_ARGS__))" % (expr(1, body_params) if ps else "1", rng.randint(1, 9))
            H["prog-variadic"] += 1
        else:
            body = expr(0, body_params)
        L.append("#define %s(%s) (%s)" % (f, ", ".join(ps + (["..."] if va else [])), body))
        H["prog-function-like"] += 1
    avail["funs"] = {g: sigs[g] for g in fnames}
    L.insert(2, "int fva(int n, ...) { return n; }")
    # stringification, token-level macros
    L.append("#define STR(x) #x")
    L.append("#define XSTR(x) STR(x)")
    L.append("#define CAT3(a, b, c) a b c")
    L.append("#define EMPTY")
    L.append("#define T int")
    L.append("#define DECL(t, n, v) t n = v")
    L.append("#define LIST(...) { __VA_ARGS__ }")
    L.append("#define APPLY(f, ...) f(__VA_ARGS__)")
    L.append("#define LPAR (")
    body = []
    k = 0
    for _ in range(rng.randint(2, 6)):
        r = rng.random()
        k += 1
        if r < 0.35:
            body.append("DECL(T, v%d, %s);" % (k, expr(0, [], True)))
        elif r < 0.5:
            words = [rng.choice(["a", "b+c", '"q"', "'\\\\'", "x  y", "(1,2)", "(p,q)", "K0", "-  1", '"a\\\\n"']) for _ in range(rng.randint(1, 3))]
            body.append("const char *s%d = %s(%s);" % (k, rng.choice(["STR", "XSTR"]), " ".join(words)))
            H["prog-stringize"] += 1
        elif r < 0.62:
            body.append("int l%d[] = LIST(%s);" % (k, ", ".join(expr(1, [], True) for _ in range(rng.randint(1, 4)))))
        elif r < 0.72:
            body.append("T w%d = APPLY(fb, %s, %s) EMPTY;" % (k, expr(1, []), expr(1, [])))
        elif r < 0.80:
            body.append("int (*fp%d)(int) = fa; T u%d = fp%d LPAR %s);" % (k, k, k, expr(1, [])))
            H["prog-funclike-name-without-paren"] += 1
        elif r < 0.88 and len(onames) > 1:
            o = rng.choice(onames[:nobj])
            body.append("#undef %s" % o)
            keep = avail["funs"]
            avail["funs"] = {}
            body.append("#define %s (%s)" % (o, expr(1, [])))
            avail["funs"] = keep
            H["prog-undef-define"] += 1
        else:
            body.append("gc CAT3(=, %s, + 1);" % expr(1, [], True))
    L.append("int test(int x, int y)\n{")
    L += ["\t" + b if not b.startswith("#") else b for b in body]
    L.append("\treturn %s;\n}" % expr(0, ["x", "y"], True))
    return "\n".join(L) + "\n"


# ----------------------------------------------------------------------------- running
class Ctx:
    pass


def run_real(X, texts, mode, plain=False):
    """the harness forks one child per input; a child that does not terminate (a broken hide flag makes
    expansion endless) is ended by its CPU limit and reported as a death of the preprocessor"""
    lines = ["%s %s" % (mode, hx(t)) for t in texts]
    out = lexgen.run_sharded([X.harness_plain if plain else X.harness], lines, env=ASAN_ENV)
    return [parse_real(l) for l in out]


def run_drv(X, texts, mode):
    lines = ["%s %s" % (mode, hx(t)) for t in texts]
    try:
        out = lexgen.run_sharded([X.ck.drv_path()], lines, timeout=400)
    except subprocess.TimeoutExpired:
        raise common.Broken("drv_c12 %s did not finish %d inputs in 400 s" % (mode, len(texts)))
    return [parse_drv(l) for l in out]


def same_km(r, m):
    """real vs model, observationally: tokens (kind, spelling, space flag) and the class of the diagnostic"""
    if r.crash is not None:
        return False
    if r.toks != m.toks:
        return False
    return r.err == m.err


def agrees_with_ref(X, r, s):
    """the `ok` predicate: the real stream is the 6.10.3 token sequence (None) or the reason why not"""
    if r.crash is not None:
        return "the preprocessor died (status %s)" % r.crash
    rk, sk = r.keys(X), s.keys(X)
    if s.err is None and r.err is None:
        if rk != sk:
            for i, (a, b) in enumerate(zip(rk, sk)):
                if a != b:
                    return "token %d is %s, C11 6.10.3 gives %s" % (i, show(X, [a + (False,)]), show(X, [b + (False,)]))
            return "%d tokens delivered, C11 6.10.3 gives %d" % (len(rk), len(sk))
        return None
    if s.err is not None and r.err is None:
        return "accepted, but C11 requires a diagnostic (%s)" % s.err
    if s.err is None and r.err is not None:
        return "rejected (%s), but the unit is valid: %s" % (r.err, show(X, s.toks, 30))
    if r.coarse() != s.coarse():
        return "diagnosed as %s, the reference finds %s" % (r.err, s.err)
    k = min(len(rk), len(sk))
    if rk[:k] != sk[:k]:
        return "tokens before the diagnostic differ from C11 6.10.3"
    return None


def only_strings_differ(X, r, s, modspace):
    rk, sk = r.keys(X), s.keys(X)
    if r.coarse() != s.coarse():
        return False
    if r.err is not None:            # both diagnosed: the tokens before the diagnostic
        k = min(len(rk), len(sk))
        rk, sk = rk[:k], sk[:k]
    if len(rk) != len(sk):
        return False
    seen = False
    for a, b in zip(rk, sk):
        if a == b:
            continue
        if a[0] != X.TSTRINGLIT or b[0] != X.TSTRINGLIT:
            return False
        if modspace and a[1].replace(b" ", b"") != b[1].replace(b" ", b""):
            return False
        seen = True
    return seen


def defs_balanced(text):
    """every #define line has balanced parentheses (the generator's main streams guarantee it; the shrinker must
    not leave that class, or it ends in a different, recorded finding)"""
    for ln in text.split("\n"):
        if re.match(r"\s*#\s*define\b", ln):
            d = 0
            for m in TOKRE.finditer(ln):
                w = m.group(0)
                if w == "(":
                    d += 1
                elif w == ")":
                    d -= 1
                    if d < 0:
                        return False
            if d != 0:
                return False
    return True


def nofail_violation(X, replay):
    """a disagreement between code and model on which the code still agrees with the reference (or the result
    is unspecified): recorded (at most three per run), and the later streams still run -- a unit on which the
    code fails outright may only come up there"""
    X.nofail_seen += 1
    if X.nofail_recorded < 3 and len(X.ck.violations) < 5:
        X.ck.violation(replay, nofail=True)
        X.nofail_recorded += 1


def go_on(X):
    return len(X.ck.violations) == X.nofail_recorded


def classify(X, text, r, m, s):
    """the recorded finding a (real = model) != reference disagreement belongs to, or None"""
    ev, fl = m.notes, s.notes
    if s.err == "redefinitionSpace" and r.err != "redefinition":
        return "macroequal-ignores-space"
    # the model's ghost events are lost when its run ends in a diagnostic: the reference's informational flags
    # (the same conditions seen from the standard's side) and, for #pragma, the text itself stand in
    if "pragmaPeek" in ev or pragma_names_funclike(text):
        return "pragma-funclike-lookahead"
    if "dirInPeek" in ev or "dirAfterName" in fl:
        return "directive-between-name-and-paren"
    if "crossInvocation" in fl or "depthConf" in ev:
        return "depth-count-confusion"
    if ("strNested" in ev or "strOfInvocation" in fl) and only_strings_differ(X, r, s, False):
        return "stringize-nested-call"
    if ("emptySpace" in ev or "emptyWithSpace" in fl) and only_strings_differ(X, r, s, True):
        return "empty-expansion-space"
    return None


def directive_after_text(text):
    seen_text = False
    for ln in text.split("\n"):
        if re.match(r"\s*#", ln):
            if seen_text and re.match(r"\s*#\s*(define|undef)\b", ln):
                return True
        elif ln.strip():
            seen_text = True
    return False


def theorem_class(text):
    """which proved model = reference statement covers the unit:
    'object-like-total' = every macro is object-like and every directive precedes the first text line (the
    initial state after the definitions is `Good`: CprocVerif.C12.object_like_correct_total, no fuel hypothesis);
    'object-like' = every macro is object-like (each text segment between directives starts in a `Good` state);
    None = function-like macros occur (component theorems only)."""
    seen_text = False
    later_directive = False
    for ln in text.split("\n"):
        m = re.match(r"\s*#\s*(\w*)", ln)
        if m:
            if m.group(1) == "define" and re.match(r"\s*#\s*define\s+[A-Za-z_]\w*\(", ln):
                return None
            if seen_text and m.group(1) in ("define", "undef", "pragma"):
                later_directive = True
        elif ln.strip():
            seen_text = True
    return "object-like" if later_directive else "object-like-total"


def pragma_names_funclike(text):
    """a #pragma line that mentions a function-like macro defined before it"""
    funs = set()
    for ln in text.split("\n"):
        m = re.match(r"\s*#\s*define\s+([A-Za-z_]\w*)\(", ln)
        if m:
            funs.add(m.group(1))
        elif re.match(r"\s*#\s*pragma\b", ln) and funs & set(re.findall(r"[A-Za-z_]\w*", ln)):
            return True
    return False


def one(X, text, plain=True):
    """run one text through everything (used by the shrinker)"""
    t = text.encode("latin-1") if isinstance(text, str) else text
    out = lexgen.run_sharded([X.ck.drv_path()], ["pp " + hx(t), "ref " + hx(t)], shards=1)
    return (run_real(X, [t], "pp", plain=plain)[0], parse_drv(out[0]), parse_drv(out[1]))


def examine(X, texts, label, expect=None, asan=None):
    import time
    t0 = time.time()
    try:
        return examine1(X, texts, label, expect, asan)
    finally:
        X.secs[label] = round(X.secs.get(label, 0) + time.time() - t0, 1)
        if os.environ.get("C12_TIMING"):
            print("stage", label, X.secs[label], file=__import__("sys").stderr)


def examine1(X, texts, label, expect=None, asan=None):
    """K-A three-way on `texts` (str).  The plain build of the harness runs every input in both modes; the
    ASan+UBSan build runs the first `asan` inputs (all when None) in `pp` mode: a sanitizer report is a result."""
    ck = X.ck
    bs = [t.encode("latin-1") for t in texts]
    R = run_real(X, bs, "pp", plain=True)
    Rn = run_real(X, bs, "ppnl", plain=True)
    na = len(bs) if asan is None else min(asan, len(bs))
    Ra = run_real(X, bs[:na], "pp")
    for i in range(na):
        X.ninputs["under ASan+UBSan"] = X.ninputs.get("under ASan+UBSan", 0) + 1
        if Ra[i].crash is not None or Ra[i].toks != R[i].toks or Ra[i].err != R[i].err:
            R[i] = Ra[i]
            if Ra[i].crash is None:
                R[i].crash = "sanitized and plain builds differ"
    M = run_drv(X, bs, "pp") if ck.drv_ok else None
    Mn = run_drv(X, bs, "ppnl") if ck.drv_ok else None
    S = run_drv(X, bs, "ref") if ck.drv_ok else None
    for i, t in enumerate(texts):
        ck.count((label, t))
        X.ninputs[label] = X.ninputs.get(label, 0) + 1
        if not label.startswith(("known:", "diagnostics", "replay", "corpus")):
            X.tclass["units"] = X.tclass.get("units", 0) + 1
            tc = theorem_class(t)
            if tc:
                X.tclass[tc] = X.tclass.get(tc, 0) + 1
            # the class of function_like_correct_init, decided by the driver with the theorem's own tests
            if M is not None and getattr(M[i], "cls", None) in ("F", "O", "P"):
                X.tclass["whole:" + M[i].cls] = X.tclass.get("whole:" + M[i].cls, 0) + 1
                if not tc:
                    X.tclass["whole-only"] = X.tclass.get("whole-only", 0) + 1
        r, rn = R[i], Rn[i]
        for k, _, _ in r.toks:
            X.kinds_seen[k] = X.kinds_seen.get(k, 0) + 1
        X.outlen[min(len(r.toks) // 50, 20)] = X.outlen.get(min(len(r.toks) // 50, 20), 0) + 1
        if r.err:
            X.errs[r.err.split(".")[0]] = X.errs.get(r.err.split(".")[0], 0) + 1
        if M is None:
            continue
        m, mn, s = M[i], Mn[i], S[i]
        if m.err == "fuel" or mn.err == "fuel" or s.err == "fuel":
            X.ninputs["too-large(skipped)"] = X.ninputs.get("too-large(skipped)", 0) + 1
            continue
        if (r.crash is not None or rn.crash is not None) and m.err is not None and directive_after_text(t):
            # the model stops with a diagnostic (its ghost events are lost), the code dies, and a directive lies
            # behind the first text line: a directive was reached inside an invocation (undefined, 6.10.3p11;
            # the use-after-free is the C19 finding undef-during-argument-collection)
            s.notes = set(s.notes) | {"dirInArgs"}
        if (getattr(m, "cls", None) or "").startswith("X"):
            # the unit is in the class of the whole-stream theorem, but one of the two gaps between the theorem and
            # the unit is open on it (evaluated by the driver): `Xref-`: the reference on the table the model built
            # and the text after the directives differs from the reference on the whole unit -- the recorded
            # finding macroequal-ignores-space when the reference rejects a redefinition the model accepts;
            # `Xmodel-`: the model's run from the state after the directives differs from its run on the unit
            if m.cls.startswith("Xref-") and s.err in ("redefinitionSpace", "redefinition"):
                X.tclass["gap:redefinition (macroequal-ignores-space)"] = \
                    X.tclass.get("gap:redefinition (macroequal-ignores-space)", 0) + 1
            else:
                nofail_violation(X, {"kind": "theorem-unit-gap", "input": t, "input_hex": hx(bs[i]), "set": label,
                                     "class": m.cls, "model": show(X, m.toks) + (" !" + m.err if m.err else ""),
                                     "reference": show(X, s.toks) + (" !" + s.err if s.err else ""),
                                     "theorem": "CprocVerif.C12.function_like_correct_total",
                                     "what": "the whole-stream theorem speaks about the state after the leading "
                                             "directives; on this unit that state does not stand for the unit"})
                continue
        if getattr(m, "cls", None) in ("F", "O", "P") and s.err is None and (m.err is not None or m.keys(X) != s.keys(X)):
            # the unit is in the class of function_like_correct_total (decided by the theorem's own tests on the
            # table the MODEL builds), the reference accepts its directives too (so it builds the same table, up to
            # the recorded finding macroequal-ignores-space), and yet model and reference differ: the proved
            # statement and the evaluated definitions contradict each other
            nofail_violation(X, {"kind": "theorem-class-contradiction", "input": t, "input_hex": hx(bs[i]), "set": label,
                                 "class": m.cls, "model": show(X, m.toks) + (" !" + m.err if m.err else ""),
                                 "reference": show(X, s.toks) + (" !" + s.err if s.err else ""),
                                 "theorem": "CprocVerif.C12.function_like_correct_total",
                                 "what": "a unit inside the class of the whole-stream theorem on which the driver's "
                                         "model and reference do not deliver the same tokens"})
            continue
        if "dirInArgs" in s.notes or "dirInArgs" in m.notes:
            X.ninputs["undefined-6.10.3p11(skipped)"] = X.ninputs.get("undefined-6.10.3p11(skipped)", 0) + 1
            continue
        if "nestUnspec" in s.notes and r.crash is None and rn.crash is None:
            X.ninputs["unspecified-6.10.3.4p4(model vs code only)"] = \
                X.ninputs.get("unspecified-6.10.3.4p4(model vs code only)", 0) + 1
            if not (same_km(r, m) and same_km(rn, mn)):
                nofail_violation(X, {"kind": "correspondence", "input": t, "input_hex": hx(bs[i]), "set": label,
                              "impl": show(X, r.toks), "model": show(X, m.toks),
                              "what": "pp.c and Model/PP.lean disagree on a unit whose result 6.10.3.4p4 leaves "
                                      "unspecified", "theorem": "CprocVerif.C12.* are about Model/PP.lean"})
            continue
        if len(ck.violations) >= 5:
            continue
        for e in m.notes:
            X.events[e] = X.events.get(e, 0) + 1
        for e in s.notes:
            X.events["ref:" + e] = X.events.get("ref:" + e, 0) + 1
        # --- the ok predicate on the real output
        why = agrees_with_ref(X, r, s)
        if why is None:
            rnk = [(k, l) for k, l, _ in rn.toks if k not in (X.TEOF, X.TNEWLINE)]
            if rn.crash is not None or (rn.err is None) != (s.err is None) or (s.err is None and rnk != s.keys(X)):
                why = "with PPNEWLINE set (-E): " + (agrees_with_ref(X, rn, s) or "differs")
        km = same_km(r, m) and same_km(rn, mn)
        if why is not None:
            fid = classify(X, t, r, m, s) if km else None
            if fid is not None and (expect is None or fid in expect or True):
                X.known[fid] = X.known.get(fid, 0) + 1
                if ck.known(fid):
                    ck.report({}, fid=fid)
                    continue
            small, why2 = t, why
            if True:
                keep_balanced = defs_balanced(t)

                def bad(c):
                    if keep_balanced and not defs_balanced(c):
                        return False
                    rr, mm, ss = one(X, c)
                    if ss.err == "fuel" or mm.err == "fuel" or ss.notes & {"dirInArgs", "nestUnspec"}:
                        return False
                    w = agrees_with_ref(X, rr, ss)
                    return w is not None and (classify(X, c, rr, mm, ss) if same_km(rr, mm) else None) == fid
                if r.crash is None and rn.crash is None and why.startswith("with PPNEWLINE") is False:
                    small = shrink_text(t, bad, 250)
                    rr, mm, ss = one(X, small)
                    why2 = agrees_with_ref(X, rr, ss) or why
                    r, m, s = rr, mm, ss
            ck.report({"kind": "ok-predicate", "input": small, "input_hex": hx(small.encode("latin-1")),
                       "original_input": t if small != t else None, "why": why2,
                       "impl": show(X, r.toks) + (" !" + r.err if r.err else ""),
                       "reference": show(X, s.toks) + (" !" + s.err if s.err else ""),
                       "model": show(X, m.toks) + (" !" + m.err if m.err else ""),
                       "model_agrees_with_impl": km, "finding": fid, "set": label,
                       "reproduce": "printf '%%s' %r | cproc-qbe -E" % small,
                       "what": "the expanded token stream of the real preprocessor is not the C11 6.10.3 sequence"},
                      fid=fid)
            continue
        if not km:
            if X.nofail_recorded >= 3:
                X.nofail_seen += 1
                continue
            which = "pp" if not same_km(r, m) else "ppnl"
            rr, mm = (r, m) if which == "pp" else (rn, mn)
            def bad2(c):
                cb = c.encode("latin-1")
                return not same_km(run_real(X, [cb], which, plain=True)[0], run_drv(X, [cb], which)[0])
            small = shrink_text(t, bad2, 200) if rr.crash is None else t
            cb = small.encode("latin-1")
            rr, mm = run_real(X, [cb], which, plain=True)[0], run_drv(X, [cb], which)[0]
            nofail_violation(X, {"kind": "correspondence", "mode": which, "input": small, "input_hex": hx(cb),
                          "impl": show(X, rr.toks) + (" !" + str(rr.err) if rr.err else "") + (" crash" if rr.crash else ""),
                          "model": show(X, mm.toks) + (" !" + mm.err if mm.err else ""), "set": label,
                          "what": "pp.c and Model/PP.lean disagree (token, space flag or diagnostic class) although the "
                                  "implementation's stream equals the C11 6.10.3 reference",
                          "theorem": "CprocVerif.C12.* are about Model/PP.lean, which no longer describes pp.c"})
    return R, M, S


# ----------------------------------------------------------------------------- shrinking
TOKRE = re.compile(r'''\s+|/\*.*?\*/|[A-Za-z_]\w*|\.?\d(?:[eEpP][+-]|[\w.])*|L?"(?:\\.|[^"\\])*"|L?'(?:\\.|[^'\\])*'|'''
                   r'''\.\.\.|<<=|>>=|->|\+\+|--|<<|>>|<=|>=|==|!=|&&|\|\||[-+*/%&^|]=|##|.''', re.S)


def ddmin(items, bad, budget):
    n = 2
    while len(items) >= 2 and budget[0] > 0:
        chunk = max(1, len(items) // n)
        reduced = False
        i = 0
        while i < len(items) and budget[0] > 0:
            cand = items[:i] + items[i + chunk:]
            budget[0] -= 1
            if cand and bad(cand):
                items = cand
                n = max(n - 1, 2)
                reduced = True
            else:
                i += chunk
        if not reduced:
            if chunk == 1:
                break
            n = min(len(items), n * 2)
    return items


def shrink_text(text, bad, budget=300):
    """delta debugging: lines first, then the tokens of each line, then lines again"""
    b = [budget]
    lines = text.split("\n")
    if lines and lines[-1] == "":
        lines.pop()
    lines = ddmin(lines, lambda ls: bad("\n".join(ls) + "\n"), b)
    for _ in range(2):
        for k in range(len(lines)):
            if b[0] <= 0:
                break
            toks = [m.group(0) for m in TOKRE.finditer(lines[k])]
            if len(toks) < 2:
                continue

            def bad_line(ts, k=k):
                return bad("\n".join(lines[:k] + ["".join(ts)] + lines[k + 1:]) + "\n")
            lines[k] = "".join(ddmin(toks, bad_line, b))
        if len(lines) > 1:
            lines = ddmin(lines, lambda ls: bad("\n".join(ls) + "\n"), b)
    return "\n".join(lines) + "\n"


# ----------------------------------------------------------------------------- reference vs gcc/clang
def cpp_run(cmd, path):
    r = subprocess.run(cmd + [path], stdout=subprocess.PIPE, stderr=subprocess.PIPE)
    return r.returncode, r.stdout[:400000], r.stderr[:2000]


GCC = ["gcc", "-E", "-P", "-undef", "-nostdinc", "-std=c11", "-pedantic-errors", "-x", "c"]
CLANG = ["clang", "-E", "-P", "-undef", "-nostdinc", "-std=c11", "-pedantic-errors", "-Wno-pragma-once-outside-header", "-x", "c"]


def validate_spec(X, texts, label):
    """Spec/MacroRef.lean vs gcc and clang (output re-lexed by the scanner model).  A disagreement of the
    reference with BOTH compilers means reference or generator is wrong: Broken, never a violation."""
    ck = X.ck
    from shutil import which
    if not ck.drv_ok or not which("gcc"):
        ck.notes.append("gcc not found or driver missing: reference validation skipped")
        return
    have_clang = bool(which("clang"))
    d = os.path.join(ck.scratch(), "cpp-" + label)
    os.makedirs(d, exist_ok=True)
    S0 = run_drv(X, [t.encode("latin-1") for t in texts], "ref")
    # units whose expansion is huge are of no use here (and gcc would print megabytes)
    sel = [i for i in range(len(texts)) if S0[i].err != "fuel" and len(S0[i].toks) <= 2500]
    texts = [texts[i] for i in sel]
    S = [S0[i] for i in sel]
    bs = [t.encode("latin-1") for t in texts]
    paths = []
    for k, b in enumerate(bs):
        p = os.path.join(d, "t%d.c" % k)
        open(p, "wb").write(b)
        paths.append(p)
    with concurrent.futures.ThreadPoolExecutor(common.NPROC) as ex:
        G = list(ex.map(lambda p: cpp_run(GCC, p), paths))
        C = list(ex.map(lambda p: cpp_run(CLANG, p), paths)) if have_clang else [None] * len(paths)

    def strip_pragmas(out):
        return b"\n".join(l for l in out.split(b"\n") if not l.lstrip().startswith(b"#pragma")) + b"\n"
    # the compilers' output contains no macro any more: the real scanner (through next(), which converts
    # keywords) re-lexes it much faster than the scanner model (`lex` mode of the driver) would
    # (raw scan(): a line of the output may well begin with '#'; compared by spelling)
    GL = run_real(X, [strip_pragmas(g[1]) for g in G], "raw", plain=True)
    CL = run_real(X, [strip_pragmas(c[1]) for c in C], "raw", plain=True) if have_clang else None

    def spellings(res):
        return [l if l is not None else X.spell.get(X.kname.get(k, ""), "?").encode() for k, l in res.keys(X)]
    n = dis = 0
    for i, t in enumerate(texts):
        s = S[i]
        if s.err in ("hashhash", "unsupported"):
            continue           # valid C outside the implemented subset: nothing to validate
        if s.err == "fuel" or s.notes & {"nestUnspec", "dirInArgs"}:
            X.ninputs["spec-validation:unspecified-or-undefined(skipped)"] = \
                X.ninputs.get("spec-validation:unspecified-or-undefined(skipped)", 0) + 1
            continue
        def verdict(rc, lexed):
            if rc != 0:
                return ("error",)
            return ("ok", spellings(lexed))
        vs = ("error",) if s.err is not None else ("ok", spellings(s))
        vg = verdict(G[i][0], GL[i])
        vc = verdict(C[i][0], CL[i]) if have_clang else vg
        n += 1
        if vs == vg or vs == vc:
            if vg != vc:
                dis += 1
            continue
        if vg != vc:
            dis += 1
            continue       # the two compilers disagree with each other: no oracle for this unit
        raise common.Broken("Spec/MacroRef.lean disagrees with gcc and clang on %r: reference %s%s, gcc/clang %s" % (
            t, show(X, s.toks, 40), " !" + s.err if s.err else "",
            "error: " + G[i][2].decode("latin-1")[:300] if vg == ("error",) else show(X, GL[i].toks, 40)))
    ck.cov["spec_validated_against_gcc_clang"] = ck.cov.get("spec_validated_against_gcc_clang", 0) + n
    ck.cov["spec_validation_gcc_clang_disagree"] = ck.cov.get("spec_validation_gcc_clang_disagree", 0) + dis


# ----------------------------------------------------------------------------- K-B
def run_kb(X, progs):
    """IL(P) == IL(gcc -E -P P), byte for byte"""
    ck = X.ck
    d = os.path.join(ck.scratch(), "kb")
    os.makedirs(d, exist_ok=True)

    def job(k):
        p = progs[k].encode()
        a = subprocess.run([X.cproc], input=p, stdout=subprocess.PIPE, stderr=subprocess.PIPE)
        path = os.path.join(d, "p%d.c" % k)
        open(path, "wb").write(p)
        g = subprocess.run(GCC + [path], stdout=subprocess.PIPE, stderr=subprocess.PIPE)
        if g.returncode != 0:
            return ("gcc-rejects", g.stderr.decode("latin-1")[-400:], None, None)
        b = subprocess.run([X.cproc], input=g.stdout, stdout=subprocess.PIPE, stderr=subprocess.PIPE)
        return ("ok", a, b, g.stdout)
    with concurrent.futures.ThreadPoolExecutor(common.NPROC) as ex:
        res = list(ex.map(job, range(len(progs))))
    bad_gen = 0
    for k, rv in enumerate(res):
        ck.count(("kb", progs[k]))
        X.ninputs["K-B programs"] = X.ninputs.get("K-B programs", 0) + 1
        if rv[0] != "ok":
            raise common.Broken("generated program is rejected by gcc -E: %s\n%s" % (rv[1], progs[k]))
        a, b, pre = rv[1], rv[2], rv[3]
        if b.returncode != 0:
            bad_gen += 1
            if a.returncode != 0:
                raise common.Broken("generated program is not valid C (cproc-qbe rejects its preprocessed text): %s\n%s"
                                    % (b.stderr.decode("latin-1")[-300:], pre.decode("latin-1")))
        if len(ck.violations) >= 5:
            continue
        if a.returncode != b.returncode or a.stdout != b.stdout:
            def bad(c):
                cb = c.encode()
                path = os.path.join(d, "s.c")
                open(path, "wb").write(cb)
                g = subprocess.run(GCC + [path], stdout=subprocess.PIPE, stderr=subprocess.PIPE)
                if g.returncode != 0:
                    return False
                y = subprocess.run([X.cproc], input=g.stdout, stdout=subprocess.PIPE, stderr=subprocess.PIPE)
                if y.returncode != 0:
                    return False
                x = subprocess.run([X.cproc], input=cb, stdout=subprocess.PIPE, stderr=subprocess.PIPE)
                return x.returncode != 0 or x.stdout != y.stdout
            small = shrink_text(progs[k], bad, 150)
            rr, mm, ss = one(X, small) if ck.drv_ok else (None, None, None)
            fid = classify(X, small, rr, mm, ss) if rr is not None and same_km(rr, mm) and agrees_with_ref(X, rr, ss) else None
            ck.report({"kind": "K-B", "input": small, "original_input": progs[k],
                       "cproc_status_on_P": a.returncode, "cproc_stderr_on_P": a.stderr.decode("latin-1")[-300:],
                       "what": "compiling the program and compiling its fully macro-expanded text (gcc -E -P) give "
                               "different results", "finding": fid,
                       "reproduce": "cproc-qbe < P ; gcc -E -P -undef -nostdinc P | cproc-qbe"}, fid=fid)
    return bad_gen


# ----------------------------------------------------------------------------- main
def load_kinds():
    import importlib.util
    p = os.path.join(common.VERIF, "tools", "gen_c13.py")
    spec = importlib.util.spec_from_file_location("gen_c13", p)
    mod = importlib.util.module_from_spec(spec)
    spec.loader.exec_module(mod)
    kinds = mod.table_tokenkinds(common.REPO)
    tokstr = mod.table_tokstr(common.REPO, kinds)
    return kinds, tokstr


class Hist(dict):
    def __missing__(self, k):
        return 0


def run(ck):
    quick = ck.quick
    ck.cov["rule"] = (
        "K-A three-way per generated unit: real next() stream of pp.c (harness/pp_h.c, all of /repo linked, one "
        "forked child per input, ASan+UBSan; modes pp and ppnl) vs Model/PP.lean (kind, spelling, space flag, "
        "diagnostic class) vs Spec/MacroRef.lean (kind, spelling; class of diagnostic).  Units: macro sets of 1..12 "
        "macros (object-like, function-like with 0..4 parameters, variadic, '#', mutual and self reference, nested "
        "invocations, invocations split across lines, function-like names without '(', parentheses and commas in "
        "arguments, empty arguments, #undef/#define histories, #pragma/#line/null directives) inside free token "
        "sequences and inside valid C programs; a redefinition stream (6.10.3p2); a diagnostics stream; one small "
        "stream per recorded known finding; a stream of invocations that begin inside a replacement list and end "
        "after it with commas/parentheses produced by macros inside the arguments (open-invocations).  K-B: IL(P) = IL(gcc -E -P P) byte for byte with the freshly built "
        "cproc-qbe.  Reference validated against gcc and clang.  distinct_nontrivial = distinct input texts.")
    X = Ctx()
    X.ck = ck
    X.ninputs, X.errs, X.events, X.known, X.kinds_seen, X.outlen, X.secs, X.tclass = {}, {}, {}, {}, {}, {}, {}, {}
    X.nofail_seen, X.nofail_recorded = 0, 0
    try:
        kinds, tokstr = load_kinds()
    except Exception as e:  # noqa
        ck.violation({"kind": "correspondence-broken", "what": "the token tables can no longer be extracted from "
                      "cc.h/token.c: %s" % e}, nofail=True)
        return
    X.kname = {v: k for k, v in kinds}
    kn = dict(kinds)
    X.spell = {k: s for k, s in tokstr}
    X.TEOF, X.TNEWLINE, X.TSTRINGLIT = kn["TEOF"], kn["TNEWLINE"], kn["TSTRINGLIT"]
    ck.lean_build()
    if getattr(ck, "gen_error", None):
        ck.violation({"kind": "correspondence-broken", "what": ck.gen_error}, nofail=True)
        return
    if not ck.proofs_ok:
        ck.notes.append("Props.C12 does not build; searching for a failing input")
    try:
        X.harness = ck.build_harness("pp_h.c", common.REPO_UNITS)
        X.harness_plain = ck.build_harness("pp_h.c", common.REPO_UNITS, sanitize=False, name="pp_h_plain")
    except CompileError as e:
        ck.harness_broken("pp_h.c", e)
        return
    X.cproc = ck.build_cproc_qbe()
    rng = ck.rng
    H = Hist()

    if ck.replay:
        # bin/check C12 --replay <file>: only the unit of a recorded replay (field "input"), all three ways
        import json
        rp = json.load(open(ck.replay))
        unit = rp.get("input") or rp.get("original_input")
        if unit is None:
            raise common.Broken("replay file has no input")
        examine(X, [unit], "replay")
        if rp.get("kind") == "K-B":
            run_kb(X, [unit])
        ck.cov["inputs_per_set"] = X.ninputs
        return
    # 1. corpus: witnesses of the repaired defects and hand-written units run first
    cdir = os.path.join(common.VERIF, "corpus", "C12")
    corpus = []
    if os.path.isdir(cdir):
        for f in sorted(os.listdir(cdir)):
            corpus.append(open(os.path.join(cdir, f), "rb").read().decode("latin-1"))
    if corpus:
        examine(X, corpus, "corpus")
        validate_spec(X, corpus, "corpus")

    # 2. main stream
    n_main = 1000 if quick else 8000
    cfg = Cfg()
    main = [gen_case(rng, cfg, H) for _ in range(n_main)]
    for k in range(0, len(main), 4000):
        if not go_on(X):
            break
        examine(X, main[k:k + 4000], "macro-sets", asan=200 if quick else 1000)
    ck.sample({"macro set": main[3][:600]})
    # 2b. object-like macro sets: the class of the strongest proved equivalence
    if go_on(X):
        cfg_o = Cfg(obj_only=True)
        examine(X, [gen_case(rng, cfg_o, H) for _ in range(150 if quick else 1200)], "object-like-macro-sets",
                asan=40 if quick else 300)
    # 2c. simple function-like sets: the class of CprocVerif.C12.function_like_correct_init (own generator state:
    #     the other streams are what they were before this one was added)
    if go_on(X):
        import random
        rng_s = random.Random("c12-simple-%r" % (rng.getstate()[1][0],))
        simple = [gen_simple(rng_s, H) for _ in range(150 if quick else 1200)]
        examine(X, simple, "simple-function-like-sets", asan=40 if quick else 300)
        ck.sample({"simple function-like set": simple[0][:600]})
    # 2d. redefinition of a macro that has been expanded (own generator state, as for 2c)
    if go_on(X):
        import random
        rng_r = random.Random("c12-reuse-%r" % (rng.getstate()[1][0],))
        reuse = [gen_reuse(rng_r, H) for _ in range(150 if quick else 1500)]
        examine(X, reuse, "redefine-after-use", asan=40 if quick else 300)
        ck.sample({"redefinition after use": reuse[0][:600]})
    # 2e. capacity (own generator state)
    if go_on(X):
        import random
        rng_c = random.Random("c12-capacity-%r" % (rng.getstate()[1][0],))
        cap = []
        while len(cap) < (60 if quick else 400):
            u = gen_capacity(rng_c, H)
            if len(u) <= 2500:
                cap.append(u)
        examine(X, cap, "capacity", asan=60 if quick else 400)
        ck.sample({"capacity": cap[0][:400]})
    # 3. redefinitions
    if go_on(X):
        red = [gen_redef(rng, H) for _ in range(200 if quick else 2500)]
        examine(X, [t for t, _ in red], "redefinitions", asan=60 if quick else 500)
        ck.sample({"redefinition": red[0][0]})
    # 4. diagnostics
    if go_on(X):
        errs = [gen_error(rng, H) for _ in range(200 if quick else 1200)]
        examine(X, sorted(set(t for t, _ in errs)), "diagnostics")
        cfg_e = Cfg(errors=0.2)
        examine(X, [gen_case(rng, cfg_e, H) for _ in range(120 if quick else 1500)], "macro-sets-with-wrong-argument-counts",
                asan=60 if quick else 500)
    # 5. known findings, on purpose
    if go_on(X):
        for fid, ts in KNOWN_STREAM.items():
            examine(X, ts, "known:" + fid, expect=[fid])
        cfg_k = Cfg(str_and_tok=True, unbalanced=True)
        examine(X, [gen_case(rng, cfg_k, H) for _ in range(100 if quick else 1500)], "macro-sets-unrestricted",
                asan=60 if quick else 500)
    # 5b. invocations that cross the end of a replacement list, punctuation from macros in the arguments (own
    #     generator state)
    if go_on(X):
        import random
        rng_o = random.Random("c12-open-%r" % (rng.getstate()[1][0],))
        opn = sorted(set(gen_open(rng_o, H) for _ in range(150 if quick else 1500)))
        examine(X, opn, "open-invocations", asan=60 if quick else 400)
        ck.sample({"open invocation": opn[0][:400]})
    # 6. valid programs: K-A and K-B
    progs = []
    if go_on(X):
        progs = [gen_program(rng, H) for _ in range(100 if quick else 1200)]
        examine(X, progs, "valid-programs", asan=50 if quick else 300)
        ck.sample({"valid program": progs[0][:900]})
    if go_on(X):
        import time
        t0 = time.time()
        X.ninputs["K-B programs whose expanded text cproc-qbe rejects"] = run_kb(X, progs)
        X.secs["K-B"] = round(time.time() - t0, 1)
    # 7. the reference itself against gcc and clang
    if go_on(X):
        vt = main[:400 if quick else 2500] + [t for t, _ in (red[:100 if quick else 600])] + \
            sorted(set(t for t, _ in errs)) + progs[:60 if quick else 300]
        t0 = time.time()
        validate_spec(X, vt, "gen")
        X.secs["validate_spec"] = round(time.time() - t0, 1)
    ck.cov["input_distribution"] = dict(sorted(H.items()))
    if X.nofail_seen:
        X.ninputs["units on which code and model differ while the code agrees with the reference"] = X.nofail_seen
    ck.cov["inputs_per_set"] = X.ninputs
    ck.cov["seconds_per_stage"] = X.secs
    n_units = max(1, X.tclass.get("units", 0))
    n_tot = X.tclass.get("object-like-total", 0)
    n_obj = n_tot + X.tclass.get("object-like", 0)
    n_wf, n_wo, n_wp = X.tclass.get("whole:F", 0), X.tclass.get("whole:O", 0), X.tclass.get("whole:P", 0)
    n_any = n_obj + X.tclass.get("whole-only", 0)
    ck.cov["theorem_class_coverage"] = {
        "generated_units": X.tclass.get("units", 0),
        "object_like_correct_total (all macros object-like, directives before the text)": n_tot,
        "object_like_correct per text segment (all macros object-like)": n_obj,
        "function_like_correct_init, table with function-like macros (tblOKb/textOKb evaluated by the driver "
        "on the table the model builds from the leading directives)": n_wf,
        "function_like_correct_init, object-like table": n_wo,
        "function_like_correct_total only (# parameter in replacement lists; arguments that name object-like macros "
        "or hold nested invocations; tblOKSb/textPb evaluated by the driver)": n_wp,
        "some whole-stream theorem": n_any,
        "in the class but the reference rejects a redefinition that the model accepts (macroequal-ignores-space)":
            X.tclass.get("gap:redefinition (macroequal-ignores-space)", 0),
        "fraction_total": round(n_tot / n_units, 4), "fraction_object_like": round(n_obj / n_units, 4),
        "fraction_function_like_whole_stream": round((n_wf + n_wp) / n_units, 4),
        "fraction_some_whole_stream_theorem": round(n_any / n_units, 4),
        "note": "the other units with function-like macros (`#`, `...`, empty "
                "arguments or replacement lists, directives after the first text line, names of function-like "
                "macros inside replacement lists) are covered by the component theorems (define_*, macroequal_*, "
                "split_args_correct, expandfunc_is_collect, ctxnext_delivers_flat, lazy_substitution_correct, "
                "function_like_step_correct, stringize_correct, painted_never_expands) and by the differential "
                "run, not by a proved whole-stream equivalence"}
    ck.cov["diagnostic_classes_hit"] = X.errs
    ck.cov["model_events_and_reference_flags"] = X.events
    ck.cov["known_finding_hits"] = X.known
    ck.cov["output_length_histogram_x50"] = {str(k): v for k, v in sorted(X.outlen.items())}
    ck.cov["token_kinds_in_output"] = len(X.kinds_seen)
    if not ck.proofs_ok and not ck.violations:
        ck.violation({"kind": "proof-broken", "theorem": "CprocVerif.Props.C12 (lake build failed)",
                      "log": ck.build_log[-3000:]}, nofail=True)
    ck.assumptions = [
        "tokenisation is property C13: the model and the reference take the token list of Model/Scan.lean",
        "the macro table is a dictionary (map.c is property C16/C20)",
        "units with a directive inside the arguments of an invocation (undefined, 6.10.3p11) and units that exceed "
        "the driver's fuel (expansions of more than 6000 tokens) are generated rarely and skipped (counted)",
        "gcc 12 and clang as oracles for the reading of 6.10.3 in Spec/MacroRef.lean (units on which the two "
        "disagree with each other are not used)",
    ]


META = {
    "category": "proof",
    "text": ("Lean 4 theorems (no bound on sizes) about a transliteration of pp.c's macro machinery (Model/PP.lean: "
             "define, undef, macroequal, the context stack with lazy parameter substitution, expand, expandfunc, "
             "stringize, peekparen, directive, next) and a reference written from C11 6.10.3 as a hide-set algorithm "
             "(Spec/MacroRef.lean): for every set of object-like macros, any mutual or self reference, the model's "
             "token stream IS the reference's (object_like_correct, with the hide-flag invariant hide_iff_active); "
             "every accepted definition is well formed (##, misplaced __VA_ARGS__, duplicate parameter, # without "
             "parameter are rejected); macroequal decides identity of definitions up to white space (6.10.3p2 full "
             "strength is refuted: known finding macroequal-ignores-space); the string built for #param is the "
             "6.10.3.2p2 spelling; the argument loops split at top-level commas with the variadic tail joined and "
             "stop at the matching parenthesis, also as executed inside exec (expandfunc_is_collect); every "
             "ctxnext() delivers the next token of the eagerly substituted stack and that substitution is the "
             "reference's subst (ctxnext_delivers_flat, lazy_substitution_correct); for one simple function-like "
             "invocation the model's new context equals the list the reference continues with "
             "(function_like_step_correct); for tables of object-like and simple function-like macros (at least one "
             "parameter, # parameter allowed when the parameter is not also used outside #, no ..., no empty "
             "replacement list, no function-like name inside a replacement list) and "
             "texts without directives whose invocations have the right number of non-empty arguments, the arguments "
             "naming object-like macros and holding nested invocations to any depth, the model's token stream IS the "
             "reference's (function_like_correct_partial; function_like_args_correct_partial: complete replacement of "
             "the arguments on the context stack interleaved with their collection = the reference's isolate-then-"
             "replace, painted names surviving rescanning) and the run terminates without a fuel hypothesis "
             "(function_like_terminates, function_like_correct_total; the class is decided by the executable tests "
             "tblOKb/textPb which the driver evaluates on every unit); object-like expansion terminates within an "
             "explicit fuel bound (object_like_terminates, object_like_correct_total); a surplus argument is rejected; painted "
             "identifiers are never expanded; more fuel never changes a completed result.  The full model=reference statement for "
             "function-like macros is stated and refuted by the recorded known findings.  Tied to /repo on every "
             "run: the real preprocessor's next() stream (all of /repo linked, one child per input, ASan+UBSan on a "
             "share) for generated macro sets inside free token sequences and valid C programs is compared with the "
             "model (kind, spelling, space flag, diagnostic class) and with the reference; IL(P) = IL(gcc -E -P P) "
             "byte for byte with the freshly built cproc-qbe; disagreements are shrunk by delta debugging."),
    "design_ref": "DESIGN.md section 4, C12",
    "note": ("Trusted: Lean kernel + propext/Classical.choice/Quot.sound; the hand-written model (tied by the "
             "differential run); the reading of 6.10.3 in Spec/MacroRef.lean (validated against gcc and clang on "
             "every run; for a function-like name that is first met without '(' inside an argument and invoked "
             "later, the reference follows the text of 6.10.3.4p2 and both compilers rather than Prosser's "
             "persistent hide sets, and reports when the two readings differ); the scanner model of C13 for "
             "tokenisation; the macro table as a dictionary (C16/C20).  Not proved: model = reference as a "
             "whole-stream statement outside the class above, i.e. with a parameter used both with # and outside, "
             "variadic macros, empty arguments or "
             "replacement lists, names of function-like macros inside replacement lists or not followed by '(', "
             "directives after the first text line (the ingredients are proved; checked by the run; the excluded "
             "classes include the known findings stringize-nested-call, empty-expansion-space, depth-count-confusion, "
             "pragma-funclike-lookahead, directive-between-name-and-paren); that the table the model builds from the "
             "#define lines is the table the reference builds (checked by the run); an explicit fuel bound for "
             "function-like expansion (existence of enough fuel is proved).  Out of domain: directives inside the arguments "
             "of an invocation (undefined, 6.10.3p11) and the 6.10.3.4p4 nesting case (unspecified)."),
    "technique": "Lean 4 proof (simulation of the context stack against the hide-set algorithm, invariants, "
                 "fun_induction on the definition loops, grind for monotonicity of the open-recursive bodies, kernel "
                 "evaluation of concrete witnesses) + three-way differential correspondence with delta-debugging "
                 "shrinker + K-B byte comparison of IL",
}

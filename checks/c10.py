"""C10 - constraint violations and unsupported features are diagnosed, never accepted.

Proof:   lean/CprocVerif/Props/C10.lean
         (1) catalogue coverage, regenerated from /repo on every run: every error/fatal/usage/tokencheck/
             expect call of the current sources (Gen/ErrorSites) has an entry of catalogue/c10.json
             (Gen/C10Catalogue), no entry is stale, no duplicates, class counts;
         (2) acceptance soundness of the modelled front-end components: `model x = ok -> the C11
             constraint holds`, for all inputs (operators 6.5.x, assignment, calls, casts, sizeof, linkage
             histories, duplicate case constants, member/bit-field/enum constraints, literals).
Tie:     K-B  every violating template of every class-0 catalogue entry, stand-alone and instantiated
              at every feasible position (file scope, block scope, nested statement, nested expression,
              unevaluated operand, inside a macro expansion, late in the unit) of generated otherwise-valid
              host programs (gen/cprog.py), compiled by the freshly built cproc-qbe: status must be
              non-zero with a diagnostic on stderr (`file:line:col: error: ...` or `cproc-qbe: ...`); the
              stand-alone unit must produce the catalogued message.  Status 0 => VIOLATION with the shrunk
              program.  gcc/clang -std=c11 -pedantic-errors must reject each language-level template
              (otherwise the catalogue is wrong: broken check, never a violation).
         unsupported-feature stream: generated uses of volatile stores, long double at run time, _Atomic,
              _Complex, inline assembly, #if/#ifdef/#include/#error/##, aggregate va_arg.
         mutation stream (independent of the catalogue): constraint-violating rewrites of valid generated
              programs that BOTH gcc and clang reject, restricted to rewrite kinds whose diagnostic exists
              in the current sources.
"""
import hashlib
import json
import os
import re
import shutil
import subprocess
import sys

from . import common, c10cat
from .common import Broken

sys.path.insert(0, os.path.join(common.VERIF, "tools"))
import gen_c10  # noqa: E402

sys.path.insert(0, common.VERIF)
from gen import cprog  # noqa: E402

CORPUS = os.path.join(common.VERIF, "corpus", "C10")
GCC = "gcc -std=c11 -pedantic-errors -fsyntax-only"
CLANG = "clang-14 -std=c11 -pedantic-errors -fsyntax-only"
DIAG_ANY = re.compile(r"^[^:\n]+:\d+:\d+: error: \S|^[^:\n ]+: \S", re.M)



# ----------------------------------------------------------------------------- running many compilations
class Batch:
    """Run one command on many files with `xargs -P` (forking from the Python process is the bottleneck
    otherwise).  Results: list of (status, stderr text)."""

    def __init__(self, ck):
        self.ck = ck
        self.n = 0
        self.runs = 0
        self.hangs = 0

    def run(self, cmd, texts, chunk=6000):
        out = []
        for i in range(0, len(texts), chunk):
            out += self._run(cmd, texts[i:i + chunk])
        return out

    def _run(self, cmd, texts):
        if not texts:
            return []
        self.n += 1
        d = os.path.join(self.ck.scratch(), "b%d" % self.n)
        os.makedirs(d)
        for i, t in enumerate(texts):
            with open(os.path.join(d, "%d.c" % i), "wb") as f:
                f.write(t if isinstance(t, bytes) else t.encode("utf-8"))
        script = 'for f; do timeout 15 $CMD "$f" >/dev/null 2>"$f.err"; echo "$f $?"; done'
        names = "".join(os.path.join(d, "%d.c" % i) + "\n" for i in range(len(texts)))
        r = subprocess.run(["xargs", "-P", str(common.NPROC), "-n", "24", "sh", "-c", script, "sh"],
                           input=names, stdout=subprocess.PIPE, stderr=subprocess.PIPE, text=True,
                           env=dict(os.environ, CMD=cmd))
        rc = {}
        for ln in r.stdout.splitlines():
            f, c = ln.rsplit(" ", 1)
            rc[f] = int(c)
        if len(rc) != len(texts):
            raise Broken("xargs run lost results: %d of %d (%s)" % (len(rc), len(texts), r.stderr[-300:]))
        res = []
        for i in range(len(texts)):
            f = os.path.join(d, "%d.c" % i)
            c = rc[f]
            with open(f + ".err", "rb") as g:
                err = g.read(4000).decode("utf-8", "replace")
            if c == 124 and self.hangs < 3:
                # timeout under load: once more, alone; a second timeout is a result (a hang)
                try:
                    p = subprocess.run(cmd.split() + [f], stdout=subprocess.DEVNULL, stderr=subprocess.PIPE, timeout=40)
                    c, err = p.returncode, p.stderr.decode("utf-8", "replace")[:4000]
                except subprocess.TimeoutExpired:
                    self.hangs += 1
                    c, err = 124, "timeout: no result within 40 s"
            elif c == 124:
                err = "timeout: no result within 15 s (and three earlier units did not end within 40 s either)"
            res.append((c, err))
        self.runs += len(texts)
        shutil.rmtree(d, True)
        return res


def one(cmd, text, path, timeout=60):
    with open(path, "wb") as f:
        f.write(text if isinstance(text, bytes) else text.encode("utf-8"))
    try:
        p = subprocess.run(cmd.split() + [path], stdout=subprocess.DEVNULL, stderr=subprocess.PIPE, timeout=timeout)
    except subprocess.TimeoutExpired:
        return 124, "timeout: no result within %d s" % timeout
    rc = p.returncode if p.returncode >= 0 else 128 - p.returncode       # as a shell reports a signal
    return rc, p.stderr.decode("utf-8", "replace")


# ----------------------------------------------------------------------------- which site fired
def fmt_regex(site):
    """regex for the diagnostic text a site's format string produces"""
    fmt = site[2]
    m = re.match(r"expected (\S+) (.*)$", fmt)
    if m is not None and (m.group(1).startswith("T") or m.group(1) == "kind"):
        tail = m.group(2)
        if tail.startswith("<expr:"):
            return r"expected .*, saw ", 0
        return r"expected .* " + re.escape(tail) + ", saw ", len(tail)
    if fmt.startswith("<expr:"):
        return None, 0
    out, lit = [], 0
    for part in re.split(r"(%%|%[-.*0-9]*(?:ll|l|z|h)?[a-zA-Z])", fmt):
        if part == "%%":
            out.append("%")
        elif part.startswith("%") and len(part) > 1:
            out.append(".*")
        else:
            out.append(re.escape(part))
            lit += len(part)
    return "".join(out), lit


class SiteMatcher:
    def __init__(self, sites):
        rows = []
        for s in sites:
            rx, lit = fmt_regex(s)
            if s[1] in ("tokencheck", "expect") and "%s" in s[2]:
                lit = 4         # the generic wrapper: only when no calling site's text matches
            if rx and lit >= 4:
                rows.append((lit, re.compile(rx), s))
        rows.sort(key=lambda r: -r[0])
        self.rows = rows
        self.cache = {}

    def fired(self, stderr):
        """key string of the most specific site whose format matches the diagnostic (evidence only)"""
        msg = stderr.strip().splitlines()[-1] if stderr.strip() else ""
        if re.match(r"^[^:]+:\d+:\d+: error: ", msg):
            msg = re.sub(r"^[^:]+:\d+:\d+: error: ", "", msg)
        else:
            msg = re.sub(r"^[^: ]+: ", "", msg)
        k = msg[:60]
        if k in self.cache:
            return self.cache[k]
        for _, rx, s in self.rows:
            if rx.search(msg):
                self.cache[k] = "%s:%s: %s" % (s[0], s[1], s[2][:50])
                return self.cache[k]
        self.cache[k] = "?: " + msg[:50]
        return self.cache[k]


# ----------------------------------------------------------------------------- hosts
def make_hosts(ck, bt, cc, n):
    """n generated otherwise-valid programs accepted by cproc-qbe, gcc and clang (+ the fixed one)"""
    texts = [open(os.path.join(common.VERIF, "tools", "c10_host.c")).read()]
    tries = 0
    hosts = []
    while len(hosts) < n and tries < 6:
        tries += 1
        cand = [cprog.generate(ck.rng.getrandbits(48), charsigned=True, size=ck.rng.choice([0.4, 0.6, 0.9]))[0]
                for _ in range(n + 4)] + texts
        texts = []
        r1 = bt.run(cc, cand)
        r2 = bt.run(GCC, cand)
        r3 = bt.run(CLANG, cand)
        for t, a, b, c in zip(cand, r1, r2, r3):
            if a[0] == 0 and b[0] == 0 and c[0] == 0:
                h = c10cat.Host(t)
                if h.block_pts and h.file_pts:
                    hosts.append(h)
            elif a[0] != 0 and b[0] == 0 and c[0] == 0:
                ck.notes.append("host rejected by cproc-qbe only (not this property; discarded): %s" % a[1][:120])
    if len(hosts) < 2:
        raise Broken("could not generate valid host programs")
    return hosts[:n + 1]


# ----------------------------------------------------------------------------- shrinking
def ddmin(lines, keep, test, budget=160):
    """delta debugging over the lines not in `keep` (indices); test(list of lines) -> still failing?"""
    idx = [i for i in range(len(lines)) if i not in keep]
    n = 2
    runs = 0
    cur = set(idx)

    def build(sel):
        return [ln for i, ln in enumerate(lines) if i in keep or i in sel]
    while len(cur) >= 1 and runs < budget:
        items = sorted(cur)
        size = max(1, len(items) // n)
        chunks = [items[i:i + size] for i in range(0, len(items), size)]
        reduced = False
        for ch in chunks:
            trial = cur - set(ch)
            runs += 1
            if test(build(trial)):
                cur = trial
                n = max(n - 1, 2)
                reduced = True
                break
            if runs >= budget:
                break
        if not reduced:
            if size == 1:
                break
            n = min(len(items), n * 2)
    return build(cur)


class Judge:
    def __init__(self, ck, cc, matcher):
        self.ck, self.cc, self.matcher = ck, cc, matcher
        self.tmp = os.path.join(ck.scratch(), "j.c")
        self.by_site = {}          # firing site -> count
        self.by_pos = {}
        self.accepted_sites = set()
        self.abnormal = 0
        self.accepted = 0

    def bump(self, d, k):
        d[k] = d.get(k, 0) + 1

    def shrink(self, text, oracle, want_rc=0, fragment=""):
        """smaller program that cproc-qbe still accepts (ends with status want_rc) and (oracle) gcc and clang
        still reject"""
        if isinstance(text, bytes):
            return text.decode("latin-1")
        lines = text.split("\n")
        frag = [x.strip() for x in fragment.split("\n") if x.strip()]
        keep = {i for i, ln in enumerate(lines) if "c10_" in ln or "C10_" in ln or any(x in ln for x in frag)}

        import time
        deadline = time.time() + 45          # shrinking is a convenience: bounded

        def test(ls):
            if time.time() > deadline:
                return False
            t = "\n".join(ls) + "\n"
            if one(self.cc, t, self.tmp, 10)[0] != want_rc:
                return False
            if oracle:
                return one(GCC, t, self.tmp, 20)[0] != 0 and one(CLANG, t, self.tmp, 20)[0] != 0
            return True
        if len(lines) > 600:
            return text
        try:
            return "\n".join(ddmin(lines, keep, test)) + "\n"
        except Exception:
            return text

    def result(self, stream, sitekey, label, pos, text, res, oracle=True, fid=None, standalone=None, extra=None,
               fragment=""):
        """judge one compilation of a unit that must be rejected; returns True when it was"""
        rc, err = res
        self.bump(self.by_pos, "%s/%s" % (stream, pos))
        self.ck.count((stream, sitekey, label, pos))
        if rc == 0:
            self.accepted += 1
            if (stream, sitekey) in self.accepted_sites:
                return False        # one report per site / rewrite kind / finding class
            self.accepted_sites.add((stream, sitekey))
            prog = None
            if standalone is not None and one(self.cc, standalone, self.tmp)[0] == 0:
                prog = standalone if isinstance(standalone, str) else standalone.decode("latin-1")
            if prog is None:
                prog = self.shrink(text, oracle, 0, fragment) \
                    if stream in ("catalogue", "unsupported", "mutation") and pos != "standalone" else \
                    (text if isinstance(text, str) else text.decode("latin-1"))
            rep = {"kind": "accepted-violation", "stream": stream, "site": sitekey, "template": label,
                   "position": pos, "program": prog, "exit_status": 0,
                   "what": "cproc-qbe exits 0 on a unit that violates a constraint it checks / uses an "
                           "unsupported feature (diagnostic site %s)" % sitekey}
            if extra:
                rep.update(extra)
            self.ck.report(rep, fid=fid)
            return False
        if rc != 1 or not DIAG_ANY.search(err):
            self.abnormal += 1
            if ("abn", sitekey) not in self.accepted_sites:
                self.accepted_sites.add(("abn", sitekey))
                self.ck.report({"kind": "rejected-without-diagnostic", "stream": stream, "site": sitekey,
                                   "template": label, "position": pos,
                                   "program": self.shrink(text, oracle, rc) if stream == "mutation" else
                                   (text if isinstance(text, str) else text.decode("latin-1")),
                                   "exit_status": rc, "stderr": err[-600:],
                                   "what": "status %d / stderr is not a diagnostic" % rc}, fid=fid)
            return False
        self.bump(self.by_site, self.matcher.fired(err))
        return True


# ----------------------------------------------------------------------------- stream 0: corpus
def run_corpus(ck, bt, cc, judge):
    files = sorted(f for f in os.listdir(CORPUS) if f.endswith(".c")) if os.path.isdir(CORPUS) else []
    texts = [open(os.path.join(CORPUS, f)).read() for f in files]
    for f, t, res in zip(files, texts, bt.run(cc, texts)):
        m = re.search(r"fid:\s*(\S+)", t)
        msg = re.search(r"msg:\s*(.*?)\s*\*/", t)
        ok = judge.result("corpus", "corpus/C10/" + f, f, "alone", t, res, oracle=False,
                          extra={"finding": m.group(1) if m else None,
                                 "what": "fixed defect is back: witness corpus/C10/%s accepted" % f})
        if ok and msg and not re.search(msg.group(1), res[1]):
            ck.violation({"kind": "corpus-message", "file": "corpus/C10/" + f, "stderr": res[1][:300],
                          "expected": msg.group(1), "what": "witness rejected by a different diagnostic"}, nofail=True)
    ck.cov["corpus_files"] = len(files)


# ----------------------------------------------------------------------------- stream 1: the catalogue
def guard_catalogue(ck, bt, cat):
    """gcc/clang must reject every language-level template (stand-alone)"""
    items = []
    for e in cat["entries"]:
        for n, t in enumerate(e.get("templates", [])):
            items.append((e, n, t, c10cat.text_of(t, c10cat.standalone(t))))
    rg = bt.run(GCC, [x[3] for x in items])
    rc = bt.run(CLANG, [x[3] for x in items])
    stats = {"language_level": 0, "cproc_only": 0, "gcc_rejects": 0, "clang_rejects": 0}
    wrong = []
    for (e, n, t, _), g, c in zip(items, rg, rc):
        orc = t.get("oracle", "gcc")
        if orc == "gcc":
            stats["language_level"] += 1
            stats["gcc_rejects"] += g[0] != 0
            stats["clang_rejects"] += c[0] != 0
            if g[0] == 0 and c[0] == 0:
                wrong.append("%s #%d: gcc and clang accept %r" % (c10cat.key_str(e["site"]), n, t["code"][:80]))
        elif orc == "cproc-only":
            stats["cproc_only"] += 1
            if not t.get("reason"):
                wrong.append("%s #%d: cproc-only without a reason" % (c10cat.key_str(e["site"]), n))
        else:
            wrong.append("%s #%d: unknown oracle %r" % (c10cat.key_str(e["site"]), n, orc))
    ck.cov["catalogue_guard"] = stats
    if wrong:
        raise Broken("catalogue/c10.json is wrong (%d templates), e.g. %s" % (len(wrong), wrong[:3]))


def run_catalogue(ck, bt, cc, cat, hosts, judge, reps):
    rng = ck.rng
    jobs = []          # (entry, n, template, pos, text, standalone)
    for e in cat["entries"]:
        for n, t in enumerate(e.get("templates", [])):
            alone = c10cat.text_of(t, c10cat.standalone(t))
            jobs.append((e, n, t, "standalone", alone, alone))
            for pos in c10cat.positions_of(t):
                hs = hosts if len(hosts) <= reps else rng.sample(hosts, reps)
                for h in hs:
                    inst = c10cat.instantiate(t, h, pos, rng)
                    if inst is None:
                        continue
                    jobs.append((e, n, t, pos, c10cat.text_of(t, inst[0]), alone))
    res = bt.run(cc, [j[4] for j in jobs])
    per_site = {}
    mism = []
    for (e, n, t, pos, text, alone), r in zip(jobs, res):
        ks = c10cat.key_str(e["site"])
        oracle = t.get("oracle", "gcc") == "gcc" and not t.get("raw")
        ok = judge.result("catalogue", ks, "#%d %s" % (n, t["code"][:60]), pos,
                          text if t.get("raw") else text.decode("utf-8"), r, oracle=oracle, fragment=t["code"],
                          standalone=None if pos == "standalone" else (alone if t.get("raw") else alone.decode("utf-8")))
        st = per_site.setdefault(ks, [0, 0])
        st[0] += 1
        st[1] += ok
        if ok and pos == "standalone":
            if not c10cat.diag_ok(t, r[1]) or not re.search(t["msg"], r[1]):
                mism.append((ks, n, t["msg"], r[1].strip()[:200], c10cat.standalone(t)[:400]))
    if len(jobs) > 50:
        j = jobs[len(jobs) // 3]
        ck.sample({"site": c10cat.key_str(j[0]["site"]), "position": j[3], "unit_tail": j[4][-300:].decode("latin-1")})
    for ks, n, want, got, unit in mism[:3]:
        ck.violation({"kind": "template-misses-site", "site": ks, "template": n, "expected_message": want,
                      "stderr": got, "program": unit,
                      "theorem": "catalogue/c10.json <-> /repo: the stand-alone template is rejected, but not by "
                                 "the diagnostic it is catalogued for (the site's check moved or changed)",
                      "what": "catalogue template no longer reaches its diagnostic site"}, nofail=True)
    ck.cov["catalogue_stream"] = {"instantiations": len(jobs), "sites_exercised": len(per_site),
                                  "sites_all_rejected": sum(1 for a, b in per_site.values() if a == b),
                                  "base_message_mismatches": len(mism)}
    return per_site


# ----------------------------------------------------------------------------- stream 2: unsupported features
UNSUPPORTED_SITES = {
    "volatile store": [("qbe.c", "funcstore", "volatile store is not yet supported")],
    "long double at run time": [("qbe.c", "qbetype", "long double is not yet supported"),
                                ("qbe.c", "convert", "long double is not yet supported")],
    "_Atomic": [("decl.c", "typequal", "_Atomic type qualifier is not yet supported"),
                ("decl.c", "declspecs", "_Atomic is not yet supported")],
    "_Complex": [("decl.c", "declspecs", "_Complex is not yet supported")],
    "inline assembly": [("stmt.c", "stmt", "inline assembly is not yet supported")],
    "#if/#ifdef/#ifndef/#elif/#endif": [("pp.c", "directive", "#%s directive is not implemented" % d)
                                        for d in ("if", "ifdef", "ifndef", "elif", "endif")],
    "#include": [("pp.c", "directive", "#include directive is not implemented")],
    "#error": [("pp.c", "directive", "#error directive is not implemented")],
    "## operator": [("pp.c", "define", "'##' operator is not yet implemented")],
    "va_arg of aggregate type": [("qbe.c", "funcexpr", "va_arg with non-scalar type is not yet supported")],
    "bit-field in packed struct": [("decl.c", "addmember", "bit-field '%s' in packed struct is not supported")],
    "attribute in unsupported place": [("attr.c", "parseattr", "%sattribute '%s' is not supported here")],
}


def gen_unsupported(rng, n):
    """(feature, kind, decls, code, fid) fragments using an unsupported feature; kind as in the catalogue"""
    out = []
    scal = ["int", "char", "long", "unsigned short", "double", "float", "int *", "_Bool", "unsigned long long"]
    for _ in range(n):
        ty = rng.choice(scal)
        val = "0" if ty == "int *" else rng.choice(["1", "2", "c10_w"])
        pre = "static int c10_w;\n" if val == "c10_w" else ""
        k = rng.randrange(9)
        ptr = ty.endswith("*")

        def vd(name, suffix=""):       # a volatile-qualified object (or member / array element) of type ty
            return ("int *volatile %s%s;" if ptr else "volatile " + ty + " %s%s;") % (name, suffix)
        v = vd("c10_v")
        if k == 0:
            out.append(("volatile store", "stmt", pre + v, "c10_v = %s;" % val, None))
        elif k == 1 and ty not in ("int *", "_Bool", "double", "float"):
            out.append(("volatile store", "stmt", pre + v, "c10_v %s %s;" % (rng.choice(["+=", "-=", "|=", "<<="]), val), None))
        elif k == 2:
            out.append(("volatile store", "stmt", pre + ("int *volatile *c10_p;" if ptr else "volatile %s *c10_p;" % ty),
                        "*c10_p = %s;" % val, None))
        elif k == 3:
            out.append(("volatile store", "stmt", pre + "struct c10_vs { int c10_a; %s } c10_s;" % vd("c10_m"),
                        "c10_s.c10_m = %s;" % val, None))
        elif k == 4:
            out.append(("volatile store", "stmt", pre + vd("c10_a", "[3]"), "c10_a[%d] = %s;" % (rng.randrange(3), val), None))
        elif k == 5:
            out.append(("volatile store", "stmt", "struct c10_t { int c10_a; }; volatile struct c10_t c10_s; struct c10_t c10_u;",
                        rng.choice(["c10_s = c10_u;", "c10_s.c10_a = 1;"]), None))
        elif k == 6 and ty != "_Bool":
            op = rng.choice(["c10_v++;", "++c10_v;", "c10_v--;", "--c10_v;"])
            out.append(("volatile store", "stmt", v, op, None))
        elif k == 7:
            out.append(("volatile store", "expr", pre + v, "c10_v = %s" % val, None))
    # long double where code must be generated for it
    ld = "static long double c10_ld;\n"
    forms = [
        ("decl", "", "long double c10_x = %s;" % rng.choice(["1.0L", "2", "0.5"]), None),
        ("decl", "", "long double c10_f(long double c10_a) { return c10_a; }", None),
        ("decl", "", "double c10_f(long double c10_a) { return 1.0; }", None),
        ("stmt", ld, "c10_ld = c10_ld + 1;", None),
        ("stmt", ld, "c10_ld = 1;", None),
        ("stmt", ld + "static double c10_d;", "c10_d = c10_ld;", None),
        ("stmt", ld + "void c10_g(long double);", "c10_g(c10_ld);", None),
        ("stmt", "void c10_g(long double);", "c10_g(1);", None),
        ("stmt", "long double c10_g(void);", "c10_g();", None),
        ("expr", ld, "c10_ld * 2 > 1", None),
        ("expr", ld, "c10_ld ? 1 : 2", None),
        ("expr", ld, "(int)c10_ld", None),
        ("expr", "static double c10_d;", "c10_d + 1.0L", None),
        ("stmt", "static double c10_d;", "c10_d = (long double)c10_d;", None),
        ("stmt", "static float c10_d;", "c10_d = (long double)c10_d;", None),
        ("stmt", "static int c10_d;", "c10_d = (long double)c10_d;", None),
        ("stmt", "static double c10_d; static int c10_i;", "c10_i = (long double)c10_d > 1;", None),
        ("stmt", "", "long double c10_l = 1;", None),
    ]
    for kind, dec, code, fid in forms:
        out.append(("long double at run time", kind, dec, code, fid))
    for q in ["_Atomic int c10_x;", "_Atomic(long) c10_x;", "int *_Atomic c10_p;", "void c10_f(_Atomic int c10_a);",
              "struct c10_s { _Atomic char c10_a; };", "typedef _Atomic int c10_t;", "extern _Atomic double c10_x;",
              "_Atomic struct c10_s *c10_p;"]:
        out.append(("_Atomic", "decl", "", q, None))
    out.append(("_Atomic", "expr", "", "sizeof(_Atomic int)", None))
    out.append(("_Atomic", "expr", "", "(_Atomic int)1", None))
    for q in ["double _Complex c10_z;", "_Complex float c10_z;", "float _Complex c10_f(void);",
              "struct c10_s { double _Complex c10_z; };", "typedef long double _Complex c10_t;"]:
        out.append(("_Complex", "decl", "", q, None))
    out.append(("_Complex", "expr", "", "sizeof(double _Complex)", None))
    for q in ['__asm__("nop");', '__asm__ volatile ("" ::: "memory");', '__asm__("" : "=r"(c10_w) : "r"(1));',
              '__asm__ goto ("" :::: c10_l); c10_l: ;']:
        out.append(("inline assembly", "stmt", "static int c10_w;", q, None))
    for q in ["#if 1", "#if 0", "#ifdef C10_X", "#ifndef C10_X", "#elif 1", "#endif", "#if defined(C10_X) && 1"]:
        out.append(("#if/#ifdef/#ifndef/#elif/#endif", "line", "", q, None))
    for q in ["#include <stdio.h>", '#include "c10.h"', "#include C10_H"]:
        out.append(("#include", "line", "", q, None))
    for q in ["#error c10", "#error"]:
        out.append(("#error", "line", "", q, None))
    for q in ["#define C10_CAT(a, b) a##b", "#define C10_C a ## b", "#define C10_V(...) x ## __VA_ARGS__"]:
        out.append(("## operator", "line", "", q, None))
    va = "int c10_va(int c10_n, ...) { __builtin_va_list c10_ap; __builtin_va_start(c10_ap, c10_n); %s __builtin_va_end(c10_ap); return 0; }"
    for q in ["struct c10_s { int c10_a; }; " + va % "struct c10_s c10_x = __builtin_va_arg(c10_ap, struct c10_s);",
              "union c10_u { int c10_a; double c10_b; }; " + va % "union c10_u c10_x = __builtin_va_arg(c10_ap, union c10_u);",
              "struct c10_s { char c10_a[24]; }; " + va % "(void)__builtin_va_arg(c10_ap, struct c10_s);"]:
        out.append(("va_arg of aggregate type", "decl", "", q, None))
    out.append(("bit-field in packed struct", "decl", "", "struct __attribute__((packed)) c10_s { int c10_a : 3; };", None))
    return out


def run_unsupported(ck, bt, cc, hosts, judge, sitekeys, n):
    rng = ck.rng
    frs = gen_unsupported(rng, n)
    kindname = {"decl": "file-scope declaration", "stmt": "block statement", "expr": "expression", "line": "directive/line"}
    jobs = []
    for feat, kind, decls, code, fid in frs:
        t = {"kind": kindname[kind], "code": code, "msg": "."}
        if kind == "expr":      # not evaluated => no code is generated for it => legitimately accepted
            t["skip"] = {"unevaluated": "not evaluated", "file": "operand of sizeof"}
        if decls:
            t["decls"] = decls
        alone = c10cat.standalone(t)
        jobs.append((feat, code, "standalone", alone, fid, alone))
        for pos in c10cat.positions_of(t):
            inst = c10cat.instantiate(t, rng.choice(hosts), pos, rng)
            if inst is not None:
                jobs.append((feat, code, pos, inst[0], fid, alone))
    res = bt.run(cc, [j[3] for j in jobs])
    stats = {}
    for (feat, code, pos, text, fid, alone), r in zip(jobs, res):
        st = stats.setdefault(feat, {"units": 0, "rejected": 0, "site_in_source": all(s in sitekeys for s in UNSUPPORTED_SITES[feat])})
        st["units"] += 1
        # a unit of a recorded class is judged per class (fid), everything else per feature
        ok = judge.result("unsupported", feat + ("/" + fid if fid else ""), code[:70], pos, text, r, oracle=False, fid=fid,
                          fragment=code,
                          standalone=None if pos == "standalone" else alone)
        st["rejected"] += ok
    ck.cov["unsupported_features"] = stats
    missing = [f for f, ss in UNSUPPORTED_SITES.items() if not all(s in sitekeys for s in ss)]
    if missing:
        ck.notes.append("unsupported-feature diagnostics missing from the source: %s" % missing)


# ----------------------------------------------------------------------------- stream 3: mutation of valid programs
S = lambda f, fn, m: (f, fn, m)     # noqa: E731
DECL_RE = re.compile(r"^(\t+)((?:unsigned |signed |long |short |const )*(?:int|char|long|short|unsigned|float|double|_Bool)) (v\d+) = (.*);$")
GLOB_RE = re.compile(r"^((?:static )?)((?:unsigned |signed |long |short )*(?:int|char|long|short|unsigned|float|double|_Bool)) (g\d+) = (.*);$")


def _call_span(line, start):
    """line[start] is '(' of a call: (list of top-level argument strings, index after ')')"""
    d, args, cur = 0, [], []
    for i in range(start, len(line)):
        c = line[i]
        if c in "([{":
            d += 1
            if d == 1:
                continue
        elif c in ")]}":
            d -= 1
            if d == 0:
                if "".join(cur).strip():
                    args.append("".join(cur))
                return args, i + 1
        elif c == "," and d == 1:
            args.append("".join(cur))
            cur = []
            continue
        cur.append(c)
    return None, None


def m_undeclared(L, rng):
    c = [i for i, ln in enumerate(L) if DECL_RE.match(ln)]
    rng.shuffle(c)
    for i in c:
        v = DECL_RE.match(L[i]).group(3)
        if any(re.search(r"\b%s\b" % v, ln) for ln in L[i + 1:i + 40]):
            return L[:i] + [L[i].replace(" %s = " % v, " c10_%s = " % v, 1)] + L[i + 1:], "declaration of %s renamed" % v
    return None


def m_dupcase(L, rng):
    c = [i for i, ln in enumerate(L) if re.match(r"^\t+case [^:]+: ;$", ln)]
    if not c:
        return None
    i = rng.choice(c)
    return L[:i + 1] + [L[i]] + L[i + 1:], "case label duplicated"


def m_dupdefault(L, rng):
    c = [i for i, ln in enumerate(L) if re.match(r"^\t+default: ;$", ln)]
    if not c:
        return None
    i = rng.choice(c)
    return L[:i + 1] + [L[i]] + L[i + 1:], "default label duplicated"


def m_const_assign(L, rng):
    c = []
    for i, ln in enumerate(L):
        m = DECL_RE.match(ln)
        if m and "const" not in m.group(2):
            v = m.group(3)
            for j in range(i + 1, min(len(L), i + 40)):
                if re.match(r"^\t+%s (?:[-+*&|^]|<<|>>)?= " % v, L[j]):
                    c.append(i)
                    break
                if L[j] == "}":
                    break
    if not c:
        return None
    i = rng.choice(c)
    m = DECL_RE.match(L[i])
    return L[:i] + ["%sconst %s %s = %s;" % m.groups()] + L[i + 1:], "const added to %s, which is assigned later" % m.group(3)


def m_arity(L, rng):
    c = []
    for i, ln in enumerate(L):
        for m in re.finditer(r"\bf\d+\(", ln):
            if ln.startswith(("static ", "int ", "void ")) and not ln.startswith("\t"):
                continue
            c.append((i, m.end() - 1))
    rng.shuffle(c)
    for i, p in c:
        args, end = _call_span(L[i], p)
        if args is None:
            continue
        if args and rng.random() < 0.5:
            new = args[:-1]
            what = "last argument of a call dropped"
        else:
            new = args + ["0"]
            what = "argument added to a call"
        return L[:i] + [L[i][:p] + "(" + ",".join(new) + ")" + L[i][end:]] + L[i + 1:], what
    return None


def m_struct_redef(L, rng):
    c = [i for i, ln in enumerate(L) if re.match(r"^struct S\d+ \{$", ln)]
    if not c:
        return None
    i = rng.choice(c)
    j = i
    while not L[j].startswith("}"):
        j += 1
    return L[:j + 1] + L[i:j + 1] + L[j + 1:], "struct definition duplicated"


def m_func_redef(L, rng):
    c = [i for i, ln in enumerate(L) if i + 1 < len(L) and L[i + 1] == "{" and re.match(r"^static .*\bf\d+\(", ln)]
    if not c:
        return None
    i = rng.choice(c)
    j = i
    while L[j] != "}":
        j += 1
    return L[:j + 1] + L[i:j + 1] + L[j + 1:], "function definition duplicated"


def m_nonlvalue(L, rng):
    c = [i for i, ln in enumerate(L) if re.match(r"^\t+[vgp]\d+ = ", ln)]
    if not c:
        return None
    i = rng.choice(c)
    m = re.match(r"^(\t+)([vgp]\d+) = (.*)$", L[i])
    return L[:i] + ["%s(0, %s) = %s" % m.groups()] + L[i + 1:], "assignment to a comma expression"


def m_goto_undef(L, rng):
    c = [i for i, ln in enumerate(L) if re.search(r"\bgoto (\w+);", ln)]
    if not c:
        return None
    i = rng.choice(c)
    return L[:i] + [re.sub(r"\bgoto (\w+);", "goto c10_nolabel;", L[i])] + L[i + 1:], "goto retargeted to an undefined label"


def m_dup_label(L, rng):
    c = [i for i, ln in enumerate(L) if re.match(r"^\t+L\w*: ;$", ln)]
    if not c:
        return None
    i = rng.choice(c)
    return L[:i + 1] + [L[i]] + L[i + 1:], "label duplicated"


def _body_starts(L):
    return [i + 1 for i, ln in enumerate(L) if ln == "{" and i > 0 and not L[i - 1].startswith("\t")]


def m_break_outside(L, rng):
    c = _body_starts(L)
    if not c:
        return None
    i = rng.choice(c)
    s = rng.choice(["break;", "continue;", "case 1: ;", "default: ;"])
    return L[:i] + ["\t" + s] + L[i:], "'%s' outside of loop/switch" % s


def m_ptr_incompat(L, rng):
    c = [i for i, ln in enumerate(L) if re.match(r"^\t+(int|float|double|long|short|char|unsigned) \*v\d+ = &", ln)]
    if not c:
        return None
    i = rng.choice(c)
    m = re.match(r"^(\t+)(\w+) (\*v\d+ = &.*)$", L[i])
    other = "double" if m.group(2) in ("int", "unsigned", "float", "char", "short") else "int"
    return L[:i] + ["%s%s %s" % (m.group(1), other, m.group(3))] + L[i + 1:], "pointer initialised from a pointer to an incompatible type"


def m_nomember(L, rng):
    c = [i for i, ln in enumerate(L) if ln.startswith("\t") and re.search(r"\.m\d+\b", ln)]
    if not c:
        return None
    i = rng.choice(c)
    ms = list(re.finditer(r"\.m\d+\b", L[i]))
    m = rng.choice(ms)
    return L[:i] + [L[i][:m.start()] + ".c10_nomember" + L[i][m.end():]] + L[i + 1:], "member name replaced by one that does not exist"


def m_redecl_local(L, rng):
    c = [i for i, ln in enumerate(L) if DECL_RE.match(ln)]
    if not c:
        return None
    i = rng.choice(c)
    return L[:i + 1] + [L[i]] + L[i + 1:], "local declaration duplicated"


def m_redef_global(L, rng):
    c = [i for i, ln in enumerate(L) if GLOB_RE.match(ln)]
    if not c:
        return None
    i = rng.choice(c)
    return L[:i + 1] + [L[i]] + L[i + 1:], "initialised file-scope definition duplicated"


def m_retype_global(L, rng):
    c = [i for i, ln in enumerate(L) if GLOB_RE.match(ln)]
    if not c:
        return None
    i = rng.choice(c)
    m = GLOB_RE.match(L[i])
    other = "double" if m.group(2) != "double" else "int"
    return L[:i + 1] + ["extern %s %s;" % (other, m.group(3))] + L[i + 1:], "redeclaration with an incompatible type"


def m_neg_array(L, rng):
    c = [i for i, ln in enumerate(L) if re.search(r"\b[vgm]\d+\[\d+\]( =|;)", ln)]
    if not c:
        return None
    i = rng.choice(c)
    return L[:i] + [re.sub(r"\b([vgm]\d+)\[(\d+)\]", r"\1[-\2]", L[i], 1)] + L[i + 1:], "array length negated"


def m_bitfield_wide(L, rng):
    c = [i for i, ln in enumerate(L) if re.match(r"^\t[\w ]+ m\d+ : \d+;$", ln)]
    if not c:
        return None
    i = rng.choice(c)
    return L[:i] + [re.sub(r" : \d+;$", " : %d;" % rng.choice([65, 99, 200]), L[i])] + L[i + 1:], "bit-field wider than its type"


def m_bitfield_type(L, rng):
    c = [i for i, ln in enumerate(L) if re.match(r"^\t[\w ]+ m\d+ : \d+;$", ln)]
    if not c:
        return None
    i = rng.choice(c)
    return L[:i] + [re.sub(r"^\t[\w ]+ (m\d+) : \d+;$", r"\tdouble \1 : 3;", L[i])] + L[i + 1:], "bit-field of floating type"


def m_switch_float(L, rng):
    c = [i for i, ln in enumerate(L) if re.match(r"^\t+switch \(.*\) \{$", ln)]
    if not c:
        return None
    i = rng.choice(c)
    m = re.match(r"^(\t+)switch \((.*)\) \{$", L[i])
    return L[:i] + ["%sswitch ((double)(%s)) {" % m.groups()] + L[i + 1:], "switch on a floating expression"


def m_deref_nonptr(L, rng):
    c = [i for i, ln in enumerate(L) if re.match(r"^\t+out\(\(long\)\((.*)\)\);$", ln)]
    if not c:
        return None
    i = rng.choice(c)
    m = re.match(r"^(\t+)out\(\(long\)\((.*)\)\);$", L[i])
    return L[:i] + ["%sout((long)(*((long)(%s))));" % m.groups()] + L[i + 1:], "dereference of an integer"


def m_call_nonfunc(L, rng):
    c = [i for i, ln in enumerate(L) if re.match(r"^\t+out\(\(long\)\((.*)\)\);$", ln)]
    if not c:
        return None
    i = rng.choice(c)
    m = re.match(r"^(\t+)out\(\(long\)\((.*)\)\);$", L[i])
    return L[:i] + ["%sout((long)(((long)(%s))(1)));" % m.groups()] + L[i + 1:], "call of an integer"


def m_mod_float(L, rng):
    c = [i for i, ln in enumerate(L) if re.match(r"^\t+out\(\(long\)\((.*)\)\);$", ln)]
    if not c:
        return None
    i = rng.choice(c)
    m = re.match(r"^(\t+)out\(\(long\)\((.*)\)\);$", L[i])
    op = rng.choice(["%", "&", "|", "^", "<<", ">>"])
    return L[:i] + ["%sout((long)(((double)(%s)) %s 3));" % (m.group(1), m.group(2), op)] + L[i + 1:], "'%s' on a floating operand" % op


def m_struct_arith(L, rng):
    c = [i for i, ln in enumerate(L) if re.match(r"^\tstruct S\d+ v\d+ = ", ln)]
    if not c:
        return None
    i = rng.choice(c)
    v = re.match(r"^\tstruct S\d+ (v\d+) = ", L[i]).group(1)
    s = rng.choice(["(void)(%s + 1);", "(void)(!%s);", "(void)(-%s);", "(void)(%s ? 1 : 2);", "(void)((long)%s);",
                    "if (%s) ;", "while (%s) ;", "(void)(%s == %s);".replace("%s", "%s", 1)])
    s = s.replace("%s", v)
    return L[:i + 1] + ["\t" + s] + L[i + 1:], "struct operand where a scalar is required: " + s


def m_drop_semicolon(L, rng):
    c = [i for i, ln in enumerate(L) if ln.startswith("\t") and ln.endswith(");")]
    if not c:
        return None
    i = rng.choice(c)
    return L[:i] + [L[i][:-1]] + L[i + 1:], "';' dropped"


def m_drop_paren(L, rng):
    c = [i for i, ln in enumerate(L) if ln.startswith("\t") and ln.endswith("));")]
    if not c:
        return None
    i = rng.choice(c)
    return L[:i] + [L[i][:-3] + ");"] + L[i + 1:], "')' dropped"


def m_incomplete(L, rng):
    c = _body_starts(L)
    if not c:
        return None
    i = rng.choice(c)
    s = rng.choice(["struct c10_inc c10_x;", "void c10_x;", "int c10_x[];", "(void)sizeof(struct c10_inc);",
                    "(void)sizeof(void);" if False else "(void)sizeof(int[]);", "struct c10_inc *c10_p = 0; (void)(c10_p + 1);",
                    "struct c10_inc *c10_p = 0; (void)c10_p[0];"])
    return L[:i] + ["\t" + s] + L[i:], "incomplete type where a complete one is required: " + s


def m_specifiers(L, rng):
    c = [i for i, ln in enumerate(L) if GLOB_RE.match(ln) or DECL_RE.match(ln)]
    if not c:
        return None
    i = rng.choice(c)
    pre = rng.choice(["short long ", "signed unsigned ", "long long long ", "float double ", "short short ",
                      "static extern ", "typedef static ", "void ", "unsigned float "])
    ln = L[i]
    tabs = len(ln) - len(ln.lstrip("\t"))
    body = ln[tabs:]
    if body.startswith("static "):
        body = body[7:]
    return L[:i] + ["\t" * tabs + pre + body] + L[i + 1:], "invalid specifier combination: " + pre.strip()


def m_static_assert(L, rng):
    c = [i for i, ln in enumerate(L) if ln == ""]
    pos = rng.choice(c) if c and rng.random() < 0.5 else None
    s = rng.choice(['_Static_assert(sizeof(int) == 3, "c10");', '_Static_assert(0, "c10");', '_Static_assert(1 > 2, "c10");'])
    if pos is not None:
        return L[:pos] + [s] + L[pos:], "failing static assertion"
    b = _body_starts(L)
    if not b:
        return None
    i = rng.choice(b)
    return L[:i] + ["\t" + s] + L[i:], "failing static assertion"


def m_eq_nullconst(L, rng):
    c = [i for i, ln in enumerate(L) if re.match(r"^\t+out\(\(long\)\((.*)\)\);$", ln)]
    if not c:
        return None
    i = rng.choice(c)
    m = re.match(r"^(\t+)out\(\(long\)\((.*)\)\);$", L[i])
    op = rng.choice(["==", "!="])
    cast = rng.choice(["(double)", "(long)", "(float)", "(unsigned char)"])
    # `+ c10_nc`: not a constant (cproc folds more than C11's integer constant expressions, and a folded 0
    # is a null pointer constant for it)
    a, b = "(void *)0", "(%s(%s) + c10_nc)" % (cast, m.group(2))
    if rng.random() < 0.5:
        a, b = b, a
    blanks = [k for k, ln in enumerate(L) if ln == ""]
    if not blanks or blanks[0] > i:
        return None
    k = blanks[0]
    return L[:k] + ["static long c10_nc;"] + L[k:i] + ["%sout((long)(%s %s %s));" % (m.group(1), a, op, b)] + L[i + 1:], \
        "(void *)0 %s arithmetic operand" % op


def m_ptr_sub_incomplete(L, rng):
    c = _body_starts(L)
    if not c:
        return None
    i = rng.choice(c)
    t = rng.choice(["int", "char", "double"])
    return L[:i] + ["\t%s (*c10_p)[3] = 0; %s (*c10_q)[] = 0; (void)(c10_p - c10_q);" % (t, t)] + L[i:], \
        "pointer to complete array minus pointer to incomplete array"


def m_incdec_incomplete(L, rng):
    c = _body_starts(L)
    if not c:
        return None
    i = rng.choice(c)
    d = rng.choice(["void *c10_p = 0;", "struct c10_inc *c10_p = 0;", "int (*c10_p)[] = 0;", "void (*c10_p)(void) = 0;"])
    op = rng.choice(["c10_p++;", "++c10_p;", "c10_p--;", "--c10_p;"])
    return L[:i] + ["\t" + d + " " + op] + L[i:], "++/-- on a pointer to an incomplete or function type: %s %s" % (d, op)


def m_variadic_too_few(L, rng):
    c = _body_starts(L)
    blanks = [i for i, ln in enumerate(L) if ln == ""]
    if not c or not blanks:
        return None
    n = rng.choice([1, 2, 3])
    decl = "int c10_vf(%s, ...);" % ", ".join(["int"] * n)
    call = "\t(void)c10_vf(%s);" % ", ".join(["1"] * rng.randrange(n))
    i = rng.choice([x for x in c if x > blanks[0]] or c)
    return L[:blanks[0]] + [decl] + L[blanks[0]:i] + [call] + L[i:], \
        "call of a variadic function with fewer arguments than named parameters: %s %s" % (decl, call.strip())


def m_addr_rvalue(L, rng):
    c = _body_starts(L)
    blanks = [i for i, ln in enumerate(L) if ln == ""]
    if not c or not blanks:
        return None
    k = rng.choice(["struct", "union"])
    decl = "%s c10_rs { int c10_a; double c10_b; }; %s c10_rs c10_rf(void); %s c10_rs c10_r1, c10_r2;" % (k, k, k)
    e = rng.choice(["c10_rf()", "(1 ? c10_r1 : c10_r2)", "(c10_r1 = c10_r2)", "(0, c10_r1)"])
    i = rng.choice([x for x in c if x > blanks[0]] or c)
    return L[:blanks[0]] + [decl] + L[blanks[0]:i] + ["\t(void)&%s;" % e] + L[i:], "address of a %s rvalue: &%s" % (k, e)


NL_QUEUE = []
NONLVALUES = [   # (declarations at file scope, local declarations, expression that is not a modifiable lvalue)
    ("int c10_ga[3];", "", "c10_ga"),
    ("", "int c10_la[4] = {0};", "c10_la"),
    ("struct c10_as { int c10_n; int c10_arr[2]; } c10_sv;", "", "c10_sv.c10_arr"),
    ("struct c10_as { int c10_n; int c10_arr[2]; } c10_sv;", "struct c10_as *c10_sp = &c10_sv;", "c10_sp->c10_arr"),
    ("char c10_g2[2][3];", "", "c10_g2[1]"),
    ("", "", '"c10"'),
    ("void c10_fd(void);", "", "c10_fd"),
    ("struct c10_rs { int c10_a; }; struct c10_rs c10_rf(void);", "", "c10_rf().c10_a"),
    ("int c10_fi(void);", "", "c10_fi()"),
    ("int c10_i, c10_j;", "", "(c10_i ? c10_i : c10_j)"),
    ("int c10_i, c10_j;", "", "(c10_i, c10_j)"),
    ("int c10_i;", "", "(c10_i + 1)"),
    ("int c10_i;", "", "-c10_i"),
    ("int c10_i;", "", "(c10_i = 2)"),
    ("int c10_i;", "", "c10_i++"),
    ("", "", "1"),
    ("", "", "1.5"),
    ("enum { c10_ec = 3 };", "", "c10_ec"),
    ("int c10_i;", "", "sizeof c10_i"),
    ("int *c10_p;", "", "&*c10_p"),
]


def m_nonlvalue_lhs(L, rng):
    """assignment, compound assignment, ++ or -- applied to something that is not an lvalue: an array (object, member,
    string literal), a function designator, a member of a struct rvalue, a call, a conditional, a comma expression, an
    arithmetic expression, a constant"""
    c = _body_starts(L)
    blanks = [i for i, ln in enumerate(L) if ln == ""]
    if not c or not blanks:
        return None
    if not NL_QUEUE:
        forms = ["%s += 1;", "%s -= 1;", "%s |= 1;", "%s *= 2;", "%s <<= 1;", "%s = 0;", "%s++;", "++%s;", "%s--;", "--%s;"]
        # arrays, string literals, function designators, members of rvalues with the compound operators first: their
        # "lvalue-ness" is lost only through the 6.3.2.1 conversions, the easiest test to get wrong
        first = [(x, f) for x in NONLVALUES[:9] for f in forms[:6]]
        rest = [(x, f) for x in NONLVALUES for f in forms if (x, f) not in first]
        rng.shuffle(first)
        rng.shuffle(rest)
        NL_QUEUE.extend(first + rest)
    (gd, ld, e), form = NL_QUEUE.pop(0)
    stmt = form % e
    i = rng.choice([x for x in c if x > blanks[0]] or c)
    new = L[:blanks[0]] + ([gd] if gd else []) + L[blanks[0]:i] + (["\t" + ld] if ld else []) + ["\t" + stmt] + L[i:]
    return new, "left operand is not an lvalue: " + stmt


def m_flexible_member(L, rng):
    """a structure with a flexible array member as a member of a structure: directly, or inside a union nested
    0..3 levels deep (6.7.2.1p3), as the last or as an inner member"""
    blanks = [i for i, ln in enumerate(L) if ln == ""]
    if not blanks:
        return None
    depth = rng.randrange(4)
    et = rng.choice(["int", "char", "double", "short"])
    out = ["struct c10_fx { %s c10_n; %s c10_a[]; };" % (rng.choice(["int", "long", "unsigned char"]), et)]
    inner = "struct c10_fx"
    for k in range(depth):
        other = rng.choice(["int c10_o%d;" % k, "char c10_o%d[%d];" % (k, rng.choice([4, 16])), "double c10_o%d;" % k])
        mem = ["%s c10_i%d;" % (inner, k), other]
        rng.shuffle(mem)
        if rng.random() < 0.3 and k + 1 < depth:
            inner = "union { %s }" % " ".join(mem)          # anonymous union type used directly for the next member
        else:
            out.append("union c10_fu%d { %s };" % (k, " ".join(mem)))
            inner = "union c10_fu%d" % k
    if rng.random() < 0.4:
        # the array-element clause of the same paragraph
        form = rng.choice(["%s c10_fa[2];", "typedef %s c10_fat[3];", "struct c10_fs { int c10_id; %s c10_m[2]; };",
                           "void c10_fg(%s c10_p[]);", "extern %s c10_fe[];", "%s c10_f2[2][2];"])
        out.append(form % inner)
        k = blanks[0]
        return L[:k] + out + L[k:], "flexible-array structure (through %d union level(s)) as array element: %s" % (depth, form % "T")
    mem = ["%s c10_m;" % inner] + ["int c10_t%d;" % j for j in range(rng.randrange(3))]
    if rng.random() < 0.5:
        rng.shuffle(mem)
    out.append("struct c10_fs { int c10_id; %s };" % " ".join(mem))
    k = blanks[0]
    return L[:k] + out + L[k:], "flexible-array structure inside a structure through %d union level(s)" % depth


MUTATORS = [
    ("flexible-struct-member", m_flexible_member, [S("decl.c", "addmember", "struct member '%s' contains flexible array member"),
                                                   S("decl.c", "declarator", "array element contains flexible array member")]),
    ("non-lvalue-left-operand", m_nonlvalue_lhs, [S("expr.c", "assignexpr", "left side of assignment expression is not an lvalue"),
                                                  S("expr.c", "mkincdecexpr", "operand of '%s' operator must be an lvalue")]),
    ("variadic-too-few-args", m_variadic_too_few, [S("expr.c", "postfixexpr", "not enough arguments for function call")]),
    ("addr-of-rvalue", m_addr_rvalue, [S("expr.c", "unaryexpr", "'&' operand is not an lvalue or function designator"),
                                       S("expr.c", "mkunaryexpr", "'&' operand is not an lvalue or function designator")]),
    ("eq-nullconst-arith", m_eq_nullconst, [S("expr.c", "mkbinaryexpr", "invalid operands to '%s' operator")]),
    ("ptr-sub-incomplete", m_ptr_sub_incomplete, [S("expr.c", "mkbinaryexpr", "pointer operand to '-' must be to complete object type")]),
    ("incdec-incomplete", m_incdec_incomplete, [S("expr.c", "mkincdecexpr", "pointer operand of '%s' operator must be to complete object type")]),
    # (name, function, diagnostic sites of which at least one must exist in the current sources)
    ("undeclared-identifier", m_undeclared, [S("expr.c", "primaryexpr", "undeclared identifier: %s")]),
    ("duplicate-case", m_dupcase, [S("qbe.c", "switchcase", "multiple 'case' labels with same value")]),
    ("duplicate-default", m_dupdefault, [S("stmt.c", "label", "multiple 'default' labels")]),
    ("assign-to-const", m_const_assign, [S("qbe.c", "funcstore", "cannot store to 'const' object")]),
    ("call-arity", m_arity, [S("expr.c", "postfixexpr", "too many arguments for function call"),
                             S("expr.c", "postfixexpr", "not enough arguments for function call")]),
    ("struct-redefinition", m_struct_redef, [S("decl.c", "tagspec", "redefinition of tag '%s'")]),
    ("function-redefinition", m_func_redef, [S("decl.c", "decl", "function '%s' redefined")]),
    ("assign-to-rvalue", m_nonlvalue, [S("expr.c", "assignexpr", "left side of assignment expression is not an lvalue")]),
    ("goto-undefined-label", m_goto_undef, [S("qbe.c", "emitfunc", "label '%s' is used but not defined")]),
    ("duplicate-label", m_dup_label, [S("stmt.c", "label", "duplicate label '%s'")]),
    ("jump-outside", m_break_outside, [S("stmt.c", "stmt", "'break' statement must be in loop or switch"),
                                       S("stmt.c", "stmt", "'continue' statement must be in loop"),
                                       S("stmt.c", "label", "'case' label must be in switch"),
                                       S("stmt.c", "label", "'default' label must be in switch")]),
    ("incompatible-pointer", m_ptr_incompat, [S("expr.c", "exprassign", "base types of pointer assignment must be compatible or void")]),
    ("no-such-member", m_nomember, [S("expr.c", "postfixexpr", "struct/union has no member named '%s'"),
                                    S("init.c", "designator", "%s has no member named '%s'")]),
    ("local-redeclared", m_redecl_local, [S("decl.c", "declcommon", "%s '%s' with no linkage redeclared")]),
    ("object-redefined", m_redef_global, [S("decl.c", "decl", "object '%s' redefined")]),
    ("incompatible-redeclaration", m_retype_global, [S("decl.c", "declcommon", "%s '%s' redeclared with incompatible type")]),
    ("negative-array-length", m_neg_array, [S("decl.c", "declarator", "array length must be non-negative")]),
    ("bit-field-too-wide", m_bitfield_wide, [S("decl.c", "addmember", "bit-field '%s' exceeds width of underlying type")]),
    ("bit-field-type", m_bitfield_type, [S("decl.c", "addmember", "bit-field '%s' has invalid type")]),
    ("switch-on-float", m_switch_float, [S("stmt.c", "stmt", "controlling expression of switch statement must have integer type")]),
    ("deref-non-pointer", m_deref_nonptr, [S("expr.c", "mkunaryexpr", "cannot dereference non-pointer")]),
    ("call-non-function", m_call_nonfunc, [S("expr.c", "postfixexpr", "called object is not a function")]),
    ("integer-operator-on-float", m_mod_float, [S("expr.c", "mkbinaryexpr", "operands to '%%' operator must be integer"),
                                                S("expr.c", "mkbinaryexpr", "operands to '%s' operator must be integer")]),
    ("struct-as-scalar", m_struct_arith, [S("expr.c", "mkbinaryexpr", "invalid operands to '+' operator"),
                                          S("expr.c", "castexpr", "cast operand must have scalar type"),
                                          S("expr.c", "condexpr", "first operand of conditional operator must have scalar type")]),
    ("missing-semicolon", m_drop_semicolon, [S("stmt.c", "stmt", "expected TSEMICOLON after expression statement")]),
    ("missing-paren", m_drop_paren, [S("expr.c", "postfixexpr", "expected TCOMMA or ')' after function call argument")]),
    ("incomplete-type", m_incomplete, [S("decl.c", "defineobj", "object '%s' has incomplete type"),
                                       S("expr.c", "unaryexpr", "%s operator applied to incomplete type")]),
    ("invalid-specifiers", m_specifiers, [S("decl.c", "declspecs", "invalid combination of type specifiers"),
                                          S("decl.c", "storageclass", "invalid combination of storage class specifiers")]),
    ("static-assert", m_static_assert, [S("decl.c", "staticassert", "static assertion failed: %.*s")]),
]

CONSTRAINT_WORDS = re.compile(r"error", re.I)


def tag_changes(old, new):
    """mark the lines a rewrite touched (so that shrinking keeps them and a reader finds them)"""
    import difflib
    out = list(new)
    for op, i1, i2, j1, j2 in difflib.SequenceMatcher(None, old, new, autojunk=False).get_opcodes():
        if op in ("replace", "insert"):
            for j in range(j1, j2):
                if out[j].strip() and not out[j].lstrip().startswith("#"):
                    out[j] += " /* c10_mut */"
    return out


def run_mutations(ck, bt, cc, hosts, judge, sitekeys, per_kind):
    rng = ck.rng
    jobs = []
    stats = {}
    del NL_QUEUE[:]
    for name, fn, needs in MUTATORS:
        st = stats.setdefault(name, {"site_in_source": any(s in sitekeys for s in needs), "generated": 0,
                                     "gcc_and_clang_reject": 0, "cproc_rejects": 0})
        if not st["site_in_source"]:
            continue
        tries = 0
        made = 0
        want = min(per_kind * 10, 600) if name == "non-lvalue-left-operand" else per_kind
        while made < want and tries < want * 4:
            tries += 1
            h = rng.choice(hosts)
            r = fn(list(h.lines), rng)
            if r is None:
                continue
            made += 1
            jobs.append((name, "\n".join(tag_changes(h.lines, r[0])) + "\n", r[1]))
        st["generated"] = made
    texts = [j[1] for j in jobs]
    rg = bt.run(GCC, texts)
    rc = bt.run(CLANG, texts)
    keep = [i for i in range(len(jobs)) if rg[i][0] != 0 and rc[i][0] != 0 and "error" in rg[i][1] and "error" in rc[i][1]]
    rq = bt.run(cc, [texts[i] for i in keep])
    for i, r in zip(keep, rq):
        name, text, what = jobs[i]
        stats[name]["gcc_and_clang_reject"] += 1
        gmsg = [ln for ln in rg[i][1].splitlines() if "error" in ln][:1]
        fid = None
        ok = judge.result("mutation", name + ("/" + fid if fid else ""), what, "rewrite", text, r, oracle=True, fid=fid,
                          extra={"rewrite": what, "gcc": gmsg[0][-200:] if gmsg else ""})
        stats[name]["cproc_rejects"] += ok
    ck.cov["mutation_stream"] = stats
    if jobs:
        ck.sample({"mutation": jobs[0][0], "rewrite": jobs[0][2]})


# ----------------------------------------------------------------------------- site tables: python vs Lean
def site_tables(ck, cat):
    sites = [(s["file"], s["func"], s["fmt"]) for s in gen_c10.extract(common.REPO)]
    skeys = set(sites)
    # a diagnostic moved to another function of the same file keeps its entry (tools/gen_c10.py:resolve_moved, the same
    # resolution the generated Lean tables use); its templates must still be rejected with their messages
    moved = gen_c10.resolve_moved([e["site"] for e in cat["entries"]], sites)
    for e in cat["entries"]:
        if e["site"] in moved:
            e["site"] = moved[e["site"]]
    ck.moved_sites = ["%s -> %s" % ("|".join(a), "|".join(b)) for a, b in sorted(moved.items())]
    if moved:
        ck.notes.append("catalogue entries resolved to a site that moved within its file: %s" % ck.moved_sites)
    ckeys = {e["site"] for e in cat["entries"]}
    uncovered = sorted(skeys - ckeys)
    stale = sorted(ckeys - skeys)
    cls = {0: 0, 1: 0, 2: 0}
    for e in cat["entries"]:
        cls[0 if e.get("templates") else 1 if e.get("unreachable") else 2] += 1
    if ck.drv_ok and os.path.exists(ck.drv_path()):
        out = ck.run_drv("", args=["sites"])
        d = {}
        unc, stl = [], []
        for ln in out:
            k, _, v = ln.partition(" ")
            if k == "uncovered":
                unc.append(v)
            elif k == "stale":
                stl.append(v)
            elif k == "class":
                d["class" + v.split()[0]] = int(v.split()[1])
            else:
                d[k] = v

        def flat(k):
            return "|".join(k).replace("\n", "\\n").replace("\t", "\\t")
        want = {"sites": str(len(sites)), "entries": str(len(cat["entries"])), "codes-consistent": "true",
                "code-uncovered": str(len(uncovered)), "code-stale": str(len(stale))}
        bad = {k: (d.get(k), v) for k, v in want.items() if d.get(k) != v}
        if bad or sorted(unc) != sorted(map(flat, uncovered)) or sorted(stl) != sorted(map(flat, stale)) or \
                [d.get("class0"), d.get("class1"), d.get("class2")] != [cls[0], cls[1], cls[2]]:
            raise Broken("drv_c10 sites disagrees with the Python reading of the tables: %s / uncovered %s vs %s"
                         % (bad, unc[:3], uncovered[:3]))
    return sites, skeys, uncovered, stale, cls


def lean_build_own_tables(ck):
    """ck.lean_build(), making sure the Gen tables the build saw are those of the tree this check is pointed at.
    Every check regenerates ALL Gen files from ITS tree before it builds, so two checks running concurrently on
    different trees (CPROC_REPO) overwrite each other's tables.  First the ordinary ck.lean_build(); if the tables on
    disk are not this tree's afterwards, regenerate them and build while holding the build lock, and retry."""
    import fcntl
    import tempfile
    gen = os.path.join(common.LEAN, "CprocVerif", "Gen")
    names = ("ErrorSites.lean", "C10Catalogue.lean")
    d = tempfile.mkdtemp(prefix="c10gen-", dir=ck.scratch())
    gen_c10.generate(common.REPO, d)
    want = {f: open(os.path.join(d, f)).read() for f in names}

    def mine():
        return all(open(os.path.join(gen, f)).read() == want[f] for f in names)
    ck.lean_build()
    if mine():
        return
    prop, drv = "CprocVerif.Props.%s" % ck.pid, "drv_%s" % ck.pid.lower()
    for attempt in range(8):
        ck.notes.append("Gen tables were overwritten by a concurrent run on another tree; rebuilding under the build "
                        "lock (attempt %d)" % (attempt + 1))
        lock = open(os.path.join(common.LEAN, ".build.lock"), "w")
        fcntl.flock(lock, fcntl.LOCK_EX)
        try:
            for f in names:
                open(os.path.join(gen, f), "w").write(want[f])
            r = common.sh(["lake", "build", prop, drv], cwd=common.LEAN, timeout=3000)
            ok = r.returncode == 0
            drv_ok = ok or common.sh(["lake", "build", drv], cwd=common.LEAN, timeout=3000).returncode == 0
            same = mine()
        finally:
            fcntl.flock(lock, fcntl.LOCK_UN)
            lock.close()
        if same:
            ck.build_log, ck.proofs_ok, ck.drv_ok = r.stdout, ok, drv_ok
            if ok:
                ck.audit()
            else:
                ck.notes.append("lake build of %s failed" % prop)
            return
    raise Broken("Gen/ErrorSites.lean keeps being regenerated from another tree by concurrent checks")


# ----------------------------------------------------------------------------- main
def run(ck):
    quick = ck.quick
    nhosts = 4 if quick else 32
    reps = 2 if quick else 16
    ck.cov["rule"] = (
        "K-B: every template of every class-0 entry of catalogue/c10.json (one entry per error/fatal/tokencheck/"
        "expect site of the current sources), stand-alone and at each feasible position (file, block, nested "
        "statement, nested expression, unevaluated operand, macro expansion, late) of %d of %d generated valid host "
        "programs, must be rejected by cproc-qbe with status 1 and a diagnostic (stand-alone: the catalogued "
        "message); gcc/clang -pedantic-errors guard the catalogue; generated unsupported-feature units; "
        "constraint-violating rewrites of valid programs (%d kinds x %d) that gcc and clang both reject.  "
        "distinct_nontrivial counts distinct (stream, site or rewrite kind, template, position)."
        % (reps, nhosts, len(MUTATORS), 6 if quick else 200))
    lean_build_own_tables(ck)
    if not ck.proofs_ok:
        ck.notes.append("Props.C10 does not build; searching for a failing input")
    cc = ck.build_cproc_qbe()
    cat = c10cat.load()
    sites, skeys, uncovered, stale, cls = site_tables(ck, cat)
    bt = Batch(ck)
    matcher = SiteMatcher(sites)
    judge = Judge(ck, cc, matcher)

    if ck.replay:
        rep = json.load(open(ck.replay))
        if "program" in rep:
            r = one(cc, rep["program"], os.path.join(ck.scratch(), "replay.c"))
            judge.result("replay", rep.get("site", "replay"), rep.get("template", ""), "replay", rep["program"], r,
                         oracle=False)
        return

    run_corpus(ck, bt, cc, judge)
    guard_catalogue(ck, bt, cat)
    hosts = make_hosts(ck, bt, cc, nhosts)
    per_site = run_catalogue(ck, bt, cc, cat, hosts, judge, reps)
    run_unsupported(ck, bt, cc, hosts, judge, skeys, 40 if quick else 1000)
    run_mutations(ck, bt, cc, hosts, judge, skeys, 6 if quick else 200)

    ck.cov["histogram"] = {
        "sites_in_source": len(sites), "catalogue_entries": len(cat["entries"]),
        "class0_with_template": cls[0], "class1_unreachable": cls[1], "class2_external": cls[2],
        "uncovered_sites": ["|".join(k) for k in uncovered], "stale_entries": ["|".join(k) for k in stale],
        "moved_sites": getattr(ck, "moved_sites", []),
        "hosts": len(hosts), "host_lines": [len(h.lines) for h in hosts],
        "positions": dict(sorted(judge.by_pos.items())),
        "rejected_by_site": dict(sorted(judge.by_site.items(), key=lambda kv: -kv[1])),
        "sites_that_fired": len(judge.by_site), "abnormal_exits": judge.abnormal,
        "accepted_units": judge.accepted,
    }
    ck.cov["compilations"] = bt.runs
    ck.cov["constraints_checked_nowhere"] = [
        "6.5.4p4 cast between a pointer and a floating type: `(double)p`, `(int *)1.5` accepted (Lean: cast_ptr_float_counterexample)",
        "6.5.16.1p1 / 6.5.15p3 pointer to function next to pointer to void in assignment, initialisation, argument passing, ?: "
        "`void g(void); void *p = g;` accepted (ptr_assign_accept_sound_counterexample, cond_accept_sound_counterexample); "
        "== and != do reject it",
        "6.5.1.1p2 two generic associations with compatible types when neither is selected: "
        "`_Generic(1L, int: 1, T: 2, default: 0)` with `typedef int T;` accepted (generic_distinct_assocs_counterexample)",
        "6.5.3.2p1 `&` applied to an object declared `register`; 6.7.6.3p4/p10 in a function DECLARATION that is not a definition: `void f(void b);`, `void f(int, void);` accepted "
        "(a definition is rejected: decl.c \"parameter of function definition has incomplete type\"); "
        "6.8.6.1p1 goto into the scope of a variably modified identifier",
        "6.3.2.1p1 assignment to a struct/union object that has a const-qualified member (`s1 = s2`) accepted",
    ]

    if uncovered:
        ck.violation({"kind": "uncovered-site", "theorem": "CprocVerif.C10.sites_covered",
                      "sites": ["|".join(k) for k in uncovered],
                      "what": "diagnostic site(s) of the current sources without an entry in catalogue/c10.json: "
                              "nothing checks that the violation they diagnose is still rejected"}, nofail=True)
    if not ck.proofs_ok and not ck.violations:
        ck.violation({"kind": "proof-broken", "theorem": "CprocVerif.Props.C10 (lake build failed): "
                      + ("no_stale_entries" if stale else "see log"),
                      "stale_entries": ["|".join(k) for k in stale],
                      "what": "a catalogued diagnostic no longer exists in the sources, yet every template of it is "
                              "still rejected by some other check" if stale else "lake build failed",
                      "log": ck.build_log[-3000:]}, nofail=True)
    ck.assumptions = [
        "the catalogue's templates are violations: guarded by gcc 12 / clang 14 -std=c11 -pedantic-errors for the "
        "language-level ones; the %d cproc-only ones (unsupported features, C23 readings, GNU attributes) carry a "
        "written reason" % ck.cov.get("catalogue_guard", {}).get("cproc_only", 0),
        "class-1 sites (internal errors) are unreachable and class-2 sites (I/O, command line, allocation) are outside "
        "the input text: reasons in catalogue/c10.json; C17/C19 cover them",
        "site identity = (file, function, format string); a diagnostic moved to another function is a new site",
        "the numeric site codes of Gen/*.lean are keyCode of the string tables (re-computed natively by drv_c10 sites "
        "and by this check on every run)",
    ]


META = {
    "category": "proof",
    "text": ("Lean 4 theorems of two kinds.  (1) Over tables regenerated from /repo on every run: every diagnostic "
             "site of the current sources (error/fatal/usage/tokencheck/expect call keyed by file, function, format) "
             "has an entry in catalogue/c10.json, no entry is stale, no duplicates, class counts (sites_covered, "
             "no_stale_entries, sites_nodup, catalogue_nodup, classes_valid, class_counts).  (2) Acceptance soundness "
             "of the modelled front-end components for ALL inputs: if the model of mkbinaryexpr / unary operators / "
             "casts / sizeof / calls / assignment / member access / _Generic / linkage histories / case-label trees / "
             "struct members and bit-fields / enum values / literals accepts, the C11 constraint (stated independently "
             "in Spec/Constraints.lean) holds.  Tied to /repo on every run by compiling every violating template of "
             "every class-0 catalogue entry stand-alone and at every feasible position of generated valid host "
             "programs with the freshly built cproc-qbe (status 1 + diagnostic required; status 0 is a violation with "
             "the shrunk program), by generated unsupported-feature units, and by constraint-violating rewrites of "
             "valid programs which gcc and clang both reject."),
    "design_ref": "DESIGN.md section 4, C10",
    "note": ("Trusted: Lean kernel + propext/Classical.choice/Quot.sound; the component models (each tied to /repo by "
             "its own property's correspondence run: C04, C05, C06, C07, C09, C13, C14, C15); the site extractor "
             "tools/gen_c10.py (C tokenizer) and the catalogue's claim that each template violates the constraint its "
             "site diagnoses (guarded by gcc/clang; validated with an instrumented build by tools/c10_validate.py); "
             "numeric key codes of the generated tables (re-computed natively on every run).  The C parser proper is "
             "exercised only through the K-B runs; constraints cproc does not check anywhere are outside the property."),
    "technique": "Lean 4 proof (finite tables by kernel evaluation; acceptance-soundness theorems over component models) "
                 "+ catalogue-driven and mutation-driven differential runs against the compiled compiler, gcc and clang",
}

"""C15 - a switch transfers control to exactly the matching case.

Proof:   lean/CprocVerif/Props/C15.lean (AVL/BST/new-flag invariants of the model of tree.c for
         every insertion history, Fibonacci height bound, the casesearch ladder is a lookup,
         caseKey makes every reachable tree canonical).
Tie:     K-A  /repo/tree.c linked into harness/tree_h.c vs the model driver drv_c15, same
              operation streams (all insertion orders of <= N keys, random large sets);
         K-B  generated switch statements compiled by the freshly built cproc-qbe; the emitted
              ladder is *executed* (checks/ilpy.py) at probes and compared with C semantics.
"""
import itertools
import math
import os
import subprocess

from . import common, ilpy
from .common import CompileError

M64 = (1 << 64) - 1


# ----------------------------------------------------------------------------- K-A
def parse_dump(s):
    toks = s.replace("(", " ( ").replace(")", " ) ").split()
    pos = 0

    def node():
        nonlocal pos
        t = toks[pos]
        pos += 1
        if t == "-":
            return None
        assert t == "(", t
        key = int(toks[pos]); h = int(toks[pos + 1]); pos += 2
        l = node(); r = node()
        assert toks[pos] == ")"
        pos += 1
        return (key, h, l, r)
    t = node()
    assert pos == len(toks)
    return t


def tree_ok(t):
    """Independent statement of the invariants on the implementation's own tree.
    Returns (ok, reason, keys)."""
    keys = []
    bad = []

    def go(n, lo, hi):
        if n is None:
            return 0
        key, h, l, r = n
        if (lo is not None and key <= lo) or (hi is not None and key >= hi):
            bad.append("BST order violated at key %d" % key)
        hl = go(l, lo, key)
        keys.append(key)
        hr = go(r, key, hi)
        if abs(hl - hr) > 1:
            bad.append("AVL balance violated at key %d (%d vs %d)" % (key, hl, hr))
        if h != max(hl, hr) + 1:
            bad.append("stored height %d != real height %d at key %d" % (h, max(hl, hr) + 1, key))
        return max(hl, hr) + 1
    go(t, None, None)
    return (not bad, bad[0] if bad else "", keys)


def gen_sequences(ck):
    """Operation sequences (each starts from an empty tree)."""
    rng = ck.rng
    seqs = []
    nmax = 7 if ck.quick else 8
    # every insertion order of n distinct keys (every reachable shape), n <= nmax
    for n in range(1, nmax + 1):
        for perm in itertools.permutations(range(1, n + 1)):
            seqs.append(("perm", ["ins %d" % (k * 10) for k in perm]))
    # orders with duplicates interleaved
    for _ in range(300 if ck.quick else 3000):
        n = rng.randint(2, 12)
        ks = [rng.randint(0, 15) for _ in range(n)]
        seqs.append(("dups", ["ins %d" % k for k in ks]))
    # large random sets per key distribution; quiet inserts + dumps at intervals
    dists = {
        "int-sext": lambda: (rng.randint(-2**31, 2**31 - 1)) & M64,
        "uint": lambda: rng.randint(0, 2**32 - 1),
        "ulong": lambda: rng.randint(0, M64),
        "near-limits": lambda: rng.choice([0, 2**31, 2**32, 2**63, M64]) + rng.randint(-40, 40) & M64,
        "ascending": None, "descending": None,
    }
    size = 1500 if ck.quick else 5000
    for name, fn in dists.items():
        if fn is None:
            ks = list(range(1, size + 1))
            if name == "descending":
                ks.reverse()
        else:
            ks = [fn() for _ in range(size)]
        ops = []
        for i, k in enumerate(ks):
            ops.append("insq %d" % k)
            if i % 97 == 0 or i == len(ks) - 1:
                ops.append("dump")
        seqs.append((name, ops))
    return seqs


def run_ka(ck):
    try:
        h = ck.build_harness("tree_h.c", ["tree", "util"])
    except CompileError as e:
        ck.harness_broken("tree_h.c", e)
        return
    seqs = gen_sequences(ck)
    lines = []
    for _, ops in seqs:
        lines.append("reset")
        lines.extend(ops)
    text = "\n".join(lines) + "\n"
    env = dict(os.environ, ASAN_OPTIONS="detect_leaks=0")
    r = subprocess.run([h], input=text, stdout=subprocess.PIPE, stderr=subprocess.PIPE, text=True, env=env)
    out_c = r.stdout.splitlines()
    crashed = r.returncode != 0
    out_m = ck.run_drv(text) if ck.drv_ok else None
    # walk sequence by sequence
    pos = 0
    kinds = {}
    for kind, ops in seqs:
        n = len(ops) + 1
        oc = out_c[pos:pos + n]
        om = out_m[pos:pos + n] if out_m is not None else None
        pos += n
        kinds[kind] = kinds.get(kind, 0) + 1
        ck.count((kind, len(ops), tuple(ops[:8])))
        if len(oc) < n:   # implementation died inside this sequence
            ck.violation({"kind": "crash", "what": "tree.c harness aborted (sanitizer or signal)",
                          "ops": ops[:len(oc)], "stderr": r.stderr[-2000:]})
            return
        # (1) the implementation's own output against the stated invariants
        inserted = set()
        for op, line in zip(ops, oc[1:]):
            if op.startswith("ins"):
                key = int(op.split()[1])
                new = line.split()[0]
                if (new == "1") != (key not in inserted):
                    ck.violation({"kind": "new-flag", "ops": ops, "at": op, "got": line,
                                  "what": "treeinsert 'new' flag is not duplicate detection"})
                    return
                inserted.add(key)
                dump = line[2:] if op.startswith("ins ") else None
            else:
                dump = line
            if dump is not None:
                ok, why, keys = tree_ok(parse_dump(dump))
                if ok and set(keys) != inserted:
                    ok, why = False, "key set differs from the inserted set"
                if not ok:
                    ck.violation({"kind": "invariant", "ops": ops[:ops.index(op) + 1], "tree": dump[:2000], "what": why})
                    return
        # (2) correspondence with the model
        if om is not None and oc != om:
            i = common.diff_lines(oc, om)
            ck.violation({"kind": "correspondence", "what": "tree.c and Model/Tree.lean disagree "
                          "(tree shape/heights) although the implementation's tree satisfies BST/AVL",
                          "ops": ops[:i], "impl": oc[i][:500], "model": om[i][:500],
                          "theorem": "CprocVerif.C15.reachable_inv (model no longer describes tree.c)"}, nofail=True)
            return
    if crashed:
        ck.violation({"kind": "crash", "stderr": r.stderr[-2000:]})
    ck.sample({"K-A sequence": seqs[min(900, len(seqs) - 1)][1][:8], "kinds": kinds})
    ck.ka_kinds = kinds


# ----------------------------------------------------------------------------- K-B
TYPES = {  # name: (bits of T, signed T, promoted bits, promoted signed)
    "signed char": (8, True, 32, True), "unsigned char": (8, False, 32, True),
    "short": (16, True, 32, True), "unsigned short": (16, False, 32, True),
    "int": (32, True, 32, True), "unsigned": (32, False, 32, False),
    "long": (64, True, 64, True), "unsigned long": (64, False, 64, False),
    "long long": (64, True, 64, True), "unsigned long long": (64, False, 64, False),
}


def wrap(v, bits, signed):
    v &= (1 << bits) - 1
    if signed and v >> (bits - 1):
        v -= 1 << bits
    return v


def lit(v):
    if v < 0:
        if v == -2**63:
            return "(-9223372036854775807L-1)"
        return "(-%d)" % -v
    if v >= 2**63:
        return "%du" % v
    return "%d" % v


def gen_keys(rng, n, tbits, tsigned, pbits, psigned, wide):
    """n distinct (after conversion) case constants as python ints (their C value)."""
    lo, hi = (-(1 << (pbits - 1)), (1 << (pbits - 1)) - 1) if psigned else (0, (1 << pbits) - 1)
    keys, seen = [], set()
    tries = 0
    while len(keys) < n and tries < 20 * n + 100:
        tries += 1
        r = rng.random()
        if r < 0.35:
            v = rng.randint(-300, 300)
        elif r < 0.6:
            b = rng.choice([7, 8, 15, 16, 31, 32, 63, 64])
            v = rng.choice([1 << b, -(1 << b), (1 << b) - 1]) + rng.randint(-3, 3)
        elif r < 0.8:
            v = rng.randint(lo, hi)
        else:
            v = rng.randint(-2**63, 2**64 - 1)
        if not wide and not (lo <= v <= hi):
            continue
        if not (-2**63 <= v <= 2**64 - 1):
            continue
        c = wrap(v, pbits, psigned)
        if c in seen:
            continue
        seen.add(c)
        keys.append(v)
    return keys


def gen_program(rng, tname, keys, has_default, style):
    body = []
    order = list(range(len(keys)))
    rng.shuffle(order)
    items = [("case %s:" % lit(keys[i]), i + 1) for i in order]
    if has_default:
        items.insert(rng.randint(0, len(items)), ("default:", -1))
    if style == "ret":
        for lab, val in items:
            body.append("\t%s return %d;" % (lab, val))
        src = "int f(%s x) {\n\tswitch (x) {\n%s\n\t}\n\treturn -2;\n}\n" % (tname, "\n".join(body) if body else "\t;")
    elif style == "loop":
        for lab, val in items:
            body.append("\t\t%s r = %d; break;" % (lab, val))
        src = ("int f(%s x) {\n\tint r = -2, n = 0;\n\twhile (n++ < 1) {\n\t\tswitch (x) {\n%s\n\t\t}\n\t}\n\treturn r;\n}\n"
               % (tname, "\n".join(body) if body else "\t\t;"))
    else:  # nested inside another switch, with an inner switch that shares key values
        for lab, val in items:
            body.append("\t\t%s r = %d; switch (x) { case 0: r += 0; break; default: break; } break;" % (lab, val))
        src = ("int f(%s x) {\n\tint r = -2;\n\tswitch (1) {\n\tcase 1:\n\t\tswitch (x) {\n%s\n\t\t}\n\t\tbreak;\n\tdefault: r = -7;\n\t}\n\treturn r;\n}\n"
               % (tname, "\n".join(body) if body else "\t\t;"))
    return src


def fib_depth_bound(n):
    """largest AVL height possible with n nodes: max h with fib(h+2) - 1 <= n."""
    a, b, h = 1, 2, 0     # fib(2), fib(3)
    while b - 1 <= n:
        a, b = b, a + b
        h += 1
    return h


def run_kb(ck):
    rng = ck.rng
    cc = ck.build_cproc_qbe()
    sizes = [0, 1, 2, 3, 4, 5, 7, 8, 13, 21, 40, 100, 300] if ck.quick else \
            [0, 1, 2, 3, 4, 5, 7, 8, 13, 21, 40, 100, 300, 1000, 2500, 5000]
    reps = 1 if ck.quick else 3
    targets = ["x86_64-sysv", "aarch64", "riscv64"]
    stats = {"programs": 0, "probes": 0, "matched_case": 0, "default": 0, "past": 0, "dup_rejected": 0,
             "maxdepth": 0}
    d = os.path.join(ck.scratch(), "kb")
    os.makedirs(d, exist_ok=True)
    for tname, (tb, ts, pb, ps) in TYPES.items():
        for n in sizes:
            for rep in range(reps):
                wide = rng.random() < 0.3
                keys = gen_keys(rng, n, tb, ts, pb, ps, wide)
                has_default = rng.random() < 0.6
                style = rng.choice(["ret", "loop", "nested"])
                src = gen_program(rng, tname, keys, has_default, style)
                targ = rng.choice(targets)
                path = os.path.join(d, "p.c")
                open(path, "w").write(src)
                r = subprocess.run([cc, "-t", targ, path], stdout=subprocess.PIPE, stderr=subprocess.PIPE, text=True)
                stats["programs"] += 1
                if r.returncode != 0:
                    ck.violation({"kind": "rejected-valid-switch", "program": src, "target": targ,
                                  "stderr": r.stderr[-500:], "what": "valid switch rejected"})
                    return stats
                try:
                    funcs, _ = ilpy.parse(r.stdout)
                except ilpy.Unsupported as e:
                    raise common.Broken("ilpy cannot parse cproc output: %s" % e)
                conv = {wrap(k, pb, ps): i + 1 for i, k in enumerate(keys)}
                tlo, thi = (-(1 << (tb - 1)), (1 << (tb - 1)) - 1) if ts else (0, (1 << tb) - 1)
                probes = {tlo, thi, 0, 1, tlo + 1, thi - 1}
                for c in conv:
                    for dlt in (-1, 0, 1):
                        if tlo <= c + dlt <= thi:
                            probes.add(c + dlt)
                for _ in range(8):
                    probes.add(rng.randint(tlo, thi))
                if len(probes) > 400:
                    probes = set(rng.sample(sorted(probes), 400)) | {tlo, thi, 0}
                bound = fib_depth_bound(len(keys))
                for p in sorted(probes):
                    pv = wrap(p, pb, ps)      # value after integer promotion (value preserving)
                    want = conv.get(pv, -1 if has_default else -2)
                    arg = p & (0xffffffff if tb <= 32 else M64)
                    m = ilpy.Machine(funcs)
                    try:
                        got = m.call("f", [arg])
                    except ilpy.Trap as e:
                        got = "trap: %s" % e
                    except ilpy.Unsupported as e:
                        raise common.Broken("ilpy: %s" % e)
                    if isinstance(got, int):
                        got = wrap(got, 32, True)
                    stats["probes"] += 1
                    ck.count((tname, n, "case" if want > 0 else want))
                    stats["matched_case" if want > 0 else ("default" if want == -1 else "past")] += 1
                    depth = m.counts.get("ceqw", 0) + m.counts.get("ceql", 0)
                    if style == "nested":
                        depth = max(0, depth - (2 if want != -2 and want != -1 or True else 0))
                    stats["maxdepth"] = max(stats["maxdepth"], depth)
                    if got != want:
                        ck.violation({"kind": "wrong-case", "program": src, "target": targ, "type": tname,
                                      "probe": p, "expected_return": want, "got_return": got,
                                      "what": "switch reached the wrong case"})
                        return stats
                    if style != "nested" and depth > max(bound, 1):
                        ck.violation({"kind": "depth", "program": src, "target": targ, "probe": p,
                                      "comparisons": depth, "avl_bound": bound,
                                      "what": "search depth exceeds the AVL height bound"})
                        return stats
                if stats["programs"] == 40:
                    ck.sample({"K-B program": src[:600], "target": targ})
                # duplicate (after conversion) must be rejected
                if keys and rep == 0:
                    k = rng.choice(keys)
                    dupv = k + (1 << pb) if pb == 32 and rng.random() < 0.5 and k + (1 << 32) < 2**63 else k
                    dsrc = gen_program(rng, tname, keys + [dupv], has_default, "ret")
                    open(path, "w").write(dsrc)
                    r = subprocess.run([cc, "-t", targ, path], stdout=subprocess.PIPE, stderr=subprocess.PIPE, text=True)
                    ck.count((tname, n, "dup"))
                    if r.returncode == 0 or "error" not in r.stderr:
                        ck.violation({"kind": "duplicate-accepted", "program": dsrc, "target": targ,
                                      "what": "duplicate case constant (after conversion to the promoted type) accepted"})
                        return stats
                    stats["dup_rejected"] += 1
                    # and duplicate default
                    if has_default:
                        dsrc = src.replace("switch (x) {", "switch (x) {\n default: ;", 1)
                        open(path, "w").write(dsrc)
                        r = subprocess.run([cc, "-t", targ, path], stdout=subprocess.PIPE, stderr=subprocess.PIPE, text=True)
                        if r.returncode == 0:
                            ck.violation({"kind": "duplicate-default-accepted", "program": dsrc, "target": targ})
                            return stats
    return stats


def run(ck):
    ck.cov["rule"] = ("K-A: every insertion order of <=%d distinct keys + duplicate-laden orders + random/monotone "
                      "sets of %d keys per key distribution, tree.c vs model vs invariants; K-B: generated switches "
                      "(10 controlling types x sizes 0..%d x 3 styles x 3 targets) executed at every key, its "
                      "neighbours, type limits and random probes. distinct_nontrivial counts distinct K-A sequences "
                      "and distinct (type, case-count, outcome) K-B classes."
                      % (7 if ck.quick else 8, 1500 if ck.quick else 5000, 300 if ck.quick else 5000))
    ck.lean_build()
    if not ck.proofs_ok:
        ck.notes.append("Props.C15 does not build; searching for a failing input")
    run_ka(ck)
    stats = run_kb(ck) if not ck.violations else {}
    ck.cov["kb_stats"] = stats
    ck.cov["ka_kinds"] = getattr(ck, "ka_kinds", {})
    if not ck.proofs_ok and not ck.violations:
        ck.violation({"kind": "proof-broken", "theorem": "CprocVerif.Props.C15 (lake build failed)",
                      "log": ck.build_log[-3000:]}, nofail=True)
    ck.assumptions = ["QBE executes ceqw/cultw/ceql/cultl/jnz as documented (checks/ilpy.py and Spec/Qbe.lean)",
                      "the parser delivers case constants to switchcase as evaluated by intconstexpr (C04)"]


META = {
    "category": "proof",
    "text": ("Lean 4 theorems over a model of tree.c and of the casesearch ladder, for every set and order of case "
             "constants (no bound): insertion keeps BST + AVL with exact stored heights despite the early exit, the "
             "'new' flag is exact duplicate detection, height <= 91 for < 2^64 nodes (path array of 96 never "
             "overflows; ladder depth logarithmic), the emitted ceq/cult ladder is a dictionary lookup on the "
             "converted keys, and the conversion done by switchcase makes every reachable tree canonical "
             "(switch_w_correct / switch_l_correct / switch_dup_detected).  Tied to /repo on every run by running "
             "tree.c itself against the model on all insertion orders of <= 7 (thorough: 8) keys and large sets, "
             "and by executing the ladders cproc-qbe emits for generated switches at every key, neighbour and "
             "type limit."),
    "design_ref": "DESIGN.md section 4, C15",
    "note": ("Trusted: Lean kernel + propext/Classical.choice/Quot.sound; the hand-written model (tied by the "
             "differential run, which is sampling for sets > 8 keys); checks/ilpy.py's reading of ceq/cult/jnz; "
             "the C parser and intconstexpr deliver the case constants (C04).  Not modelled: the statement parser "
             "(stmt.c) and funcswitch's block plumbing, which are exercised only through the executed IL."),
    "technique": "Lean 4 proof (induction over insertion histories) + differential correspondence with tree.c and executed emitted IL",
}
